import sys, os, argparse, importlib, traceback, json
from harness.common import Check


def main():
    ap = argparse.ArgumentParser()
    ap.add_argument('pid')
    ap.add_argument('--tier', default=os.environ.get('VERIF_TIER', 'quick'), choices=['quick', 'thorough'])
    ap.add_argument('--seed', type=int, default=int(os.environ.get('VERIF_SEED', '0') or 0))
    ap.add_argument('--replay', default=None)
    a = ap.parse_args()
    pid = a.pid.upper()
    rp = None
    if a.replay:
        # every random choice of a run derives from (tier, seed): re-running with the recorded pair regenerates the same inputs,
        # so the recorded violation recurs exactly when the defect is still there
        rp = json.load(open(a.replay))
        a.tier = rp.get('tier', a.tier); a.seed = int(rp.get('seed', a.seed))
        print(f'replay: re-running {pid} with tier={a.tier} seed={a.seed}; looking for: {str(rp.get("what"))[:200]}')
    ck = Check(pid, a.tier, a.seed, replay=a.replay)
    try:
        mod = importlib.import_module('harness.' + pid.lower())
        mod.run(ck)
        if rp is not None and rp.get('key') is not None:
            again = [v for v in ck.violations if v['key'] == rp['key']]
            print(f'replay: the recorded violation {"RECURS" if again else "does NOT recur"} on the current tree'
                  + (f' ({str(again[0]["what"])[:200]})' if again else ''))
    except Exception as e:
        tb = traceback.format_exc()
        print(tb)
        # an exception raised INSIDE the library (innermost frame under XRFM_REPO) on an input the check built is a concrete failure
        # of the call the check was making; anything else is a harness problem (broken obligation)
        from harness.common import REPO
        frames = traceback.extract_tb(e.__traceback__)
        inner = frames[-1].filename if frames else ''
        lib = [f for f in frames if os.path.realpath(f.filename).startswith(os.path.realpath(REPO) + os.sep)]
        if lib and os.path.realpath(inner).startswith(os.path.realpath(REPO) + os.sep) or (lib and 'site-packages/torch' in inner):
            where = f'{os.path.relpath(lib[-1].filename, REPO)}:{lib[-1].lineno} in {lib[-1].name}'
            ck.violation(f'the library raised {type(e).__name__}: {str(e)[:160]} at {where} while the check was exercising it (input: see the traceback in the replay)',
                         dict(traceback=tb[-3000:], where=where), key=json.dumps(dict(site='library-raise', where=lib[-1].name)))
        ck.obligation('harness ran to completion', 'harness', False, tb)
    sys.exit(ck.finish())


if __name__ == '__main__':
    main()
