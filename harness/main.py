import sys, os, argparse, importlib, traceback, json
from harness.common import Check


def main():
    ap = argparse.ArgumentParser()
    ap.add_argument('pid')
    ap.add_argument('--tier', default=os.environ.get('VERIF_TIER', 'quick'), choices=['quick', 'thorough'])
    ap.add_argument('--seed', type=int, default=int(os.environ.get('VERIF_SEED', '0') or 0))
    ap.add_argument('--replay', default=None)
    a = ap.parse_args()
    pid = a.pid.upper()
    ck = Check(pid, a.tier, a.seed, replay=a.replay)
    try:
        mod = importlib.import_module('harness.' + pid.lower())
        if a.replay:
            rp = json.load(open(a.replay))
            if hasattr(mod, 'replay'):
                rc = mod.replay(ck, rp)
                sys.exit(rc)
            print('replay: module has no replay(); running the full check instead')
        mod.run(ck)
    except Exception:
        tb = traceback.format_exc()
        print(tb)
        ck.obligation('harness ran to completion', 'harness', False, tb)
    sys.exit(ck.finish())


if __name__ == '__main__':
    main()
