"""C02 — Leaf coefficients solve the ridge system of the state that is stored."""
import json, contextlib, math
import numpy as np
import torch
import mpmath as mp
from harness.common import *
from harness import scripted as sc
from harness import oracle as orc


@contextlib.contextmanager
def solver_log(log):
    """record exceptions raised inside the LAPACK entry points the code calls (they are swallowed by a broad except)"""
    names = ['solve', 'cholesky', 'lu_solve', 'lu', 'lu_factor']
    olds = {n: getattr(torch.linalg, n) for n in names}
    old_cs = torch.cholesky_solve
    def wrap(n, f):
        def g(*a, **k):
            try:
                return f(*a, **k)
            except Exception as e:
                log.append((n, type(e).__name__, str(e)[:120]))
                raise
        return g
    for n in names:
        setattr(torch.linalg, n, wrap(n, olds[n]))
    torch.cholesky_solve = wrap('cholesky_solve', old_cs)
    try:
        yield
    finally:
        for n in names:
            setattr(torch.linalg, n, olds[n])
        torch.cholesky_solve = old_cs


def run(ck):
    from harness import xr
    ck.rule = ('(a) scripted score histories through the REAL RFM.fit with tagged stubs, return_best on/off, early stop on/off: the tags of the '
               'stored coefficients / M / sqrtM / bandwidth must be coherent (Coq model + direct check); (b) real leaf fits (float64 and float32, '
               'all CPU kernels, diag/full, solve/cholesky/lu, constant/adaptive, iters 0-5, early stop on/off, best-restore on/off): '
               'residual of (K+lambda I) alpha = Y with K from the STORED state, predict(centers) = Y - lambda alpha, and for n <= 10 the Gram '
               'matrix recomputed with mpmath from the documented closed form.  non-trivial = iters >= 1; distinct by configuration hash')
    ck.trusted += ['Coq 8.16.1 kernel + vm_compute', 'harness/scripted.py stubs', 'mpmath closed-form Gram matrix (n <= 10)',
                   'LAPACK solve contract: a returned solution of an SPD system has small residual']
    ck.assumptions += ['training rows distinct, lambda > 0', 'tolerance = 200 n u (||K+lambda I|| ||alpha|| + ||Y||), u = 2^-52 / 2^-23']
    ck.check_theorems()
    from harness import solveops
    solveops.check_translation(ck)
    from harness import selectarith
    selectarith.check_translation(ck)
    rr = np.random.default_rng(ck.seed + 202)
    # ---------- (a) scripted coherence ----------
    cases = []; meta = {}
    for k in range(ck.n(700, 8000)):
        iters = int(rr.integers(0, 6))
        h = [float(v) for v in rr.integers(0, 4, size=iters + 1)]
        c = dict(iters=iters, scores=h, minimize=bool(rr.integers(0, 2)), early=bool(rr.integers(0, 2)),
                 mult=float(rr.choice([1.0, 1.1, 1.5])), rb=bool(rr.integers(0, 2)), arg=iters)
        c['ctor_metric'] = [None, 'accuracy', 'mse'][c['iters'] % 3]
        # every fourth history with at least two rounds: the wall-clock test fires at the top of round r (scripted clock)
        c['timeout'] = (1 + (k // 4) % (iters - 1)) if (k % 4 == 1 and iters >= 2) else None
        budget = iters if c['timeout'] is None else c['timeout']
        o = sc.run_real_fit(xr, c['iters'], c['arg'], c['scores'], 'mse' if c['minimize'] else 'accuracy', c['early'], c['mult'], c['rb'],
                            ctor_metric=c['ctor_metric'], timeout_round=c['timeout'], return_Ms=bool(k % 3 == 2))          # every third history also asks for the list of per-round matrices (a pure by-product)
        if c['timeout'] is not None:
            ck.count('scripted: clock runs out at the top of a round')
        ck.case(dict(c, observed=o), nontrivial=iters >= 1, sample=(k % 701 == 3))
        ck.count('scripted rb=%s es=%s' % (c['rb'], c['early']))
        if o['crashed'] is not None:
            ck.violation(f'RFM.fit crashed: {o["crashed"]} on {c}', dict(c), key='crash'); continue
        if not (o['w'][1] == o['m'] == o['sqrtm'] and o['w'][2] == o['bw']):
            ck.violation(f'stored coefficients were solved with M version {o["w"][1]} / bandwidth tag {o["w"][2]} but the stored M is version {o["m"]}, '
                         f'sqrtM {o["sqrtm"]}, bandwidth {o["bw"]} on {c}', dict(c, observed=o),
                         key=json.dumps(dict(site='scripted-coherence', rb=c['rb'], early=c['early'])))
        stopped = o['evals'] != budget + 1
        cases.append((k, f"outcome_eqb ({sc.coq_frun(c['minimize'], c['mult'], c['iters'], c['arg'], c['rb'], c['early'], c['scores'], timeout_round=c['timeout'])}) {sc.coq_outcome(o, stopped)}"))
        meta[k] = c
    res = ck.run_bool_cases('coh', sc.FIT_HEADER, cases, shard=500)
    bad = [meta[k] for k, v in res.items() if v is not True]
    ck.obligation(f'correspondence: {len(cases)} scripted histories (return_best on/off) through the real RFM.fit == Coq `run`', 'correspondence',
                  not bad, f'first mismatches: {bad[:4]}')

    # ---------- (b) real fits ----------
    kernels = [('l2', {}), ('l2_high_dim', {}), ('l1', {}), ('lpq', dict(norm_p=1.5)), ('sum_power_laplace', {})]
    solvers = ['solve', 'cholesky', 'lu']
    nfits = ck.n(45, 360)
    for i in range(nfits):
        kern, extra = kernels[i % 5]
        solver = solvers[(i // 5) % 3]
        dtype = torch.float64 if i % 4 else torch.float32
        diag = bool((i // 2) % 2)
        bwmode = 'adaptive' if (i % 3 == 1 and kern != 'sum_power_laplace') else 'constant'
        iters = int(rr.integers(0, 6))
        early = bool(rr.integers(0, 2)); rb = bool(rr.integers(0, 2))
        lam = float(rr.choice([1e-3, 1e-1, 1.0]))
        if i % 7 == 5 and dtype == torch.float64:
            lam = [1e-9, 1e-10, 1e-7][(i // 7) % 3]          # a very small requested regularisation is the requested regularisation all the same
        # a wall-clock budget that runs out after the first round (time_limit_s = 0): the fit stops early for a reason that has nothing to do with the scores,
        # the stored coefficients must still have been solved with the stored feature matrix and bandwidth
        timed_out = (i % 9 == 4)
        if timed_out:
            iters = 3; rb = bool((i // 9) % 2); early = False
        n = int(rr.integers(5, 11)) if i % 2 == 0 else int(rr.integers(12, 40))
        d = int(rr.integers(2, 5)); nout = int(rr.integers(1, 3))
        exponent = float(rr.choice([1.0, 1.2, 0.8]))
        X = torch.tensor(rr.standard_normal((n, d)), dtype=dtype)
        Y = torch.tensor(rr.standard_normal((n, nout)), dtype=dtype)
        Xv = torch.tensor(rr.standard_normal((15, d)), dtype=dtype)
        Yv = torch.tensor(rr.standard_normal((15, nout)), dtype=dtype)
        # categorical columns handled by the fast path, with category EMBEDDINGS that are not the identity (ordinal / learned codes): the system that is solved is
        # built from the same kernel the stored state evaluates
        cat_regime = (i % 5 in (0, 3)) and (i % 4 == 0)
        cat_kw = {}
        if cat_regime:
            levels_c = [3, 2]; nnum_c = 2; d = nnum_c + sum(levels_c)
            def catrows(k):
                R = np.zeros((k, d)); R[:, :nnum_c] = rr.standard_normal((k, nnum_c)); o_ = nnum_c
                for lv in levels_c:
                    R[np.arange(k), o_ + rr.integers(0, lv, size=k)] = 1.0; o_ += lv
                return R
            X = torch.tensor(catrows(n), dtype=dtype); Xv = torch.tensor(catrows(15), dtype=dtype)
            o_ = nnum_c; cidx = []
            for lv in levels_c:
                cidx.append(torch.arange(o_, o_ + lv)); o_ += lv
            cat_kw = dict(categorical_info=dict(numerical_indices=torch.arange(nnum_c), categorical_indices=cidx,
                                                categorical_vectors=[torch.tensor(rr.standard_normal((lv, lv)) + np.eye(lv), dtype=dtype) for lv in levels_c]),
                          fast_categorical=True)
            ck.count('categorical fast path with non-identity category embeddings')
        desc = dict(i=i, kernel=kern, solver=solver, dtype=str(dtype), diag=diag, bw=bwmode, iters=iters, early=early, rb=rb, lam=lam, n=n, d=d,
                    nout=nout, exponent=exponent, agop_best=bool((i // 5) % 2), timed_out=timed_out, categorical=cat_regime, seed=ck.seed)
        xr.seed_all(2200 + i + ck.seed)
        m = xr.RealRFM(kernel=kern, iters=iters, bandwidth=2.0, exponent=exponent, bandwidth_mode=bwmode, device='cpu', diag=diag,
                       verbose=False, tuning_metric='mse', **(dict(time_limit_s=0.0) if timed_out else {}), **cat_kw, **extra)
        log = []
        try:
            with solver_log(log), xr.quiet():
                # every other fit also asks for the AGOP of the selected model (a read-only fit_M after the restore, as xRFM does for its leaves)
                m.fit((X, Y), (Xv, Yv), iters=iters, reg=lam, solver=solver, return_best_params=rb, early_stop_rfm=early,
                      early_stop_multiplier=1.05, verbose=bool(i % 6 == 2), **(dict(get_agop_best_model=True) if (i // 5) % 2 else {}))      # every sixth fit reports progress (output discarded)
        except Exception as e:
            ck.violation(f'leaf fit raised {e!r} on {desc}', dict(desc, error=repr(e)), key=json.dumps(dict(site='fit-raise', kernel=kern, solver=solver)))
            continue
        ck.count(f'kernel={kern}'); ck.count(f'solver={solver}'); ck.count(f'{dtype}'); ck.count(f'bw={bwmode}'); ck.count(f'best_iter={m.best_iter}'); ck.count(f'get_agop_best_model={bool((i // 5) % 2)}')
        with xr.quiet():
            K = m.kernel(m.centers, m.centers).double()
            P = m.predict(m.centers).double()
        A = K + lam * torch.eye(n, dtype=torch.float64)
        W = m.weights.double()
        Yd = Y.double()
        u = 2.0 ** -52 if dtype == torch.float64 else 2.0 ** -23
        scale = float(A.abs().sum(1).max() * W.abs().max() + Yd.abs().max())
        tol = 200 * n * u * scale
        r1 = float((A @ W - Yd).abs().max())
        r2 = float((P - (Yd - lam * W)).abs().max())
        ck.case(dict(desc, residual=r1, tol=tol, best_iter=m.best_iter, swallowed=log[:2]), nontrivial=iters >= 1, sample=(i % 17 == 0))
        key = json.dumps(dict(site='residual', solver=solver))
        if not torch.equal(m.centers.double(), X.double()):
            ck.violation(f'stored centers differ from the training rows on {desc}', dict(desc), key='centers')
        if log:
            ck.count(f'swallowed solver exception: {log[0][0]}:{log[0][1]}')
        if not (r1 <= tol):
            ck.violation(f'stored coefficients do not solve (K+lambda I) alpha = Y for the stored state: residual {r1:.3g} > tol {tol:.3g} '
                         f'(swallowed solver exceptions: {log[:1]}) on {desc}', dict(desc, residual=r1, tol=tol, swallowed=log), key=key)
        elif not (r2 <= tol):
            ck.violation(f'predict(centers) != Y - lambda alpha: {r2:.3g} > {tol:.3g} on {desc}', dict(desc, residual=r2, tol=tol), key=key)
        # independent Gram matrix from the documented closed form (small n)
        if n <= 10 and r1 <= tol and not cat_regime:
            kn = orc.kname_of(m.kernel_obj); par = orc.kernel_params(m.kernel_obj)
            mat = orc.mpl(m.sqrtM if m.use_sqrtM else m.M)
            C = [[mp.mpf(float(v)) for v in row] for row in m.centers.double().tolist()]
            worst = 0.0
            for a in range(n):
                for o_ in range(nout):
                    acc = mp.mpf(0)
                    for b in range(n):
                        kv = orc.kernel_closed_form(kn, C[a], C[b], mat, **par) + (lam if a == b else 0)
                        acc += kv * mp.mpf(float(W[b, o_]))
                    worst = max(worst, abs(float(acc - mp.mpf(float(Yd[a, o_])))))
            # the memory-light kernel gets its distances from ||x||^2 - 2 x.z + ||z||^2: cancellation leaves an absolute error of about
            # sqrt(u) in small distances (the property itself says 'up to the rounding error of the distance computation')
            tol2 = tol * 20 + 1e-9 * scale + (4 * n * math.sqrt(u) ** min(1.0, float(m.kernel_obj.exponent)) * scale if kn == 'l2_light' else 0.0)   # d -> d^q amplifies the sqrt(u) error of near-zero distances when q < 1
            ck.count('closed-form Gram residual checked')
            if not (worst <= tol2):
                ck.violation(f'with the Gram matrix of the documented closed form the residual is {worst:.3g} > {tol2:.3g} on {desc}',
                             dict(desc, residual=worst, tol=tol2), key=json.dumps(dict(site='closed-form-residual', kernel=kern)))

    # ---- leaves INSIDE a forest: every leaf model of a fitted xRFM (split trees, 1-2 trees, adaptive and constant bandwidth) must satisfy the ridge identity
    #      with ITS OWN stored centers / feature matrix / bandwidth (leaf models are separate objects; nothing one leaf does may change another leaf's state)
    from harness import oracle as orc2
    for i in range(ck.n(10, 32)):
        kern, extra = [('l2', {}), ('l2_high_dim', {}), ('lpq', dict(norm_p=1.5)), ('l1', {})][i % 4]
        # tree iterations: every tree is rebuilt from the averaged feature matrix of the previous build and the best-scoring build is kept (it is often not the last one)
        tree_iters = [0, 2, 1, 1][i % 4] if i >= 4 else 0
        if i >= 6:
            kern, extra = [('l2_high_dim', {}), ('l2', {})][i % 2]; tree_iters = 2        # the default kernel reads M itself: several rebuilt trees, the kept one is often not the last
        bwm = 'adaptive' if i % 3 != 2 else 'constant'
        n = int(rr.integers(90, 160)); d = 3; nout = 1 + i % 2
        Xf = xr.make_X('random', n, d, rr); Yf = rr.standard_normal((n, nout)).astype(np.float32)
        Xvf = xr.make_X('random', 40, d, rr); Yvf = rr.standard_normal((40, nout)).astype(np.float32)
        lam = [1e-2, 1e-1][i % 2]
        xr.seed_all(2300 + i + ck.seed)
        fm = xr.xRFM(rfm_params=xr.default_rfm_params(kernel=kern, iters=(2 if i >= 6 else [0, 1, 2][i % 3]), reg=lam, bandwidth=2.0, bandwidth_mode=bwm, exponent=[1.0, 1.2][i % 2], diag=bool(i % 2), **extra),
                     max_leaf_size=int(rr.integers(25, 45)), n_trees=[1, 2][(i // 2) % 2], verbose=False, use_temperature_tuning=False, refill_size=20,
                     **(dict(n_tree_iters=tree_iters, split_method='random_global_agop') if tree_iters else {}))
        desc = dict(kind='forest', i=i, kernel=kern, bw=bwm, n=n, nout=nout, lam=lam, trees=fm.n_trees, tree_iters=tree_iters, seed=ck.seed)
        try:
            with xr.quiet():
                fm.fit(torch.tensor(Xf), torch.tensor(Yf), torch.tensor(Xvf), torch.tensor(Yvf))
        except Exception as e:
            ck.violation(f'forest fit raised {e!r} on {desc}', dict(desc, error=repr(e)), key=json.dumps(dict(site='fit-raise', kernel=kern, solver='forest'))); continue
        leaves = [l for t in fm.trees for l in orc2.tree_leaves(t)]
        ck.case(dict(desc, leaves=len(leaves)), nontrivial=len(leaves) >= 2); ck.count(f'forest leaves checked ({bwm})', len(leaves))
        for li, lf in enumerate(leaves):
            m = lf['model']
            with xr.quiet():
                K = m.kernel(m.centers, m.centers).double()
            nl = K.shape[0]
            A = K + lam * torch.eye(nl, dtype=torch.float64)
            W = m.weights.double()
            Yl = torch.tensor(Yf)[lf['train_indices'].long()].double()
            u = 2.0 ** -23
            scale = float(A.abs().sum(1).max() * W.abs().max() + Yl.abs().max())
            tol = 200 * nl * u * scale
            r1 = float((A @ W - Yl).abs().max())
            if not (r1 <= tol):
                ck.violation(f'leaf {li} of a fitted forest ({len(leaves)} leaves): stored coefficients do not solve (K+lambda I) alpha = Y for ITS stored state '
                             f'(bandwidth {float(m.kernel_obj.bandwidth):.4g}): residual {r1:.3g} > tol {tol:.3g} on {desc}', dict(desc, leaf=li, residual=r1, tol=tol,
                             bandwidths=[float(l2['model'].kernel_obj.bandwidth) for l2 in leaves]), key=json.dumps(dict(site='forest-residual', bw=bwm)))
                break
        if len({id(l['model'].kernel_obj) for l in leaves}) != len(leaves):
            ck.notes.append(f'forest leaves share kernel objects on {desc}')
