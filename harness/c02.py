"""C02 — Leaf coefficients solve the ridge system of the state that is stored."""
import json, contextlib, math
import numpy as np
import torch
import mpmath as mp
from harness.common import *
from harness import scripted as sc
from harness import oracle as orc


@contextlib.contextmanager
def solver_log(log):
    """record exceptions raised inside the LAPACK entry points the code calls (they are swallowed by a broad except)"""
    names = ['solve', 'cholesky', 'lu_solve', 'lu', 'lu_factor']
    olds = {n: getattr(torch.linalg, n) for n in names}
    old_cs = torch.cholesky_solve
    def wrap(n, f):
        def g(*a, **k):
            try:
                return f(*a, **k)
            except Exception as e:
                log.append((n, type(e).__name__, str(e)[:120]))
                raise
        return g
    for n in names:
        setattr(torch.linalg, n, wrap(n, olds[n]))
    torch.cholesky_solve = wrap('cholesky_solve', old_cs)
    try:
        yield
    finally:
        for n in names:
            setattr(torch.linalg, n, olds[n])
        torch.cholesky_solve = old_cs


def gram_closed_form_np(kname, C, mat, L, q, p=None, const_mix=0.0, power=2):
    """float64 numpy Gram matrix of the rows of C from the DOCUMENTED closed forms (same definitions as oracle.kernel_closed_form, which is mpmath
    and per entry; this one is for n in the hundreds).  mat: None | 1-D | 2-D array as the stored state holds it (for 'l2_light' it is M itself)."""
    C = np.asarray(C, dtype=np.float64); n = C.shape[0]
    def tr(Z):
        if mat is None:
            return Z
        A = np.asarray(mat, dtype=np.float64)
        return Z * A[None, :] if A.ndim == 1 else Z @ A
    if kname == 'l2_light':
        D = C[:, None, :] - C[None, :, :]                              # (n, n, d) explicit differences, no ||x||^2 - 2x.z + ||z||^2
        MD = D if mat is None else tr(D.reshape(n * n, -1)).reshape(n, n, -1)
        r = np.sqrt(np.clip((D * MD).sum(-1), 0.0, None))
        return np.exp(-(r / L) ** q)
    T = tr(C)
    D = np.abs(T[:, None, :] - T[None, :, :])
    if kname == 'l2':
        return np.exp(-(np.sqrt((D * D).sum(-1)) / L) ** q)
    if kname == 'l1':
        return np.exp(-((D ** q) * (D > 0)).sum(-1) / L ** q)
    if kname == 'lpq':
        r = (((D ** p) * (D > 0)).sum(-1)) ** (1.0 / p)
        return np.exp(-(r / L) ** q)
    if kname == 'sum_power':
        m = np.exp(-(D / L) ** q).mean(-1)
        return ((1.0 - const_mix) * m + const_mix) ** power
    raise ValueError(kname)


def direct_solve_cap(mem_gb, dtype):
    """largest n whose (n, n) Gram matrix of this dtype fits into mem_gb GiB (the number a memory-minded dispatcher would compute)"""
    return int(math.isqrt(int(mem_gb * 1024 ** 3 / (8 if dtype == torch.float64 else 4))))


def resource_limit_regime(ck, xr):
    """(c) leaf fits whose training set EXCEEDS a resource limit the caller configured.

    The statement quantifies over all training sets and configurations: a memory budget (`mem_gb` of the constructor, directly or through
    rfm_params['model'] of a forest), the attribute `max_lstsq_size`, AGOP batch / sample limits (`M_batch_size`, `total_points_to_sample`) are
    configuration, and whatever they make the fit do, the stored coefficients must solve (K + lambda I) alpha = Y for ALL stored centers.
    Family: budget b in {1e-6 .. 3e-4} GiB x dtype (the element size decides which n fits) x n AT the largest size that fits / one above / 1.25x / 2x above,
    x point cap below n, x AGOP limits, x kernel x solver x diag x bandwidth mode x iters 0..3 x early stop / best restore.
    Oracles: residual with the library's kernel on the stored state, predict(centers) = Y - lambda alpha, and the residual with a float64 numpy Gram
    matrix of the documented closed form (independent of the library's kernel code)."""
    rr = np.random.default_rng(ck.seed + 20202)
    kernels = [('l2', {}), ('l2_high_dim', {}), ('l1', {}), ('lpq', dict(norm_p=1.5)), ('sum_power_laplace', {})]
    solvers = ['solve', 'cholesky', 'lu']
    budgets = [1e-6, 1e-5, 3e-5, 1e-4, 3e-4]
    for j in range(ck.n(30, 150)):
        kern, extra = kernels[j % 5]
        solver = solvers[(j // 5) % 3]
        limit = ['mem_gb', 'mem_gb', 'mem_gb', 'max_lstsq_size', 'mem_gb+max_lstsq_size'][(j // 3) % 5] if j % 6 != 5 else 'mem_gb'
        mem = budgets[(j + j // 5) % 5]
        # float32 only under the two smallest budgets: the rounding allowance of the residual grows with n u, and a float32 allowance at n in the hundreds
        # would be as large as the targets themselves
        dtype = torch.float32 if (j % 2 == 1 and mem <= 1e-5) else torch.float64
        cap = direct_solve_cap(mem, dtype)
        # where n sits relative to the largest size that fits: 0 = exactly at it (everything still fits), then one above, 1.25x, 2x
        pos = [1, 2, 3, 1, 0, 2][j % 6]
        n = [cap, cap + 1, cap + max(2, cap // 4), 2 * cap + 3][pos]
        if kern in ('l1', 'lpq', 'sum_power_laplace') and n > 130:        # the autograd-based AGOPs of these kernels are slow at several hundred rows
            mem = [1e-5, 3e-5][j % 2]; cap = direct_solve_cap(mem, dtype); n = [cap, cap + 1, cap + max(2, cap // 4), 2 * cap + 3][pos]
            if n > 100:
                n = cap + max(2, cap // 4)
        n = max(n, 6)
        point_cap = None
        if 'max_lstsq_size' in limit:
            point_cap = [3, 7, n // 2, n - 1][(j // 15 + j) % 4]
        ctor = {}
        if 'mem_gb' in limit:
            ctor['mem_gb'] = mem
        diag = bool((j // 2) % 2)
        bwmode = 'adaptive' if (j % 3 == 1 and kern != 'sum_power_laplace') else 'constant'
        iters = [0, 1, 2, 3][(j // 2) % 4]
        if n > 150:
            iters = min(iters, 2 if n <= 300 else 1)          # cost: several AGOP rounds over hundreds of rows
        early = bool(rr.integers(0, 2)); rb = bool(rr.integers(0, 2))
        lam = float([1e-2, 1e-1, 1.0][j % 3])
        d = int(rr.integers(2, 5)); nout = 1 + (j // 4) % 2
        exponent = float([1.0, 1.2, 0.8][(j // 7) % 3])
        agop_limits = {}
        if j % 4 == 2:
            agop_limits = dict(M_batch_size=[1, 7, max(1, n // 3)][(j // 4) % 3], total_points_to_sample=max(2, n // 2))
        Xn = rr.standard_normal((n, d)); Yn = np.sin(Xn[:, :1]) + 0.5 * rr.standard_normal((n, nout))
        X = torch.tensor(Xn, dtype=dtype); Y = torch.tensor(Yn, dtype=dtype)
        Xv = torch.tensor(rr.standard_normal((20, d)), dtype=dtype); Yv = torch.tensor(rr.standard_normal((20, nout)), dtype=dtype)
        exceeds = (('mem_gb' in limit and n > cap) or (point_cap is not None and n > point_cap))
        desc = dict(regime='resource-limit', j=j, limit=limit, mem_gb=ctor.get('mem_gb'), gram_bytes=n * n * (8 if dtype == torch.float64 else 4),
                    budget_bytes=(int(mem * 1024 ** 3) if 'mem_gb' in limit else None), largest_n_that_fits=(cap if 'mem_gb' in limit else None),
                    max_lstsq_size=point_cap, kernel=kern, solver=solver, dtype=str(dtype), diag=diag, bw=bwmode, iters=iters, early=early, rb=rb, lam=lam,
                    n=n, d=d, nout=nout, exponent=exponent, agop_limits=agop_limits, seed=ck.seed)
        xr.seed_all(2400 + j + ck.seed)
        m = xr.RealRFM(kernel=kern, iters=iters, bandwidth=2.0, exponent=exponent, bandwidth_mode=bwmode, device='cpu', diag=diag,
                       verbose=False, tuning_metric='mse', **ctor, **extra)
        if point_cap is not None:
            m.max_lstsq_size = point_cap
        log = []
        try:
            with solver_log(log), xr.quiet():
                m.fit((X, Y), (Xv, Yv), iters=iters, reg=lam, solver=solver, method='lstsq', return_best_params=rb, early_stop_rfm=early,
                      early_stop_multiplier=1.05, verbose=bool(j % 8 == 3), **agop_limits)
        except Exception as e:
            ck.violation(f'leaf fit raised {e!r} on {desc}', dict(desc, error=repr(e)), key=json.dumps(dict(site='fit-raise', kernel=kern, solver=solver)))
            continue
        ck.count('resource limit: %s, training set %s' % (limit, 'exceeds it' if exceeds else 'is exactly at it'))
        ck.count(f'resource limit: {dtype}'); ck.count(f'resource limit: kernel={kern}')
        lam_ = lam
        u = 2.0 ** -52 if dtype == torch.float64 else 2.0 ** -23
        W = m.weights.double(); Yd = Y.double()
        replay = dict(desc, swallowed=log[:2])
        if n * d <= 4000:
            replay.update(X=Xn.tolist() if dtype == torch.float64 else X.double().tolist(), Y=Yd.tolist())
        if tuple(W.shape) != tuple(Yd.shape) or not torch.equal(m.centers.double(), X.double()):
            ck.violation(f'stored centers {tuple(m.centers.shape)} / coefficients {tuple(W.shape)} are not those of the {n} training rows on {desc}',
                         replay, key=json.dumps(dict(site='resource-limit-centers', limit=limit)))
            continue
        with xr.quiet():
            K = m.kernel(m.centers, m.centers).double()
            P = m.predict(m.centers).double()
        A = K + lam_ * torch.eye(n, dtype=torch.float64)
        scale = float(A.abs().sum(1).max() * W.abs().max() + Yd.abs().max())
        tol = 200 * n * u * scale
        R1 = (A @ W - Yd).abs(); r1 = float(R1.max())
        r2 = float((P - (Yd - lam_ * W)).abs().max())
        # independent Gram matrix: documented closed form, float64 numpy, from the STORED centers / feature matrix / bandwidth
        kn = orc.kname_of(m.kernel_obj); par = orc.kernel_params(m.kernel_obj)
        mat = m.sqrtM if m.use_sqrtM else m.M
        Kc = torch.tensor(gram_closed_form_np(kn, m.centers.double().numpy(), None if mat is None else mat.detach().double().numpy(), **par))
        R3 = ((Kc + lam_ * torch.eye(n, dtype=torch.float64)) @ W - Yd).abs(); r3 = float(R3.max())
        # the library evaluates its Gram matrix in the dtype of the fit; the memory-light kernel gets distances from ||x||^2 - 2 x.z + ||z||^2, whose
        # cancellation leaves about sqrt(u)|x| in a point's distance to ITSELF (one entry per row): (sqrt(u) |x| / L)^min(1,q) |alpha|
        xmax = float(m.centers.double().norm(dim=1).max()) * (1.0 if mat is None else max(1.0, float(mat.detach().double().abs().max())) * math.sqrt(d))
        # (torch.cdist, which the 'l2' kernel calls, switches to the same matmul form above 25 rows)
        mm_distances = (kn == 'l2_light') or (kn == 'l2' and n > 25)
        light = (8 * (math.sqrt(u * d) * xmax / float(par['L'])) ** min(1.0, float(par['q'])) * float(W.abs().max())) if mm_distances else 0.0
        tol3 = tol * 20 + 1e-9 * scale + light
        zero_rows = int((W.abs().sum(1) == 0).sum())
        ck.case(dict(desc, residual=r1, residual_closed_form=r3, tol=tol, tol_closed_form=tol3, best_iter=m.best_iter, exact_zero_coefficient_rows=zero_rows),
                nontrivial=exceeds, sample=(j % 11 == 0))
        ck.count('resource limit: closed-form (numpy float64) Gram residual checked')
        if r1 <= tol and r2 <= tol and r3 <= tol3:
            continue
        Rw, rw, which = (R1, r1, "the library's kernel on the stored state") if not (r1 <= tol) else ((R3, r3, 'the closed-form Gram matrix of the stored state') if not (r3 <= tol3) else (None, r2, None))
        if Rw is None:
            ck.violation(f'predict(centers) != Y - lambda alpha: {r2:.3g} > {tol:.3g} with a training set at or beyond a configured resource limit on {desc}',
                         dict(replay, residual=r2, tol=tol), key=json.dumps(dict(site='resource-limit-residual', limit=limit)))
            continue
        a = int(Rw.max(1).values.argmax())
        row = dict(row=a, x=X[a].double().tolist(), y=Yd[a].tolist(), K_alpha=(K @ W)[a].tolist(), alpha=W[a].tolist(), predict=P[a].tolist())
        lims = []
        if 'mem_gb' in limit:
            lims.append(f'mem_gb={mem:g} (budget {desc["budget_bytes"]} bytes, largest n that fits {cap})')
        if point_cap is not None:
            lims.append(f'max_lstsq_size={point_cap}')
        ck.violation(f'training set of {n} {str(dtype).split(".")[-1]} rows (Gram matrix {desc["gram_bytes"]} bytes) fitted with {" and ".join(lims)}: the stored coefficients do not solve '
                     f'(K+lambda I) alpha = Y for the stored centers ({which}): residual {rw:.3g} > tol {(tol if Rw is R1 else tol3):.3g}; {zero_rows} of {n} coefficient rows '
                     f'are exactly zero; worst row {a}: x={row["x"]} Y={row["y"]} (K alpha)={row["K_alpha"]} alpha={row["alpha"]} predict={row["predict"]} '
                     f'(swallowed solver exceptions: {log[:1]}) on {desc}',
                     dict(replay, residual=rw, tol=(tol if Rw is R1 else tol3), worst=row, exact_zero_coefficient_rows=zero_rows),
                     key=json.dumps(dict(site='resource-limit-residual', limit=limit)))


def run(ck):
    from harness import xr
    ck.rule = ('(a) scripted score histories through the REAL RFM.fit with tagged stubs, return_best on/off, early stop on/off: the tags of the '
               'stored coefficients / M / sqrtM / bandwidth must be coherent (Coq model + direct check); (b) real leaf fits (float64 and float32, '
               'all CPU kernels, diag/full, solve/cholesky/lu, constant/adaptive, iters 0-5, early stop on/off, best-restore on/off): '
               'residual of (K+lambda I) alpha = Y with K from the STORED state, predict(centers) = Y - lambda alpha, and for n <= 10 the Gram '
               'matrix recomputed with mpmath from the documented closed form; (c) real leaf fits whose training set sits AT / one above / well above a configured '
               'resource limit (constructor mem_gb 1e-6..3e-4 GiB vs the Gram matrix of n float64/float32 rows, the max_lstsq_size attribute, AGOP batch / sample '
               'limits; forests whose leaves get such a budget): same residuals plus the residual with a float64 numpy Gram matrix of the documented closed '
               'form (n up to ~400).  non-trivial = iters >= 1 (c: limit exceeded); distinct by configuration hash')
    ck.trusted += ['Coq 8.16.1 kernel + vm_compute', 'harness/scripted.py stubs', 'mpmath closed-form Gram matrix (n <= 10)', 'numpy float64 closed-form Gram matrix (resource-limit regime)',
                   'LAPACK solve contract: a returned solution of an SPD system has small residual']
    ck.assumptions += ['training rows distinct, lambda > 0', 'tolerance = 200 n u (||K+lambda I|| ||alpha|| + ||Y||), u = 2^-52 / 2^-23']
    ck.check_theorems()
    from harness import solveops
    solveops.check_translation(ck)
    from harness import selectarith
    selectarith.check_translation(ck)
    rr = np.random.default_rng(ck.seed + 202)
    # ---------- (a) scripted coherence ----------
    cases = []; meta = {}
    for k in range(ck.n(700, 8000)):
        iters = int(rr.integers(0, 6))
        h = [float(v) for v in rr.integers(0, 4, size=iters + 1)]
        c = dict(iters=iters, scores=h, minimize=bool(rr.integers(0, 2)), early=bool(rr.integers(0, 2)),
                 mult=float(rr.choice([1.0, 1.1, 1.5])), rb=bool(rr.integers(0, 2)), arg=iters)
        c['ctor_metric'] = [None, 'accuracy', 'mse'][c['iters'] % 3]
        # every fourth history with at least two rounds: the wall-clock test fires at the top of round r (scripted clock)
        c['timeout'] = (1 + (k // 4) % (iters - 1)) if (k % 4 == 1 and iters >= 2) else None
        budget = iters if c['timeout'] is None else c['timeout']
        o = sc.run_real_fit(xr, c['iters'], c['arg'], c['scores'], 'mse' if c['minimize'] else 'accuracy', c['early'], c['mult'], c['rb'],
                            ctor_metric=c['ctor_metric'], timeout_round=c['timeout'], return_Ms=bool(k % 3 == 2))          # every third history also asks for the list of per-round matrices (a pure by-product)
        if c['timeout'] is not None:
            ck.count('scripted: clock runs out at the top of a round')
        ck.case(dict(c, observed=o), nontrivial=iters >= 1, sample=(k % 701 == 3))
        ck.count('scripted rb=%s es=%s' % (c['rb'], c['early']))
        if o['crashed'] is not None:
            ck.violation(f'RFM.fit crashed: {o["crashed"]} on {c}', dict(c), key='crash'); continue
        if not (o['w'][1] == o['m'] == o['sqrtm'] and o['w'][2] == o['bw']):
            ck.violation(f'stored coefficients were solved with M version {o["w"][1]} / bandwidth tag {o["w"][2]} but the stored M is version {o["m"]}, '
                         f'sqrtM {o["sqrtm"]}, bandwidth {o["bw"]} on {c}', dict(c, observed=o),
                         key=json.dumps(dict(site='scripted-coherence', rb=c['rb'], early=c['early'])))
        stopped = o['evals'] != budget + 1
        cases.append((k, f"outcome_eqb ({sc.coq_frun(c['minimize'], c['mult'], c['iters'], c['arg'], c['rb'], c['early'], c['scores'], timeout_round=c['timeout'])}) {sc.coq_outcome(o, stopped)}"))
        meta[k] = c
    res = ck.run_bool_cases('coh', sc.FIT_HEADER, cases, shard=500)
    bad = [meta[k] for k, v in res.items() if v is not True]
    ck.obligation(f'correspondence: {len(cases)} scripted histories (return_best on/off) through the real RFM.fit == Coq `run`', 'correspondence',
                  not bad, f'first mismatches: {bad[:4]}')

    # ---------- (b) real fits ----------
    kernels = [('l2', {}), ('l2_high_dim', {}), ('l1', {}), ('lpq', dict(norm_p=1.5)), ('sum_power_laplace', {})]
    solvers = ['solve', 'cholesky', 'lu']
    nfits = ck.n(45, 360)
    for i in range(nfits):
        kern, extra = kernels[i % 5]
        solver = solvers[(i // 5) % 3]
        dtype = torch.float64 if i % 4 else torch.float32
        diag = bool((i // 2) % 2)
        bwmode = 'adaptive' if (i % 3 == 1 and kern != 'sum_power_laplace') else 'constant'
        iters = int(rr.integers(0, 6))
        early = bool(rr.integers(0, 2)); rb = bool(rr.integers(0, 2))
        lam = float(rr.choice([1e-3, 1e-1, 1.0]))
        if i % 7 == 5 and dtype == torch.float64:
            lam = [1e-9, 1e-10, 1e-7][(i // 7) % 3]          # a very small requested regularisation is the requested regularisation all the same
        # a wall-clock budget that runs out after the first round (time_limit_s = 0): the fit stops early for a reason that has nothing to do with the scores,
        # the stored coefficients must still have been solved with the stored feature matrix and bandwidth
        timed_out = (i % 9 == 4)
        if timed_out:
            iters = 3; rb = bool((i // 9) % 2); early = False
        n = int(rr.integers(5, 11)) if i % 2 == 0 else int(rr.integers(12, 40))
        d = int(rr.integers(2, 5)); nout = int(rr.integers(1, 3))
        exponent = float(rr.choice([1.0, 1.2, 0.8]))
        X = torch.tensor(rr.standard_normal((n, d)), dtype=dtype)
        Y = torch.tensor(rr.standard_normal((n, nout)), dtype=dtype)
        Xv = torch.tensor(rr.standard_normal((15, d)), dtype=dtype)
        Yv = torch.tensor(rr.standard_normal((15, nout)), dtype=dtype)
        # categorical columns handled by the fast path, with category EMBEDDINGS that are not the identity (ordinal / learned codes): the system that is solved is
        # built from the same kernel the stored state evaluates
        cat_regime = (i % 5 in (0, 3)) and (i % 4 == 0)
        cat_kw = {}
        if cat_regime:
            levels_c = [3, 2]; nnum_c = 2; d = nnum_c + sum(levels_c)
            def catrows(k):
                R = np.zeros((k, d)); R[:, :nnum_c] = rr.standard_normal((k, nnum_c)); o_ = nnum_c
                for lv in levels_c:
                    R[np.arange(k), o_ + rr.integers(0, lv, size=k)] = 1.0; o_ += lv
                return R
            X = torch.tensor(catrows(n), dtype=dtype); Xv = torch.tensor(catrows(15), dtype=dtype)
            o_ = nnum_c; cidx = []
            for lv in levels_c:
                cidx.append(torch.arange(o_, o_ + lv)); o_ += lv
            cat_kw = dict(categorical_info=dict(numerical_indices=torch.arange(nnum_c), categorical_indices=cidx,
                                                categorical_vectors=[torch.tensor(rr.standard_normal((lv, lv)) + np.eye(lv), dtype=dtype) for lv in levels_c]),
                          fast_categorical=True)
            ck.count('categorical fast path with non-identity category embeddings')
        desc = dict(i=i, kernel=kern, solver=solver, dtype=str(dtype), diag=diag, bw=bwmode, iters=iters, early=early, rb=rb, lam=lam, n=n, d=d,
                    nout=nout, exponent=exponent, agop_best=bool((i // 5) % 2), timed_out=timed_out, categorical=cat_regime, seed=ck.seed)
        xr.seed_all(2200 + i + ck.seed)
        m = xr.RealRFM(kernel=kern, iters=iters, bandwidth=2.0, exponent=exponent, bandwidth_mode=bwmode, device='cpu', diag=diag,
                       verbose=False, tuning_metric='mse', **(dict(time_limit_s=0.0) if timed_out else {}), **cat_kw, **extra)
        log = []
        try:
            with solver_log(log), xr.quiet():
                # every other fit also asks for the AGOP of the selected model (a read-only fit_M after the restore, as xRFM does for its leaves)
                m.fit((X, Y), (Xv, Yv), iters=iters, reg=lam, solver=solver, return_best_params=rb, early_stop_rfm=early,
                      early_stop_multiplier=1.05, verbose=bool(i % 6 == 2), **(dict(get_agop_best_model=True) if (i // 5) % 2 else {}))      # every sixth fit reports progress (output discarded)
        except Exception as e:
            ck.violation(f'leaf fit raised {e!r} on {desc}', dict(desc, error=repr(e)), key=json.dumps(dict(site='fit-raise', kernel=kern, solver=solver)))
            continue
        ck.count(f'kernel={kern}'); ck.count(f'solver={solver}'); ck.count(f'{dtype}'); ck.count(f'bw={bwmode}'); ck.count(f'best_iter={m.best_iter}'); ck.count(f'get_agop_best_model={bool((i // 5) % 2)}')
        with xr.quiet():
            K = m.kernel(m.centers, m.centers).double()
            P = m.predict(m.centers).double()
        A = K + lam * torch.eye(n, dtype=torch.float64)
        W = m.weights.double()
        Yd = Y.double()
        u = 2.0 ** -52 if dtype == torch.float64 else 2.0 ** -23
        scale = float(A.abs().sum(1).max() * W.abs().max() + Yd.abs().max())
        tol = 200 * n * u * scale
        r1 = float((A @ W - Yd).abs().max())
        r2 = float((P - (Yd - lam * W)).abs().max())
        ck.case(dict(desc, residual=r1, tol=tol, best_iter=m.best_iter, swallowed=log[:2]), nontrivial=iters >= 1, sample=(i % 17 == 0))
        key = json.dumps(dict(site='residual', solver=solver))
        if not torch.equal(m.centers.double(), X.double()):
            ck.violation(f'stored centers differ from the training rows on {desc}', dict(desc), key='centers')
        if log:
            ck.count(f'swallowed solver exception: {log[0][0]}:{log[0][1]}')
        if not (r1 <= tol):
            ck.violation(f'stored coefficients do not solve (K+lambda I) alpha = Y for the stored state: residual {r1:.3g} > tol {tol:.3g} '
                         f'(swallowed solver exceptions: {log[:1]}) on {desc}', dict(desc, residual=r1, tol=tol, swallowed=log), key=key)
        elif not (r2 <= tol):
            ck.violation(f'predict(centers) != Y - lambda alpha: {r2:.3g} > {tol:.3g} on {desc}', dict(desc, residual=r2, tol=tol), key=key)
        # independent Gram matrix from the documented closed form (small n)
        if n <= 10 and r1 <= tol and not cat_regime:
            kn = orc.kname_of(m.kernel_obj); par = orc.kernel_params(m.kernel_obj)
            mat = orc.mpl(m.sqrtM if m.use_sqrtM else m.M)
            C = [[mp.mpf(float(v)) for v in row] for row in m.centers.double().tolist()]
            worst = 0.0
            for a in range(n):
                for o_ in range(nout):
                    acc = mp.mpf(0)
                    for b in range(n):
                        kv = orc.kernel_closed_form(kn, C[a], C[b], mat, **par) + (lam if a == b else 0)
                        acc += kv * mp.mpf(float(W[b, o_]))
                    worst = max(worst, abs(float(acc - mp.mpf(float(Yd[a, o_])))))
            # the memory-light kernel gets its distances from ||x||^2 - 2 x.z + ||z||^2: cancellation leaves an absolute error of about
            # sqrt(u) in small distances (the property itself says 'up to the rounding error of the distance computation')
            tol2 = tol * 20 + 1e-9 * scale + (4 * n * math.sqrt(u) ** min(1.0, float(m.kernel_obj.exponent)) * scale if kn == 'l2_light' else 0.0)   # d -> d^q amplifies the sqrt(u) error of near-zero distances when q < 1
            ck.count('closed-form Gram residual checked')
            if not (worst <= tol2):
                ck.violation(f'with the Gram matrix of the documented closed form the residual is {worst:.3g} > {tol2:.3g} on {desc}',
                             dict(desc, residual=worst, tol=tol2), key=json.dumps(dict(site='closed-form-residual', kernel=kern)))

    # ---------- (c) real fits beyond a configured resource limit ----------
    resource_limit_regime(ck, xr)

    # ---- leaves INSIDE a forest: every leaf model of a fitted xRFM (split trees, 1-2 trees, adaptive and constant bandwidth) must satisfy the ridge identity
    #      with ITS OWN stored centers / feature matrix / bandwidth (leaf models are separate objects; nothing one leaf does may change another leaf's state)
    from harness import oracle as orc2
    for i in range(ck.n(10, 32)):
        kern, extra = [('l2', {}), ('l2_high_dim', {}), ('lpq', dict(norm_p=1.5)), ('l1', {})][i % 4]
        # tree iterations: every tree is rebuilt from the averaged feature matrix of the previous build and the best-scoring build is kept (it is often not the last one)
        tree_iters = [0, 2, 1, 1][i % 4] if i >= 4 else 0
        if i >= 6:
            kern, extra = [('l2_high_dim', {}), ('l2', {})][i % 2]; tree_iters = 2        # the default kernel reads M itself: several rebuilt trees, the kept one is often not the last
        bwm = 'adaptive' if i % 3 != 2 else 'constant'
        n = int(rr.integers(90, 160)); d = 3; nout = 1 + i % 2
        Xf = xr.make_X('random', n, d, rr); Yf = rr.standard_normal((n, nout)).astype(np.float32)
        Xvf = xr.make_X('random', 40, d, rr); Yvf = rr.standard_normal((40, nout)).astype(np.float32)
        lam = [1e-2, 1e-1][i % 2]
        # every fifth forest hands its leaves a memory budget (rfm_params['model']['mem_gb']) that is smaller than a leaf's Gram matrix (float32: 5 / 8 rows fit, leaves hold 11 or more):
        # a budget is configuration, every leaf must still solve the system of ALL its centers
        budget_kw = dict(mem_gb=[1e-7, 3e-7][(i // 5) % 2]) if i % 5 == 3 else {}
        if budget_kw:
            ck.count('forest whose leaves get a memory budget below their Gram matrix')
        xr.seed_all(2300 + i + ck.seed)
        fm = xr.xRFM(rfm_params=xr.default_rfm_params(kernel=kern, iters=(2 if i >= 6 else [0, 1, 2][i % 3]), reg=lam, bandwidth=2.0, bandwidth_mode=bwm, exponent=[1.0, 1.2][i % 2], diag=bool(i % 2), **budget_kw, **extra),
                     max_leaf_size=int(rr.integers(25, 45)), n_trees=[1, 2][(i // 2) % 2], verbose=False, use_temperature_tuning=False, refill_size=20,
                     **(dict(n_tree_iters=tree_iters, split_method='random_global_agop') if tree_iters else {}))
        desc = dict(kind='forest', i=i, kernel=kern, bw=bwm, n=n, nout=nout, lam=lam, trees=fm.n_trees, tree_iters=tree_iters, leaf_mem_gb=budget_kw.get('mem_gb'), seed=ck.seed)
        try:
            with xr.quiet():
                fm.fit(torch.tensor(Xf), torch.tensor(Yf), torch.tensor(Xvf), torch.tensor(Yvf))
        except Exception as e:
            ck.violation(f'forest fit raised {e!r} on {desc}', dict(desc, error=repr(e)), key=json.dumps(dict(site='fit-raise', kernel=kern, solver='forest'))); continue
        leaves = [l for t in fm.trees for l in orc2.tree_leaves(t)]
        ck.case(dict(desc, leaves=len(leaves)), nontrivial=len(leaves) >= 2); ck.count(f'forest leaves checked ({bwm})', len(leaves))
        for li, lf in enumerate(leaves):
            m = lf['model']
            with xr.quiet():
                K = m.kernel(m.centers, m.centers).double()
            nl = K.shape[0]
            A = K + lam * torch.eye(nl, dtype=torch.float64)
            W = m.weights.double()
            Yl = torch.tensor(Yf)[lf['train_indices'].long()].double()
            u = 2.0 ** -23
            scale = float(A.abs().sum(1).max() * W.abs().max() + Yl.abs().max())
            tol = 200 * nl * u * scale
            r1 = float((A @ W - Yl).abs().max())
            if not (r1 <= tol):
                ck.violation(f'leaf {li} of a fitted forest ({len(leaves)} leaves): stored coefficients do not solve (K+lambda I) alpha = Y for ITS stored state '
                             f'(bandwidth {float(m.kernel_obj.bandwidth):.4g}): residual {r1:.3g} > tol {tol:.3g} on {desc}', dict(desc, leaf=li, residual=r1, tol=tol,
                             bandwidths=[float(l2['model'].kernel_obj.bandwidth) for l2 in leaves]), key=json.dumps(dict(site='forest-residual', bw=bwm)))
                break
        if len({id(l['model'].kernel_obj) for l in leaves}) != len(leaves):
            ck.notes.append(f'forest leaves share kernel objects on {desc}')
