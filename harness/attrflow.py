"""Fail-closed translator (pattern D): methods of xRFM / RFM / Kernel / ClassificationConverter are re-read from the CURRENT source
and turned into structured read/write traces over `self.<attr>` paths (XV.Model.AttrFlow.prog).  Calls to methods of the same
object are inlined; calls through sub-objects of known class (kernel_obj, class_converter[_]) are inlined with a path prefix
(union over the CPU kernel classes); recursion becomes a Loop.  Anything that could hide an attribute access
(getattr/setattr/vars/__dict__ on the receiver, the receiver escaping as a bare argument) raises TranslationError."""
import ast, os
from harness.common import REPO


class TranslationError(Exception):
    pass


FILES = {'xRFM': 'xrfm/xrfm.py', 'RFM': 'xrfm/rfm_src/recursive_feature_machine.py',
         'ClassificationConverter': 'xrfm/rfm_src/class_conversion.py'}
KERNEL_FILE = 'xrfm/rfm_src/kernels.py'
CPU_KERNELS = ['LightLaplaceKernel', 'LaplaceKernel', 'ProductLaplaceKernel', 'LpqLaplaceKernel', 'SumPowerLaplaceKernel']
SUBOBJECTS = {('xRFM', 'class_converter_'): ['ClassificationConverter'],
              ('RFM', 'class_converter'): ['ClassificationConverter'],
              ('RFM', 'kernel_obj'): CPU_KERNELS}
MUTATORS = {'append', 'extend', 'pop', 'update', 'setdefault', 'clear', 'insert', 'remove', 'sort', 'reverse'}
# bare `self` may be handed to these without an attribute being touched behind our back
SAFE_SELF_ARGS = {'isinstance', 'type', 'id', 'super'}


class Source:
    def __init__(self):
        self.classes = {}
        for path in set(FILES.values()) | {KERNEL_FILE}:
            tree = ast.parse(open(os.path.join(REPO, path)).read())
            for node in tree.body:
                if isinstance(node, ast.ClassDef):
                    self.classes[node.name] = node

    def method(self, cls, name):
        seen = set()
        while cls in self.classes and cls not in seen:
            seen.add(cls)
            node = self.classes[cls]
            for it in node.body:
                if isinstance(it, ast.FunctionDef) and it.name == name:
                    return it
            bases = [b.id for b in node.bases if isinstance(b, ast.Name)]
            cls = bases[0] if bases else None
        return None


# prog constructors (python side): ('skip',) ('seq', [..]) ('rd', name) ('wr', name) ('br', p, q) ('loop', p)
def seq(items):
    flat = []
    for it in items:
        if it[0] == 'skip':
            continue
        if it[0] == 'seq':
            flat.extend(it[1])
        else:
            flat.append(it)
    return ('seq', flat) if flat else ('skip',)


class Translator:
    def __init__(self, assume=None):
        """assume: constructor-only boolean attributes of the analysed object with a fixed value (partial evaluation of
        `if self.<flag>` tests; the caller must analyse every value of the flag)"""
        self.src = Source()
        self.memo = {}
        self.recursive = set()
        self.assume = dict(assume or {})

    def static_truth(self, test, recv, prefix):
        if isinstance(test, ast.Attribute):
            p = self.path_of(test, recv)
            if p is not None and prefix + '.'.join(p) in self.assume:
                return self.assume[prefix + '.'.join(p)]
        if isinstance(test, ast.UnaryOp) and isinstance(test.op, ast.Not):
            v = self.static_truth(test.operand, recv, prefix)
            return None if v is None else (not v)
        if isinstance(test, ast.BoolOp):
            vals = [self.static_truth(v, recv, prefix) for v in test.values]
            if isinstance(test.op, ast.And):
                if any(v is False for v in vals):
                    return False
                if all(v is True for v in vals):
                    return True
            else:
                if any(v is True for v in vals):
                    return True
                if all(v is False for v in vals):
                    return False
        return None

    # ------------------------------------------------------------------ methods
    def method(self, cls, name, prefix, stack):
        key = (cls, name, prefix)
        if key in stack:
            self.recursive.add(key)
            return ('skip',)
        if key in self.memo:
            return self.memo[key]
        fn = self.src.method(cls, name)
        if fn is None:
            raise TranslationError(f'method {cls}.{name} not found')
        recv = fn.args.args[0].arg if fn.args.args else None
        body = self.block(fn.body, cls, recv, prefix, stack + [key], {})
        if key in self.recursive:
            body = seq([body, ('loop', body)])
        self.memo[key] = body
        return body

    # ------------------------------------------------------------------ statements
    def terminates(self, stmts):
        if not stmts:
            return False
        last = stmts[-1]
        if isinstance(last, (ast.Return, ast.Raise)):
            return True
        if isinstance(last, ast.If):
            return self.terminates(last.body) and self.terminates(last.orelse)
        return False

    def block(self, stmts, cls, recv, prefix, stack, local_fns):
        out = []
        local_fns = dict(local_fns)
        for i, st in enumerate(stmts):
            if isinstance(st, ast.FunctionDef):
                local_fns[st.name] = st
                continue
            if isinstance(st, ast.If):
                t = self.expr(st.test, cls, recv, prefix, stack, local_fns)
                rest = stmts[i + 1:]
                known = self.static_truth(st.test, recv, prefix)
                if known is not None:
                    taken = st.body if known else st.orelse
                    out.append(seq([t, self.block(list(taken) + rest, cls, recv, prefix, stack, local_fns)]))
                    return seq(out)
                if self.terminates(st.body) and not self.terminates(st.orelse):
                    # the rest of the block only runs on the other branch
                    b1 = self.block(st.body, cls, recv, prefix, stack, local_fns)
                    b2 = self.block(list(st.orelse) + rest, cls, recv, prefix, stack, local_fns)
                    out.append(seq([t, ('br', b1, b2)]))
                    return seq(out)
                if self.terminates(st.orelse) and not self.terminates(st.body):
                    b1 = self.block(list(st.body) + rest, cls, recv, prefix, stack, local_fns)
                    b2 = self.block(st.orelse, cls, recv, prefix, stack, local_fns)
                    out.append(seq([t, ('br', b1, b2)]))
                    return seq(out)
                out.append(seq([t, ('br', self.block(st.body, cls, recv, prefix, stack, local_fns),
                                    self.block(st.orelse, cls, recv, prefix, stack, local_fns))]))
                continue
            out.append(self.stmt(st, cls, recv, prefix, stack, local_fns))
        return seq(out)

    def stmt(self, st, cls, recv, prefix, stack, lf):
        E = lambda e: self.expr(e, cls, recv, prefix, stack, lf)
        B = lambda b: self.block(b, cls, recv, prefix, stack, lf)
        if isinstance(st, ast.Expr):
            return E(st.value)
        if isinstance(st, ast.Assign):
            out = [E(st.value)] + [self.target(t, cls, recv, prefix, stack, lf) for t in st.targets]
            # self.a = KnownClass(...): the new object's constructor writes its own attributes under the path a.
            v = st.value
            if isinstance(v, ast.Call) and isinstance(v.func, ast.Name) and v.func.id in self.src.classes:
                for t in st.targets:
                    p = self.path_of(t, recv) if isinstance(t, ast.Attribute) else None
                    if p is not None and self.src.method(v.func.id, '__init__') is not None:
                        out.append(self.method(v.func.id, '__init__', prefix + '.'.join(p) + '.', stack))
            return seq(out)
        if isinstance(st, ast.AnnAssign):
            return seq(([E(st.value)] if st.value else []) + [self.target(st.target, cls, recv, prefix, stack, lf)])
        if isinstance(st, ast.AugAssign):
            load = ast.copy_location(ast.fix_missing_locations(self._as_load(st.target)), st.target)
            return seq([E(load), E(st.value), self.target(st.target, cls, recv, prefix, stack, lf)])
        if isinstance(st, (ast.Return,)):
            if isinstance(st.value, ast.Name) and st.value.id == recv:
                return ('skip',)        # `return self`: handing the object back to the caller touches no attribute
            return E(st.value) if st.value is not None else ('skip',)
        if isinstance(st, ast.Raise):
            return E(st.exc) if st.exc is not None else ('skip',)
        if isinstance(st, ast.For):
            body = seq([self.target(st.target, cls, recv, prefix, stack, lf), B(st.body)])
            return seq([E(st.iter), ('loop', body), B(st.orelse)])
        if isinstance(st, ast.While):
            return seq([E(st.test), ('loop', seq([B(st.body), E(st.test)])), B(st.orelse)])
        if isinstance(st, ast.Try):
            body = B(st.body)
            handlers = [B(h.body) for h in st.handlers]
            alt = ('skip',)
            for h in handlers:
                alt = ('br', h, alt)
            ok = seq([body, B(st.orelse)])
            bad = seq([('br', body, ('skip',)), alt])     # the body may have been cut short: its writes are not certain
            return seq([('br', ok, bad), B(st.finalbody)])
        if isinstance(st, ast.With):
            items = []
            for it in st.items:
                items.append(E(it.context_expr))
                if it.optional_vars is not None:
                    items.append(self.target(it.optional_vars, cls, recv, prefix, stack, lf))
            return seq(items + [B(st.body)])
        if isinstance(st, ast.Delete):
            return seq([self.target(t, cls, recv, prefix, stack, lf) for t in st.targets])
        if isinstance(st, ast.Assert):
            return seq([E(st.test)] + ([E(st.msg)] if st.msg else []))
        if isinstance(st, (ast.Pass, ast.Break, ast.Continue, ast.Import, ast.ImportFrom, ast.Global, ast.Nonlocal)):
            return ('skip',)
        raise TranslationError(f'unsupported statement {type(st).__name__} in {cls}: {ast.unparse(st)[:80]}')

    @staticmethod
    def _as_load(t):
        import copy
        t2 = copy.deepcopy(t)
        for n in ast.walk(t2):
            if hasattr(n, 'ctx'):
                n.ctx = ast.Load()
        return t2

    # ------------------------------------------------------------------ attribute paths
    def path_of(self, e, recv):
        """e is an Attribute chain rooted at the receiver: returns ['a', 'b', ...] or None"""
        parts = []
        while isinstance(e, ast.Attribute):
            parts.append(e.attr)
            e = e.value
        if isinstance(e, ast.Name) and e.id == recv:
            return list(reversed(parts))
        return None

    def target(self, t, cls, recv, prefix, stack, lf):
        if isinstance(t, (ast.Tuple, ast.List)):
            return seq([self.target(x, cls, recv, prefix, stack, lf) for x in t.elts])
        if isinstance(t, ast.Starred):
            return self.target(t.value, cls, recv, prefix, stack, lf)
        if isinstance(t, ast.Name):
            if t.id == recv:
                raise TranslationError(f'receiver rebound in {cls}')
            return ('skip',)
        if isinstance(t, ast.Attribute):
            p = self.path_of(t, recv)
            if p is not None:
                reads = [('rd', prefix + '.'.join(p[:k])) for k in range(1, len(p))]
                return seq(reads + [('wr', prefix + '.'.join(p))])
            return self.expr(t.value, cls, recv, prefix, stack, lf)
        if isinstance(t, ast.Subscript):
            base = t.value
            p = self.path_of(base, recv) if isinstance(base, ast.Attribute) else None
            idx = self.expr(t.slice, cls, recv, prefix, stack, lf)
            if p is not None:       # self.a[k] = v  mutates the object held in a
                return seq([idx, ('rd', prefix + '.'.join(p)), ('wr', prefix + '.'.join(p))])
            return seq([idx, self.expr(base, cls, recv, prefix, stack, lf)])
        raise TranslationError(f'unsupported assignment target {ast.unparse(t)[:60]}')

    # ------------------------------------------------------------------ expressions
    def expr(self, e, cls, recv, prefix, stack, lf):
        if e is None:
            return ('skip',)
        E = lambda x: self.expr(x, cls, recv, prefix, stack, lf)
        if isinstance(e, ast.Name):
            if e.id == recv:
                raise TranslationError(f'receiver `{recv}` escapes as a bare value in {cls} ({stack[-1][1] if stack else "?"})')
            return ('skip',)
        if isinstance(e, ast.Constant):
            return ('skip',)
        if isinstance(e, ast.Attribute):
            p = self.path_of(e, recv)
            if p is not None:
                if p[0] in ('__dict__', '__class__') and p[0] == '__dict__':
                    raise TranslationError('__dict__ access on the receiver')
                # a bound method used as a value: it may be called later -> inline it as if it were
                if len(p) == 1 and self.src.method(cls, p[0]) is not None:
                    return self.method(cls, p[0], prefix, stack)
                return seq([('rd', prefix + '.'.join(p[:k])) for k in range(1, len(p) + 1)])
            return E(e.value)
        if isinstance(e, ast.Call):
            return self.call(e, cls, recv, prefix, stack, lf)
        if isinstance(e, ast.Lambda):
            return E(e.body)
        if isinstance(e, (ast.ListComp, ast.SetComp, ast.GeneratorExp)):
            gens = []
            for g in e.generators:
                gens.append(E(g.iter)); gens.extend(E(c) for c in g.ifs)
            return seq(gens + [('loop', E(e.elt))])
        if isinstance(e, ast.DictComp):
            gens = []
            for g in e.generators:
                gens.append(E(g.iter)); gens.extend(E(c) for c in g.ifs)
            return seq(gens + [('loop', seq([E(e.key), E(e.value)]))])
        if isinstance(e, ast.IfExp):
            return seq([E(e.test), ('br', E(e.body), E(e.orelse))])
        if isinstance(e, ast.BoolOp):
            # short circuit: later operands may not be evaluated
            out = [E(e.values[0])]
            for v in e.values[1:]:
                out.append(('br', E(v), ('skip',)))
            return seq(out)
        if isinstance(e, ast.JoinedStr):
            return seq([E(v) for v in e.values])
        if isinstance(e, ast.FormattedValue):
            return E(e.value)
        # generic: children in order
        return seq([E(c) for c in ast.iter_child_nodes(e) if isinstance(c, ast.expr)] +
                   [seq([E(x) for x in ast.iter_child_nodes(c) if isinstance(x, ast.expr)])
                    for c in ast.iter_child_nodes(e) if isinstance(c, (ast.keyword, ast.comprehension, ast.Slice))])

    def call(self, e, cls, recv, prefix, stack, lf):
        E = lambda x: self.expr(x, cls, recv, prefix, stack, lf)
        f = e.func
        args = []
        for a in e.args:
            if isinstance(a, ast.Name) and a.id == recv:
                if isinstance(f, ast.Name) and f.id in SAFE_SELF_ARGS:
                    continue
                if isinstance(f, ast.Name) and f.id in ('hasattr', 'getattr', 'setattr', 'delattr'):
                    continue
                raise TranslationError(f'receiver passed as an argument to {ast.unparse(f)[:40]} in {cls}')
            args.append(E(a.value if isinstance(a, ast.Starred) else a))
        for k in e.keywords:
            if isinstance(k.value, ast.Name) and k.value.id == recv:
                raise TranslationError(f'receiver passed as keyword argument in {cls}')
            args.append(E(k.value))
        A = seq(args)
        if isinstance(f, ast.Name):
            if f.id in ('hasattr', 'getattr', 'setattr', 'delattr') and e.args and isinstance(e.args[0], ast.Name) and e.args[0].id == recv:
                if len(e.args) < 2 or not (isinstance(e.args[1], ast.Constant) and isinstance(e.args[1].value, str)):
                    raise TranslationError(f'{f.id} on the receiver with a non-literal name in {cls}')
                nm = prefix + e.args[1].value
                return seq([A, ('wr', nm) if f.id in ('setattr', 'delattr') else ('rd', nm)])
            if f.id in ('vars',) and e.args and isinstance(e.args[0], ast.Name) and e.args[0].id == recv:
                raise TranslationError('vars(receiver)')
            if f.id in lf:          # nested closure capturing the receiver
                key = ('<local>', f.id + '@' + cls, prefix)
                if key in stack:
                    self.recursive.add(key)
                    return A
                body = self.block(lf[f.id].body, cls, recv, prefix, stack + [key], lf)
                if key in self.recursive:
                    body = seq([body, ('loop', body)])
                return seq([A, body])
            return A
        if isinstance(f, ast.Attribute):
            p = self.path_of(f, recv)
            if p is not None:
                if len(p) == 1:
                    if self.src.method(cls, p[0]) is not None:
                        return seq([A, self.method(cls, p[0], prefix, stack)])
                    # calling a callable stored in an attribute
                    return seq([A, ('rd', prefix + p[0])])
                owner, meth = p[:-1], p[-1]
                reads = [('rd', prefix + '.'.join(owner[:k])) for k in range(1, len(owner) + 1)]
                sub = SUBOBJECTS.get((cls, owner[0])) if len(owner) == 1 else None
                if sub:
                    alts = None
                    found = False
                    for c in sub:
                        if self.src.method(c, meth) is not None:
                            found = True
                            b = self.method(c, meth, prefix + owner[0] + '.', stack)
                            alts = b if alts is None else ('br', b, alts)
                    if found:
                        return seq([A] + reads + [alts])
                nm = prefix + '.'.join(owner)
                if meth in MUTATORS or meth.endswith('_'):
                    return seq([A] + reads + [('wr', nm)])
                return seq([A] + reads)
            # super().__init__() and friends
            if isinstance(f.value, ast.Call) and isinstance(f.value.func, ast.Name) and f.value.func.id == 'super':
                base = [b.id for b in self.src.classes[cls].bases if isinstance(b, ast.Name)]
                if base and self.src.method(base[0], f.attr) is not None:
                    return seq([A, self.method(base[0], f.attr, prefix, stack)])
                return A
            return seq([A, E(f.value)])
        return seq([A, E(f)])


# ---------------------------------------------------------------------- emission
def names_of(p, acc=None):
    acc = set() if acc is None else acc
    if p[0] in ('rd', 'wr'):
        acc.add(p[1])
    elif p[0] == 'seq':
        for q in p[1]:
            names_of(q, acc)
    elif p[0] == 'br':
        names_of(p[1], acc); names_of(p[2], acc)
    elif p[0] == 'loop':
        names_of(p[1], acc)
    return acc


def writes_of(p, acc=None):
    acc = set() if acc is None else acc
    if p[0] == 'wr':
        acc.add(p[1])
    elif p[0] == 'seq':
        for q in p[1]:
            writes_of(q, acc)
    elif p[0] == 'br':
        writes_of(p[1], acc); writes_of(p[2], acc)
    elif p[0] == 'loop':
        writes_of(p[1], acc)
    return acc


def reads_of(p, acc=None):
    acc = set() if acc is None else acc
    if p[0] == 'rd':
        acc.add(p[1])
    elif p[0] == 'seq':
        for q in p[1]:
            reads_of(q, acc)
    elif p[0] == 'br':
        reads_of(p[1], acc); reads_of(p[2], acc)
    elif p[0] == 'loop':
        reads_of(p[1], acc)
    return acc


def size_of(p):
    if p[0] in ('rd', 'wr', 'skip'):
        return 1
    if p[0] == 'seq':
        return 1 + sum(size_of(q) for q in p[1])
    if p[0] == 'br':
        return 1 + size_of(p[1]) + size_of(p[2])
    return 1 + size_of(p[1])


def simplify(p):
    """drop structure that carries no event (keeps the analysis result, shrinks the Coq term)"""
    if p[0] == 'seq':
        return seq([simplify(q) for q in p[1]])
    if p[0] == 'br':
        a, b = simplify(p[1]), simplify(p[2])
        if a[0] == 'skip' and b[0] == 'skip':
            return ('skip',)
        return ('br', a, b)
    if p[0] == 'loop':
        a = simplify(p[1])
        return ('skip',) if a[0] == 'skip' else ('loop', a)
    return p


def coq_prog(p, ids):
    if p[0] == 'skip':
        return 'Skip'
    if p[0] == 'rd':
        return f'(Rd {ids[p[1]]})'
    if p[0] == 'wr':
        return f'(Wr {ids[p[1]]})'
    if p[0] == 'br':
        return f'(Br {coq_prog(p[1], ids)} {coq_prog(p[2], ids)})'
    if p[0] == 'loop':
        return f'(Loop {coq_prog(p[1], ids)})'
    return '(seqs [' + '; '.join(coq_prog(q, ids) for q in p[1]) + '])'
