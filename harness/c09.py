"""C09 — Soft routing computes the documented leaf mixture."""
import json, itertools, math
from fractions import Fraction
import numpy as np
import torch
import mpmath as mp
from harness.common import *
from harness import oracle as orc

QHEADER = '''From Coq Require Import QArith List Bool ZArith Arith.
Require Import XV.Model.Tree XV.Model.Soft.
Import ListNotations. Open Scope Q_scope.
Fixpoint gpath_eqb (a b : gpath) : bool :=
  match a, b with
  | [], [] => true
  | (i, x) :: a', (j, y) :: b' => Nat.eqb i j && Bool.eqb x y && gpath_eqb a' b'
  | _, _ => false
  end.
Fixpoint table_eqb (a b : list (nat * gpath)) : bool :=
  match a, b with
  | [], [] => true
  | (i, p) :: a', (j, q) :: b' => Nat.eqb i j && gpath_eqb p q && table_eqb a' b'
  | _, _ => false
  end.
Fixpoint nodes_eqb (a b : list (nat * (list Q * Q))) : bool :=
  match a, b with
  | [], [] => true
  | (i, (v, t)) :: a', (j, (v', t')) :: b' => Nat.eqb i j && Qlist_eqb v v' && Qeq_bool t t' && nodes_eqb a' b'
  | _, _ => false
  end.
Definition cache_eqb (T : tree nat) (tbl : list (nat * gpath)) (nds : list (nat * (list Q * Q))) : bool :=
  match build_cache T with Some (t, n) => table_eqb t tbl && nodes_eqb n nds && table_eqb (paths T) tbl | None => false end.
'''

RHEADER = '''From Coq Require Import Reals List Bool Arith.
From Interval Require Import Tactic.
Require Import XV.Model.Tree XV.Model.Soft XV.Real.SoftReal.
Import ListNotations. Open Scope R_scope.
'''


class Probe:
    """leaf stub: records the rows it is asked about and returns a fixed row-wise function"""
    def __init__(self, k, nleaves, mode):
        self.k, self.n, self.mode = k, nleaves, mode
        self.seen = []

    def _out(self, X):
        self.seen.append(X.detach().clone())
        if self.mode == 'onehot':
            o = torch.zeros(X.shape[0], self.n)
            o[:, self.k] = 1.0
            return o
        if self.mode == 'vec':
            return torch.stack([torch.full((X.shape[0],), float(self.k)), X[:, 0]], dim=1)
        return torch.full((X.shape[0], 1), float(3 * self.k - 2))          # 'scalar' (2-D with one column)

    def predict(self, X):
        return self._out(X)

    def predict_proba(self, X):
        return self._out(X)


def all_shapes(depth):
    """all binary tree shapes of depth <= depth, as nested tuples: 'L' | (left, right)"""
    if depth == 0:
        return ['L']
    sub = all_shapes(depth - 1)
    return ['L'] + [(a, b) for a in sub for b in sub]


def build_tree(shape, rng, d, scales=True):
    if shape == 'L':
        return {'type': 'leaf', 'model': None, 'train_indices': torch.tensor([0]), 'is_root': False}
    v = np.round(rng.standard_normal(d) * 4) / 4
    if not np.any(v):
        v[0] = 1.0
    node = {'type': 'split', 'split_direction': torch.tensor(v, dtype=torch.float32),
            'split_point': torch.tensor(float(np.round(rng.standard_normal() * 4) / 8), dtype=torch.float32),
            'left': build_tree(shape[0], rng, d, scales), 'right': build_tree(shape[1], rng, d, scales), 'is_root': False}
    if scales:
        node['adaptive_temp_scaling'] = float(rng.choice([0.5, 1.0, 2.0, 0.75, 3.0]))
    return node


def node_table(tree):
    """preorder list of split nodes"""
    out = []
    def rec(n):
        if n['type'] == 'leaf':
            return
        out.append(n)
        rec(n['left']); rec(n['right'])
    rec(tree)
    return out


def ref_paths(tree):
    """structural reference (written from the statement): preorder node ids, leaves left to right"""
    res = []
    cnt = [0]
    def rec(n, path):
        if n['type'] == 'leaf':
            res.append(list(path)); return
        j = cnt[0]; cnt[0] += 1
        rec(n['left'], path + [(j, True)])
        rec(n['right'], path + [(j, False)])
    rec(tree, [])
    return res


def coq_gpath(p):
    return coq_list([f'({coq_nat(j)}, {coq_bool(l)})' for j, l in p])


def mp_weights(tree, x, T):
    nodes = node_table(tree)
    zs = []
    for nd in nodes:
        v = orc.frow(nd['split_direction']); b = orc.F(nd['split_point'])
        p = sum((a * c for a, c in zip([Fraction(float(t)) for t in x], v)), Fraction(0))
        s = Fraction(nd.get('adaptive_temp_scaling', 1.0))
        zs.append((p - b) / (Fraction(T) * s))
    ws = []
    for path in ref_paths(tree):
        w = mp.mpf(1)
        for j, left in path:
            z = mp.mpf(zs[j].numerator) / mp.mpf(zs[j].denominator)
            w *= 1 / (1 + mp.e ** (z if left else -z))
        ws.append(w)
    return ws, zs


# numeric representations in which a caller can hand over one and the same positive temperature (the statement speaks of "a positive split temperature T":
# the number counts, not the type it is written in); the float ones double as controls for the integer ones
TEMP_REPS = [('int', int, True), ('numpy.int64', np.int64, True), ('numpy.int32', np.int32, True), ('numpy.uint8', np.uint8, True),
             ('float', float, False), ('numpy.float64', np.float64, False), ('numpy.float32', np.float32, False)]


def temp_exact(T):
    """exact rational value of a temperature given in any of the numeric representations"""
    return Fraction(int(T)) if isinstance(T, (int, np.integer)) and not isinstance(T, bool) else Fraction(float(T))


def ref_mixtures(ws, keep, cap, band=4e-6):
    """the statement's truncation of the (oracle) weights `ws`: the smallest top-weighted set whose mass reaches `keep`, at most `cap` leaves, renormalised.
    Returns the list of acceptable weight vectors (more than one when a cumulative mass lies within `band` of `keep`: accepted either way) or None when the
    cut falls between two (nearly) equal weights (which leaf is kept is then a tie)."""
    w = np.array([float(x) for x in ws], dtype=np.float64)
    nl = len(w)
    order = np.argsort(-w, kind='stable')
    cum = np.cumsum(w[order])
    mx = max(min(cap, nl) - 1, 0)
    k_lo = min(int(np.sum(cum < keep - band)), mx) + 1
    k_hi = min(int(np.sum(cum < keep + band)), mx) + 1
    res = []
    for m in range(k_lo, k_hi + 1):
        if m < nl and abs(w[order[m - 1]] - w[order[m]]) < band:
            return None
        out = np.zeros(nl)
        out[order[:m]] = w[order[:m]] / w[order[:m]].sum()
        res.append(out)
    return res


def set_nonround_scales(tree, rng):
    """gate scales as fitted trees have them (an inter-quartile range: not a whole number, not dyadic, below and above one), so that T * scale is neither
    integral nor exactly representable for any integral T; the pattern does not depend on the seed, only the jitter does"""
    base = [0.37, 3.7, 0.85, 1.6, 2.45, 0.12, 5.2]
    for j, nd in enumerate(node_table(tree)):
        nd['adaptive_temp_scaling'] = float(base[j % len(base)] * (1.0 + 0.1 * rng.random()))


def temperature_representations(ck, xr, fitted_pool):
    """the documented mixture for ONE positive temperature, whatever numeric type it is written in (Python int, numpy integer / floating scalars, float), set through
    the constructor or by assignment, on synthetic trees with non-round node scales (one-hot probes: the output IS the weight vector) and on fitted trees (real leaf
    models, scales = inter-quartile ranges); oracle: mpmath weights at the exact rational value of T, truncation of the statement with ties accepted either way"""
    trng = np.random.default_rng(ck.seed + 919)
    d = 2
    pool = []
    for sh in [('L', 'L'), (('L', 'L'), 'L'), ((('L', 'L'), ('L', 'L')), (('L', 'L'), ('L', 'L'))), ('L', (('L', ('L', 'L')), ('L', 'L')))][: ck.n(4, 4)]:
        t = build_tree(sh, trng, d)
        set_nonround_scales(t, trng)
        leaves = orc.tree_leaves(t)
        for k, lf in enumerate(leaves):
            lf['model'] = Probe(k, len(leaves), 'onehot')
        pool.append(('synthetic ' + str(sh).replace("'", ''), t))
    for t in fitted_pool[: ck.n(2, 4)]:
        if t['type'] != 'leaf':
            t.pop('_cache', None)
            pool.append(('fitted', t))
    int_vals = [1, 2, 3, 7]; frac_vals = [0.3, 2.5, 0.05]
    for ti, (label, tree) in enumerate(pool):
        leaves = orc.tree_leaves(tree); nl = len(leaves)
        nrows = 4
        Xb = np.round(trng.standard_normal((nrows, d)) * 8).astype(np.float32) / 8
        Xt = torch.tensor(Xb)
        with xr.quiet():
            outs = [np.asarray(torch.as_tensor(lf['model'].predict(Xt)).detach(), dtype=np.float64).reshape(nrows, -1) for lf in leaves]
        for lf in leaves:
            if isinstance(lf['model'], Probe):
                lf['model'].seen = []
        scales = [float(nd.get('adaptive_temp_scaling', 1.0)) for nd in node_table(tree)]
        oracle = {}
        shared = xr.xRFM(verbose=False, split_temperature=0.9, keep_weight_frac_in_predict=1.0, max_leaf_count_in_ensemble=nl + 1)
        shared.trees = [tree]; shared.n_classes_ = 0
        with xr.quiet():
            shared.predict(Xt)          # the tree cache exists and another temperature has been in use when T is assigned below
        for ri, (rname, rtype, integral) in enumerate(TEMP_REPS):
            vals = [int_vals[(ti + ri) % 4], int_vals[(ti + ri + 1 + ri % 2) % 4] if integral else frac_vals[(ti + ri) % 3]]
            for vi, val in enumerate(vals):
                T = rtype(val)
                Tq = temp_exact(T)
                how = ['constructor', 'assignment'][(ti + ri + vi) % 2]
                if Tq not in oracle:
                    oracle[Tq] = [mp_weights(tree, Xb[r], Tq)[0] for r in range(nrows)]
                for (keep, cap) in [(1.0, nl + 1), ([0.9, 0.6, 0.99][(ti + vi) % 3], [max(1, nl - 1), 2, 12][(ti + ri) % 3])][: 1 + (ri + vi + 1) % 2]:
                    desc = dict(kind='temperature-representation', tree=label, type=rname, T=repr(T), value=float(Tq), how=how, keep=keep, cap=cap,
                                node_scales=scales, rows=Xb.tolist())
                    ck.case(desc, nontrivial=True, sample=(ti == 2 and ri == 0 and vi == 0 and keep == 1.0))
                    ck.count(f'temperature given as {rname}'); ck.count(f'temperature set by {how}')
                    ck.count('T*scale below one at some node' if any(Tq * Fraction(s) < 1 for s in scales) else 'T*scale at least one at every node')
                    key = json.dumps(dict(site='temperature-representation', type=rname))
                    try:
                        with xr.quiet():
                            if how == 'constructor':
                                m = xr.xRFM(verbose=False, split_temperature=T, keep_weight_frac_in_predict=keep, max_leaf_count_in_ensemble=cap)
                                m.trees = [tree]; m.n_classes_ = 0
                            else:
                                m = shared
                                m.split_temperature = T; m.keep_weight_frac_in_predict = keep; m.max_leaf_count_in_ensemble = cap
                            got = np.asarray(m.predict(Xt), dtype=np.float64).reshape(nrows, -1)
                    except Exception as e:
                        ck.violation(f'soft routing with the positive temperature {T!r} (type {rname}, set by {how}) raised {e!r} on a {label} tree with node scales '
                                     f'{[round(s, 4) for s in scales]} (row {Xb[0].tolist()}, keep={keep}, cap={cap}); the same value as a float is {float(Tq)}',
                                     dict(desc, error=repr(e)), key=key)
                        continue
                    for r in range(nrows):
                        cands = ref_mixtures(oracle[Tq][r], keep, cap)
                        if cands is None:
                            ck.skip('temperature-representation rows with a tied cut-off'); continue
                        wants = [sum(c[k] * outs[k][r] for k in range(nl)) for c in cands]
                        scale_out = 1.0 + max(float(np.max(np.abs(o[r]))) for o in outs)
                        tol = (1e-5 + 4e-5 * np.abs(wants[0])) if isinstance(leaves[0]['model'], Probe) else 1e-4 * scale_out
                        dev = [float(np.max(np.abs(got[r] - w_) - tol)) if np.all(np.isfinite(got[r])) else float('inf') for w_ in wants]
                        if min(dev) > 0:
                            best = wants[int(np.argmin(dev))]
                            ck.violation(f'split_temperature={T!r} (type {rname}, set by {how}): soft prediction {got[r].round(6).tolist()} of row {Xb[r].tolist()} on a {label} tree '
                                         f'(node scales {[round(s, 4) for s in scales]}, keep={keep}, cap={cap}) is not the documented mixture {np.asarray(best).round(6).tolist()} '
                                         f'for T={float(Tq)} (gate logits (v.x - b)/(T*scale))',
                                         dict(desc, row=Xb[r].tolist(), got=got[r].tolist(), want=np.asarray(best).tolist()), key=key)
                            break
        tree.pop('_cache', None)
    # a model CONFIGURED with an integer-typed temperature and fitted (no tuning): its own predict on the fitted tree, default keep fraction and leaf cap
    frng = np.random.default_rng(ck.seed + 929)
    for i in range(ck.n(2, 4)):
        n = int(frng.integers(100, 180))
        X = xr.make_X('random', n, d, frng); y = xr.make_y('reg', X, frng)
        Xv = xr.make_X('random', 30, d, frng); yv = xr.make_y('reg', Xv, frng)
        rname, rtype, _ = TEMP_REPS[i % 4]
        T = rtype([1, 2, 3, 1][i % 4])
        xr.seed_all(930 + i)
        try:
            with xr.quiet():
                fm = xr.xRFM(rfm_params=xr.default_rfm_params(iters=0, reg=1e-2), max_leaf_size=int(frng.integers(20, 40)), verbose=False,
                             use_temperature_tuning=False, split_temperature=T)
                fm.fit(torch.tensor(X), torch.tensor(y), torch.tensor(Xv), torch.tensor(yv))
                tree = fm.trees[0]
                Xq = np.round(frng.standard_normal((5, d)) * 8).astype(np.float32) / 8
                Tfit = fm.split_temperature
                got = np.asarray(fm.predict(torch.tensor(Xq)), dtype=np.float64).reshape(len(Xq), -1)
        except Exception as e:
            ck.violation(f'a model configured with split_temperature={T!r} (type {rname}, tuning off) raised {e!r} in fit/predict (n={n})',
                         dict(kind='fitted-with-typed-temperature', type=rname, T=repr(T), n=n, error=repr(e)), key=json.dumps(dict(site='fitted-typed-temperature', type=rname)))
            continue
        ck.case(dict(kind='fitted-with-typed-temperature', type=rname, T=repr(T), n=n), nontrivial=tree['type'] != 'leaf'); ck.count(f'fitted with a temperature given as {rname}')
        if tree['type'] == 'leaf' or not Tfit:
            continue
        leaves = orc.tree_leaves(tree); nl = len(leaves)
        with xr.quiet():
            outs = [np.asarray(lf['model'].predict(torch.tensor(Xq)), dtype=np.float64).reshape(len(Xq), -1) for lf in leaves]
        scales = [float(nd.get('adaptive_temp_scaling', 1.0)) for nd in node_table(tree)]
        for r in range(len(Xq)):
            cands = ref_mixtures(mp_weights(tree, Xq[r], temp_exact(Tfit))[0], fm.keep_weight_frac_in_predict, fm.max_leaf_count_in_ensemble)
            if cands is None:
                ck.skip('temperature-representation rows with a tied cut-off'); continue
            wants = [sum(c[k] * outs[k][r] for k in range(nl)) for c in cands]
            tol = 1e-4 * (1.0 + max(float(np.max(np.abs(o[r]))) for o in outs))
            if not np.all(np.isfinite(got[r])) or min(float(np.max(np.abs(got[r] - w_))) for w_ in wants) > tol:
                ck.violation(f'model fitted with split_temperature={T!r} (type {rname}; after fit {Tfit!r}): prediction {got[r].round(6).tolist()} of row {Xq[r].tolist()} is not the documented '
                             f'mixture {np.asarray(wants[0]).round(6).tolist()} of its {nl} leaves (node scales {[round(s, 4) for s in scales]}, keep={fm.keep_weight_frac_in_predict}, '
                             f'cap={fm.max_leaf_count_in_ensemble})', dict(kind='fitted-with-typed-temperature', type=rname, T=repr(T), n=n, seed_all=930 + i, row=Xq[r].tolist(),
                                                                         got=got[r].tolist(), want=np.asarray(wants[0]).tolist(), node_scales=scales),
                             key=json.dumps(dict(site='fitted-typed-temperature', type=rname)))
                break


def run(ck):
    from harness import xr
    ck.rule = ('synthetic trees of every shape up to depth 3/4 (balanced and ragged, node scales != 1) and fitted trees; '
               '(a) real _build_tree_cache vs Coq build_cache/paths (exact); (b) one-hot probe leaves expose the weight matrix through the public '
               'predict: untruncated weights vs the real-valued model by `interval` lemmas; (c) truncated outputs vs the rational relation trunc_okb; '
               '(d) which leaf is invoked on which rows; (e) vector / scalar outputs, predict and predict_proba, aggregate in Q; (f) T -> 0 bound. '
               '(g) one positive temperature written as Python int / numpy integer / numpy floating / float, set by constructor or assignment, on trees with non-round node scales and on fitted trees: mpmath mixture at the exact value of T. '
               'non-trivial = tree with >= 2 splits; distinct by hash of tree + rows + (T, keep, cap)')
    ck.trusted += ['Coq 8.16.1 kernel + vm_compute', 'Interval 4.6.1 (`interval` tactic)', 'probe leaves (harness)', 'mpmath oracle of the documented weights']
    ck.assumptions += ['float32 weights are compared with the real-valued model within 5e-6 + 2e-5*w',
                       'cut-off comparisons within 4e-6 of the keep fraction are accepted either way (as the property states)']
    ck.check_theorems()
    from harness import softops
    softops.check_translation(ck)
    rng = np.random.default_rng(ck.seed + 909)
    d = 2
    # ---------------- (a) cache ----------------
    shapes = all_shapes(3) if ck.tier == 'quick' else all_shapes(4)
    if ck.tier == 'quick':
        s4 = all_shapes(4); shapes = shapes + [s4[k] for k in rng.choice(len(s4), 60, replace=False)]
    model = xr.xRFM(verbose=False, split_temperature=1.0)
    cases = []
    trees = []
    for si, sh in enumerate(shapes):
        tree = build_tree(sh, rng, d)
        leaves = orc.tree_leaves(tree)
        for k, lf in enumerate(leaves):
            lf['model'] = k
        cache = model._build_tree_cache(tree)
        obs_tbl = [(int(cache['leaf_models'][lid]), [(int(j), bool(l)) for j, l in cache['leaf_paths'][lid]]) for lid in cache['leaf_order']]
        obs_nodes = [(int(j), cache['split_directions'][j].tolist(), float(cache['split_thresholds'][j])) for j in sorted(cache['split_directions'])]
        ref = ref_paths(tree)
        ck.case(dict(kind='cache', shape=str(sh)), nontrivial=len(ref) >= 3, sample=(si == 7))
        ck.count(f'cache depth={orc.tree_depth(tree)}')
        if [p for _, p in obs_tbl] != ref or [m for m, _ in obs_tbl] != list(range(len(ref))):
            ck.violation(f'_build_tree_cache: leaf paths/order differ from the preorder / left-to-right table for shape {sh}',
                         dict(shape=str(sh), observed=str(obs_tbl), reference=str(ref)), key='cache-table')
        nt = node_table(tree)
        if [(j, n['split_direction'].tolist(), float(n['split_point'])) for j, n in enumerate(nt)] != obs_nodes:
            ck.violation(f'_build_tree_cache: split node numbering is not preorder for shape {sh}', dict(shape=str(sh)), key='cache-nodes')
        if any(cache['split_temp_scalings'][j] != nt[j].get('adaptive_temp_scaling', 1.0) for j in range(len(nt))):
            ck.violation(f'_build_tree_cache: node scale table wrong for shape {sh}', dict(shape=str(sh)), key='cache-scales')
        lids = orc.assign_leaf_ids(tree)
        tcoq = orc.coq_tree(tree, lids)
        tbl = coq_list([f'({coq_nat(m)}, {coq_gpath(p)})' for m, p in obs_tbl])
        nds = coq_list([f'({coq_nat(j)}, ({coq_Qlist(v)}, {coq_Q(b)}))' for j, v, b in obs_nodes])
        cases.append((si, f'cache_eqb {tcoq} {tbl} {nds}'))
        if len(ref) >= 2:
            trees.append(tree)
    res = ck.run_bool_cases('cache', QHEADER, cases, shard=120)
    bad = [k for k, v in res.items() if v is not True]
    ck.obligation(f'correspondence: real _build_tree_cache == Coq build_cache == paths on {len(cases)} tree shapes', 'correspondence', not bad,
                  f'first mismatching shape indices {bad[:5]}')

    # fitted trees join the pool
    fitted_pool = []
    for i in range(ck.n(2, 8)):
        n = int(rng.integers(80, 200))
        X = xr.make_X('random', n, d, rng); y = xr.make_y('reg', X, rng)
        Xv = xr.make_X('random', 30, d, rng); yv = xr.make_y('reg', Xv, rng)
        xr.seed_all(900 + i)
        fm = xr.xRFM(rfm_params=xr.default_rfm_params(iters=0, reg=1e-2), max_leaf_size=int(rng.integers(12, 30)), verbose=False,
                     use_temperature_tuning=False, split_method='random_pca')
        with xr.quiet():
            fm.fit(torch.tensor(X), torch.tensor(y), torch.tensor(Xv), torch.tensor(yv))
        t = fm.trees[0]; t.pop('_cache', None)
        trees.append(t)
        fitted_pool.append(t)
        ck.count('fitted trees in the pool')

    # ensembles: the configured number of leaves caps EACH tree's mixture (the statement is per tree) — an ensemble of two trees predicts the mean of what each tree predicts alone
    erng = np.random.default_rng(ck.seed + 909)
    for i in range(ck.n(2, 6)):
        ne = 200; Xe_ = xr.make_X('random', ne, d, erng); ye_ = xr.make_y('reg', Xe_, erng); Xve = xr.make_X('random', 40, d, erng); yve = xr.make_y('reg', Xve, erng)
        xr.seed_all(990 + i)
        capE = [12, 9][i % 2]
        fe = xr.xRFM(rfm_params=xr.default_rfm_params(iters=0, reg=1e-2), max_leaf_size=14, n_trees=2, verbose=False, use_temperature_tuning=False, split_method='random_pca',
                     split_temperature=[3.0, 8.0][i % 2], keep_weight_frac_in_predict=0.99, max_leaf_count_in_ensemble=capE, refill_size=5)
        with xr.quiet():
            fe.fit(torch.tensor(Xe_), torch.tensor(ye_), torch.tensor(Xve), torch.tensor(yve))
            Qe = torch.tensor(xr.make_X('random', 12, d, erng))
            got_e = np.asarray(fe.predict(Qe), dtype=np.float64)
            singles = []
            all_trees = fe.trees
            for t_ in all_trees:
                fe.trees = [t_]; singles.append(np.asarray(fe.predict(Qe), dtype=np.float64))
            fe.trees = all_trees
        ck.case(dict(kind='soft ensemble', i=i, trees=len(all_trees), cap=capE), nontrivial=len(all_trees) >= 2); ck.count(f'soft ensemble of {len(all_trees)} trees')
        if len(all_trees) >= 2:
            want_e = np.mean(singles, axis=0); dev_e = float(np.max(np.abs(got_e - want_e)))
            if dev_e > 1e-5 * (1 + float(np.abs(want_e).max())):
                r = int(np.argmax(np.abs(got_e - want_e).reshape(len(Qe), -1).max(1)))
                ck.violation(f'soft prediction of a {len(all_trees)}-tree ensemble (leaf cap {capE}, keep 0.99, T={fe.split_temperature}) differs by {dev_e:.3g} from the mean of the trees\' own soft predictions '
                             f'under the same cap (row {Qe[r].tolist()}: ensemble {got_e[r].tolist()}, mean of trees {want_e[r].tolist()})', dict(kind='soft ensemble', i=i, cap=capE, dev=dev_e, row=Qe[r].tolist()),
                             key=json.dumps(dict(site='soft-ensemble')))

    # a tree that never split, queried with a positive temperature: the mixture over one leaf is that leaf (all weight, nothing truncated)
    for i in range(2):
        n = 40
        X = xr.make_X('random', n, d, rng); y = xr.make_y(['reg', 'class'][i], X, rng)
        Xv = xr.make_X('random', 15, d, rng); yv = xr.make_y(['reg', 'class'][i], Xv, rng)
        xr.seed_all(950 + i)
        fm = xr.xRFM(rfm_params=xr.default_rfm_params(iters=1, reg=1e-2), max_leaf_size=1000, verbose=False, use_temperature_tuning=False,
                     split_temperature=0.7, keep_weight_frac_in_predict=[0.99, 0.3][i], max_leaf_count_in_ensemble=[12, 1][i])
        with xr.quiet():
            fm.fit(torch.tensor(X), torch.tensor(y), torch.tensor(Xv), torch.tensor(yv))
            Qs = torch.tensor(xr.make_X('random', 6, d, rng))
            leaf = fm.trees[0]['model']
            got = np.asarray(fm.predict_proba(Qs) if i else fm.predict(Qs), dtype=np.float64).reshape(6, -1)
            want = np.asarray(leaf.predict_proba(Qs) if i else leaf.predict(Qs), dtype=np.float64).reshape(6, -1)
        ck.case(dict(kind='single-leaf-soft', task=i), nontrivial=False); ck.count('single-leaf tree with a positive temperature')
        if fm.trees[0]['type'] != 'leaf' or np.max(np.abs(got - want)) > 1e-6:
            ck.violation(f'single-leaf tree queried with split_temperature=0.7 returns {got[0].tolist()}, its only leaf predicts {want[0].tolist()}',
                         dict(task=i, got=got.tolist(), want=want.tolist()), key=json.dumps(dict(site='single-leaf-soft')))

    # a discrete table under soft routing: three distinct rows duplicated far beyond the leaf size, so deep nodes hold copies of ONE row (all projections equal: zero
    # inter-quartile range, gate scale at its floor) and the query rows lie exactly on the split hyperplanes; the mixture must be finite, on the simplex, and equal to
    # sum_l w_l f_l(x) with w from the statement (mpmath, the node scales as stored)
    for i in range(ck.n(2, 6)):
        n = int(rng.integers(90, 160))
        base = np.round(xr.make_X('random', 3, d, rng) * 2) / 2
        X = base[rng.integers(0, 3, size=n)].astype(np.float32); X[:3] = base
        y = xr.make_y('reg', X, rng); Xv = X[:30].copy(); yv = y[:30].copy()
        Tq = [0.5, 2.0][i % 2]
        xr.seed_all(970 + i)
        # one dyadic split direction for every node: projections of the (dyadic) rows are exact in float32, so "on the hyperplane" means a logit of exactly 0 for
        # the code and for the exact oracle alike (with a learned direction the float32 rounding of x.v is amplified by 1/(T * 1e-6) at such nodes)
        fv = np.zeros(d, dtype=np.float32); fv[0] = 1.0; fv[-1] = 0.5
        fm = xr.xRFM(rfm_params=xr.default_rfm_params(iters=0, reg=1e-2), max_leaf_size=max(8, n // 8), verbose=False, use_temperature_tuning=False,
                     split_temperature=Tq, keep_weight_frac_in_predict=1.0, max_leaf_count_in_ensemble=64, refill_size=10,
                     split_method='fixed_vector', fixed_vector=torch.tensor(fv))
        try:
            with xr.quiet():
                fm.fit(torch.tensor(X), torch.tensor(y), torch.tensor(Xv), torch.tensor(yv))
                far = base[:1].copy(); far[0, -1] = 1e4
                Qd = np.concatenate([base, far]).astype(np.float32)
                got = np.asarray(fm.predict(torch.tensor(Qd)), dtype=np.float64).reshape(len(Qd), -1)
        except Exception as e:
            ck.violation(f'soft routing on a discrete table raised {e!r}', dict(n=n, T=Tq), key=json.dumps(dict(site='discrete-soft'))); continue
        tree = fm.trees[0]
        ck.case(dict(kind='discrete-soft', n=n, T=Tq, leaves=len(orc.tree_leaves(tree))), nontrivial=True); ck.count('discrete table under soft routing')
        if tree['type'] == 'leaf':
            continue
        leaves = orc.tree_leaves(tree)
        with xr.quiet():
            outs = [np.asarray(l['model'].predict(torch.tensor(Qd)), dtype=np.float64).reshape(len(Qd), -1) for l in leaves]
        bad_scale = [float(nd.get('adaptive_temp_scaling', 1.0)) for nd in node_table(tree) if not float(nd.get('adaptive_temp_scaling', 1.0)) > 0]
        if bad_scale:
            ck.violation(f'a split node of a tree fitted on a discrete table stores the gate scale {bad_scale[0]} (not positive): its logits are 0/0 or +-inf for every row; '
                         f'prediction of the training row {Qd[0].tolist()} is {got[0].tolist()} (T={Tq})', dict(scale=bad_scale[0], T=Tq, got=got.tolist()), key=json.dumps(dict(site='discrete-soft')))
            continue
        for r in range(len(Qd)):
            ws, _ = mp_weights(tree, Qd[r], Tq)
            tot = sum(ws)
            want = sum(float(w / tot) * outs[k][r] for k, w in enumerate(ws))
            lo = min(o[r].min() for o in outs); hi = max(o[r].max() for o in outs)
            if not np.all(np.isfinite(got[r])) or np.max(np.abs(got[r] - want)) > 1e-4 * (1 + np.max(np.abs(want))) or got[r].min() < lo - 1e-5 or got[r].max() > hi + 1e-5:
                ck.violation(f'soft prediction {got[r].tolist()} of row {Qd[r].tolist()} on a discrete table is not the documented mixture {np.asarray(want).tolist()} '
                             f'(leaf outputs span [{lo}, {hi}]; T={Tq})', dict(row=Qd[r].tolist(), got=got[r].tolist(), want=np.asarray(want).tolist(), T=Tq),
                             key=json.dumps(dict(site='discrete-soft')))
                break

    # the same positive temperature in every numeric representation (own random stream: the regimes below see the numbers they saw before)
    temperature_representations(ck, xr, fitted_pool)

    # ---------------- (b)-(f) weights, truncation, aggregation ----------------
    pick = list(range(len(trees)))
    rng.shuffle(pick)
    pick = pick[: ck.n(14, 90)]
    lemmas = []; lmeta = {}
    qcases = []; qmeta = {}
    lid = 0
    for ti in pick:
        tree = trees[ti]
        tree.pop('_cache', None)
        leaves = orc.tree_leaves(tree)
        nl = len(leaves)
        paths = ref_paths(tree)
        nrows = 5
        Xb = np.round(rng.standard_normal((nrows, d)) * 8).astype(np.float32) / 8
        Xt = torch.tensor(Xb)
        T = float(rng.choice([0.01, 0.05, 0.3, 1.0, 3.0, 30.0, 100.0]))
        ck.count(f'T={T}'); ck.count(f'leaves={min(nl, 9)}')
        m = xr.xRFM(verbose=False, split_temperature=T, keep_weight_frac_in_predict=1.0, max_leaf_count_in_ensemble=nl + 1)
        m.trees = [tree]; m.n_classes_ = 0
        for k, lf in enumerate(leaves):
            lf['model'] = Probe(k, nl, 'onehot')
        tree.pop('_cache', None)
        if ti % 2 == 1 and nl >= 3:
            # history: the same estimator has already soft-routed a SMALLER tree (2 leaves) — an ensemble member or an earlier fit; its configuration (cap, keep
            # fraction, temperature) is the caller's and applies unchanged to the bigger tree
            small = build_tree(('L', 'L'), rng, d)
            for k, lf in enumerate(orc.tree_leaves(small)):
                lf['model'] = Probe(k, 2, 'onehot')
            m.trees = [small]
            m.predict(Xt)
            m.trees = [tree]
            ck.count('estimator soft-routed a 2-leaf tree before')
        Wfull = np.asarray(m.predict(Xt), dtype=np.float64)             # (rows, leaves): the untruncated weights
        desc = dict(tree=ti, T=T, rows=Xb.tolist(), depth=orc.tree_depth(tree), leaves=nl)
        ck.case(dict(desc, kind='weights'), nontrivial=nl >= 3, sample=(nl == 4))
        # oracle + interval lemmas
        for r in range(nrows):
            ws, zs = mp_weights(tree, Xb[r], T)
            for l in range(nl):
                tol = 5e-6 + 2e-5 * float(ws[l])
                if abs(float(ws[l]) - Wfull[r, l]) > tol:
                    ck.violation(f'soft weight of leaf {l} for row {Xb[r].tolist()} is {Wfull[r, l]}, documented softmax of log-sigmoid gates gives {float(ws[l])} '
                                 f'(T={T}, depth {desc["depth"]})', dict(desc, row=r, leaf=l, got=float(Wfull[r, l]), want=float(ws[l])),
                                 key=json.dumps(dict(site='weights', T=T)))
            # a few interval-certified entries per tree
            if r < 2:
                zdefs = coq_list([coq_R(float(z)) if Fraction(float(z)) == z else f'({z.numerator}/{z.denominator})%R' for z in zs])
                for l in ([int(np.argmax(Wfull[r]))] + [int(rng.integers(0, nl))]):
                    tol = 5e-6 + 2e-5 * Wfull[r, l]
                    txt = (f'Lemma w_{lid} : Rabs (path_prob (fun j => nth j {zdefs} 0) {coq_gpath(paths[l])} - {coq_R(Wfull[r, l])}) <= {coq_R(tol)}.\n'
                           f'Proof. cbv [path_prob fold_right gate glogit sigmoid fst snd nth]. interval with (i_prec 50). Qed.')
                    lemmas.append((lid, txt)); lmeta[lid] = dict(desc, row=r, leaf=l); lid += 1
        # the temperature is a public attribute: re-assign it on the SAME model (tree cache already built) and query again
        T2 = float([0.02, 0.7, 5.0][ti % 3]) if T != 0.7 else 2.0
        m.split_temperature = T2
        W2 = np.asarray(m.predict(Xt), dtype=np.float64)
        ck.case(dict(desc, kind='weights-after-reassigning-T', T2=T2), nontrivial=nl >= 3); ck.count('temperature re-assigned on the same model')
        for r in range(nrows):
            ws2, _ = mp_weights(tree, Xb[r], T2)
            for l in range(nl):
                if abs(float(ws2[l]) - W2[r, l]) > 5e-6 + 2e-5 * float(ws2[l]):
                    ck.violation(f'after re-assigning split_temperature {T} -> {T2} on the same model, the soft weight of leaf {l} for row {Xb[r].tolist()} is {W2[r, l]}, '
                                 f'the documented weights at {T2} give {float(ws2[l])}', dict(desc, T2=T2, row=r, leaf=l, got=float(W2[r, l]), want=float(ws2[l])),
                                 key=json.dumps(dict(site='weights-reassigned-T')))
                    break
        m.split_temperature = T
        # (c) truncation
        for (keep, cap) in [(0.99, 12), (float(rng.choice([0.3, 0.5, 0.8, 0.9, 1.0])), int(rng.integers(1, nl + 2))), (0.5, 1), (1.0, 1)]:
            for lf in leaves:
                lf['model'].seen = []
            m.keep_weight_frac_in_predict = keep; m.max_leaf_count_in_ensemble = cap
            Wt = np.asarray(m.predict(Xt), dtype=np.float64)
            ck.case(dict(desc, kind='truncate', keep=keep, cap=cap), nontrivial=nl >= 3)
            ck.count(f'cap={min(cap, 6)}')
            for r in range(nrows):
                w = Wfull[r]; out = Wt[r]
                order = np.argsort(-w, kind='stable')
                cum = np.cumsum(w[order])
                k_lo = int(np.sum(cum < keep - 4e-6)); k_hi = int(np.sum(cum < keep + 4e-6))
                mx = max(min(cap, nl) - 1, 0)
                k_lo, k_hi = min(k_lo, mx) + 1, min(k_hi, mx) + 1
                act = [l for l in range(nl) if out[l] > 0]
                probs = []
                if not (k_lo <= len(act) <= k_hi):
                    probs.append(f'{len(act)} leaves kept, the smallest top-weighted set reaching keep={keep} under cap={cap} has {k_lo}..{k_hi}')
                elif act and min(w[a] for a in act) + 4e-6 < max([w[l] for l in range(nl) if l not in act], default=-1):
                    probs.append('kept leaves are not the top-weighted ones')
                else:
                    tot = sum(w[a] for a in act)
                    if any(abs(out[a] - w[a] / tot) > 1e-5 for a in act) or abs(out.sum() - 1) > 1e-5:
                        probs.append('kept weights are not renormalised to sum to one')
                # (d) which leaf saw which rows
                for l, lf in enumerate(leaves):
                    seen = set(tuple(rw.tolist()) for t_ in lf['model'].seen for rw in t_)
                    should = tuple(Xb[r].tolist()) in seen
                    if should != (out[l] > 0) and len({tuple(x) for x in Xb.tolist()}) == nrows:
                        probs.append(f'leaf {l} was {"" if should else "not "}evaluated on the row but its weight is {out[l]}')
                for p_ in probs:
                    ck.violation(p_ + f' (row {Xb[r].tolist()}, weights {w.tolist()}, output {out.tolist()}, T={T})',
                                 dict(desc, row=r, keep=keep, cap=cap, weights=w.tolist(), output=out.tolist()),
                                 key=json.dumps(dict(site='truncate', what=p_[:25])))
                qcases.append((len(qcases), f'trunc_okb (4#1000000) {coq_Q(keep)} {coq_nat(cap)} {coq_Qlist(w.tolist())} {coq_Qlist(out.tolist())}'))
                qmeta[len(qcases) - 1] = dict(desc, row=r, keep=keep, cap=cap)
        # (e) vector / scalar outputs through predict and the proba path, aggregated in Q with the observed weights
        for mode in ('vec', 'scalar'):
            for k, lf in enumerate(leaves):
                lf['model'] = Probe(k, nl, mode)
            tree.pop('_cache', None)        # the soft path reads the leaf models from the cached table
            keep, cap = 0.9, max(1, nl - 1)
            m.keep_weight_frac_in_predict = keep; m.max_leaf_count_in_ensemble = cap
            outv = m._predict_tree_soft(Xt, tree, proba=(mode == 'vec')).detach().double().numpy()
            for k, lf in enumerate(leaves):
                lf['model'] = Probe(k, nl, 'onehot')
            tree.pop('_cache', None)
            Wt = np.asarray(m.predict(Xt), dtype=np.float64)
            for r in range(nrows):
                fl = [[float(k), float(Xb[r][0])] if mode == 'vec' else [float(3 * k - 2)] for k in range(nl)]
                want = [sum(Wt[r, k] * fl[k][c] for k in range(nl)) for c in range(len(fl[0]))]
                if max(abs(a - b) for a, b in zip(want, outv[r])) > 1e-4 * (1 + max(abs(v) for v in want)):
                    ck.violation(f'soft prediction {outv[r].tolist()} != sum_l w_l f_l(x) = {want} ({mode} outputs, T={T})',
                                 dict(desc, row=r, mode=mode), key=json.dumps(dict(site='aggregate', mode=mode)))
                lo = [min(fl[k][c] for k in range(nl) if Wt[r, k] > 0) for c in range(len(fl[0]))]
                hi = [max(fl[k][c] for k in range(nl) if Wt[r, k] > 0) for c in range(len(fl[0]))]
                if any(outv[r][c] < lo[c] - 1e-4 or outv[r][c] > hi[c] + 1e-4 for c in range(len(lo))):
                    ck.violation(f'soft prediction {outv[r].tolist()} outside the convex hull [{lo},{hi}] of the evaluated leaves', dict(desc, row=r),
                                 key='hull')
                qcases.append((len(qcases), f'Qlist_close (2#10000) (aggregate {coq_Qlist(Wt[r].tolist())} {coq_Qmat(fl)} {len(fl[0])}%nat) {coq_Qlist(outv[r].tolist())}'))
                qmeta[len(qcases) - 1] = dict(desc, row=r, mode=mode)
            ck.case(dict(desc, kind='aggregate', mode=mode), nontrivial=nl >= 3)
        # (f) T -> 0+: bound D exp(-mu) on the deviation from hard routing
        for k, lf in enumerate(leaves):
            lf['model'] = Probe(k, nl, 'scalar')
        tree.pop('_cache', None)
        m.keep_weight_frac_in_predict = 0.99; m.max_leaf_count_in_ensemble = 12
        for Tsmall in (1e-2, 1e-3):
            m.split_temperature = Tsmall
            soft = np.asarray(m.predict(Xt), dtype=np.float64).reshape(-1)
            m.split_temperature = None
            hard = np.asarray(m.predict(Xt), dtype=np.float64).reshape(-1)
            for r in range(nrows):
                ws, zs = mp_weights(tree, Xb[r], Tsmall)
                lids = orc.assign_leaf_ids(tree)
                hl, near = orc.exact_route(tree, Xb[r], lids)
                mu = min((abs(zs[j]) for j, _ in paths[hl]), default=Fraction(10 ** 9))
                if mu == 0:
                    ck.skip('T->0 rows tied with a threshold'); continue
                D = len(paths[hl]); spread = 3 * (nl - 1)
                bound = float(D * mp.e ** (-mp.mpf(mu.numerator) / mp.mpf(mu.denominator))) * spread / 0.99 + 2e-4 * (1 + abs(hard[r]))
                if abs(soft[r] - hard[r]) > bound:
                    ck.violation(f'T={Tsmall}: soft prediction {soft[r]} is farther from the hard prediction {hard[r]} than the bound {bound:.3g} '
                                 f'(margin/T={float(mu):.3g}, depth {D})', dict(desc, row=r, T=Tsmall), key='limit')
            ck.case(dict(desc, kind='limit', T=Tsmall), nontrivial=nl >= 3)
        m.split_temperature = T
    res = ck.run_bool_cases('trunc', QHEADER, qcases, shard=300)
    bad = [qmeta[k] for k, v in res.items() if v is not True]
    ck.obligation(f'correspondence: {len(qcases)} observed truncations / aggregations accepted by the Coq relation trunc_okb / aggregate', 'correspondence',
                  not bad, f'first mismatches: {bad[:3]}')
    res = ck.run_lemma_files('weights', RHEADER, lemmas, shard=6, timeout=900)
    bad = [lmeta[k] for k, v in res.items() if not v]
    ck.obligation(f'correspondence: {len(lemmas)} observed soft weights within tolerance of the real-valued model (interval-certified)', 'correspondence',
                  not bad, f'first failures: {bad[:3]}')
