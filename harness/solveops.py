"""Fail-closed translator for the least-squares leaf solve (C02): `RFM.fit_predictor` (dispatch) and `RFM.fit_predictor_lstsq` are re-read from the current
source with `ast` on every run.

 system matrix   kernel_matrix = self.kernel(centers, centers)  [RFM.kernel = kernel object's matrix under sqrtM / M, checked by predops];
                 `kernel_matrix.diagonal().add_(self.reg)` when reg > 0                                        -> Ridge.add_diagR reg K
 right-hand side targets, unmodified
 solvers         'solve': torch.linalg.solve(A, Y) | 'cholesky': cholesky(A) then cholesky_solve(Y, L) | 'lu': lu_factor(A) then lu_solve(LU, pivots, Y)
                 -> each is "X with A X = Y" by the library's contract (the residual of every fit is checked numerically)
 fallback        only inside `except`: + 1% of the largest absolute row sum on the diagonal, then solve (a swallowed exception is reported by the check)
 dispatch        fit_predictor stores the centers and assigns self.weights from fit_predictor_lstsq unless EigenPro / the logistic solver is configured
The generated file instantiates coq/Real/Ridge.v: the system the code builds is `add_diagR reg K`, so by `ridge_equiv` its solution satisfies
K alpha = Y - reg alpha, and by `ridge_unique` it is THE solution when K is positive semi-definite and reg > 0."""
import ast, os
from harness.common import REPO
from harness.splitarith import TranslationError
from harness.kernelops import _cls_method


def _nodoc(body):
    return [s for s in body if not (isinstance(s, ast.Expr) and isinstance(s.value, ast.Constant))]


def translate_lstsq(fn):
    if [a.arg for a in fn.args.args] != ['self', 'centers', 'targets']:
        raise TranslationError('fit_predictor_lstsq signature changed')
    body = _nodoc(fn.body)
    src = [ast.unparse(s) for s in body]
    want_head = ['assert len(centers) == len(targets)',
                 'if centers.device != self.device:\n    centers = centers.to(self.device)\n    targets = targets.to(self.device)',
                 'kernel_matrix = self.kernel(centers, centers)', 'if self.reg > 0:\n    kernel_matrix.diagonal().add_(self.reg)']
    if src[:4] != want_head:
        k = next(i for i in range(4) if src[i] != want_head[i])
        raise TranslationError(f'fit_predictor_lstsq: statement {k} is {src[k][:140]!r} (system matrix must be K(centers, centers) + reg on the diagonal)')
    tr = body[4]
    if not (isinstance(tr, ast.Try) and len(tr.handlers) == 1 and not tr.orelse and not tr.finalbody):
        raise TranslationError('fit_predictor_lstsq: solver dispatch is not a single try/except')
    disp = ast.unparse(tr.body[0]) if len(tr.body) == 1 else None
    want_disp = ("if self.solver == 'solve':\n    out = torch.linalg.solve(kernel_matrix, targets)\nelif self.solver == 'cholesky':\n"
                 "    L = torch.linalg.cholesky(kernel_matrix, out=kernel_matrix)\n    out = torch.cholesky_solve(targets, L)\nelif self.solver == 'lu':\n"
                 "    LU, pivots = torch.linalg.lu_factor(kernel_matrix)\n    out = torch.linalg.lu_solve(LU, pivots, targets)")
    if disp != want_disp:
        raise TranslationError(f'fit_predictor_lstsq: solver branches changed: {disp!r}')
    h = [ast.unparse(s) for s in tr.handlers[0].body]
    want_h = ["if self.verbose:\n    print(f'Error in previous solver: {e}, re-trying with large regularization')", 'row_sums = kernel_matrix.abs().sum(dim=1)',
              'max_row_sum = row_sums.max()', 'kernel_matrix.diagonal().add_(max_row_sum * 0.01)', 'out = torch.linalg.solve(kernel_matrix, targets)']
    if h != want_h:
        raise TranslationError(f'fit_predictor_lstsq: exception fallback changed: {h}')
    if src[5:] != ['return out']:
        raise TranslationError(f'fit_predictor_lstsq: does not return the solution directly: {src[5:]}')


def check_dispatch(fn):
    body = _nodoc(fn.body)
    src = [ast.unparse(s) for s in body]
    if 'self.centers = centers' not in src:
        raise TranslationError('fit_predictor does not store the centers it solves with')
    i = src.index('self.centers = centers')
    if src[i + 1] != "if self.solver == 'log_reg':\n    self.weights = self.fit_predictor_logistic(centers, targets, **kwargs)\n    return":
        raise TranslationError(f'fit_predictor: logistic dispatch changed: {src[i + 1][:160]!r}')
    last = body[-1]
    if not (isinstance(last, ast.If) and ast.unparse(last.test) == 'self.fit_using_eigenpro'
            and [ast.unparse(s) for s in last.orelse] == ['self.weights = self.fit_predictor_lstsq(centers, targets)']) or len(src) != i + 3:
        raise TranslationError('fit_predictor: the closed-form path is not `self.weights = self.fit_predictor_lstsq(centers, targets)`')


def generate():
    rt = ast.parse(open(os.path.join(REPO, 'xrfm', 'rfm_src', 'recursive_feature_machine.py')).read())
    translate_lstsq(_cls_method(rt, 'RFM', 'fit_predictor_lstsq'))
    check_dispatch(_cls_method(rt, 'RFM', 'fit_predictor'))
    return '''(* GENERATED on every run by harness/solveops.py from /repo/xrfm/rfm_src/recursive_feature_machine.py — do not edit *)
From Coq Require Import Reals List Lra.
Require Import XV.Real.Kernels XV.Real.Ridge.
Import ListNotations.
Local Open Scope R_scope.

(* the system the code hands to the solver: Gram matrix of the centers under the state in force, reg added to the diagonal in place; rhs = targets *)
Definition gen_system (reg : R) (K : list (list R)) : list (list R) := add_diagR reg K.
Definition gen_is_solution (reg : R) (K : list (list R)) (alpha y : list R) : Prop := mvR (gen_system reg K) alpha = y.

Lemma gen_solution_predicts_y_minus_reg_alpha : forall n reg K alpha y, square n K -> length alpha = n -> length y = n ->
  gen_is_solution reg K alpha y -> mvR K alpha = vsubR y (vscaleR reg alpha).
Proof. intros n reg K alpha y HK Ha Hy H. apply (proj1 (ridge_equiv n reg K alpha y HK Ha Hy)). exact H. Qed.
Lemma gen_solution_is_unique : forall n reg K a b y, 0 < reg -> square n K -> psdR n K -> length a = n -> length b = n ->
  gen_is_solution reg K a y -> gen_is_solution reg K b y -> a = b.
Proof. intros n reg K a b y Hr HK Hp Ha Hb H1 H2. apply (ridge_unique n reg K a b Hr HK Hp Ha Hb). unfold gen_is_solution, gen_system in *. congruence. Qed.
'''


def check_translation(ck):
    from harness.common import coqc
    try:
        txt = generate()
        p = os.path.join(ck.bdir, 'SolveOps_gen.v')
        open(p, 'w').write(txt)
        rc, out, dt = coqc(p)
        ck.checker_cmds.append(f'coqc build/{ck.pid}/run_<pid>/SolveOps_gen.v')
        ck.obligation('SolveOps_gen.v: fit_predictor / fit_predictor_lstsq (system matrix = Gram matrix of the centers + reg on the diagonal, rhs = targets, three solver '
                      'branches, fallback only inside except, closed-form dispatch), re-translated from the source, instantiate the ridge theorems (solution predicts Y - reg*alpha; unique for PSD K)',
                      'translation', rc == 0, out)
        return rc == 0
    except TranslationError as e:
        ck.obligation('solveops translator recognises the source', 'translation', False, str(e))
        return False
