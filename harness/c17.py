"""C17 — Fitting is reproducible and independent of object history."""
import json, copy, random
import numpy as np
import torch
from harness.common import *
from harness import attrflow as af
from harness import flowgen as fg


DEGENERATE_KINDS = ['constcol', 'zerocol', 'dupcol', 'wide', 'onehot', 'collinear']
SAMPLING_METHODS = ['random_pca', 'random_agop_on_subset', 'random_global_agop']     # the split methods that draw their direction from N(0, M) with a full matrix M


def _degenerate_X(kind, n, d, rng, val):
    """float32 rows whose covariance (and the AGOP of a kernel model fitted on them) is singular.  Everything is exact in float32: the constant values are dyadic or become
    exact after the cast, the duplicate is a copy, the collinear column is a doubling."""
    X = rng.standard_normal((n, d)).astype(np.float32)
    if kind == 'constcol':
        X[:, d // 2] = val                      # a bias column
    elif kind == 'zerocol':
        X[:, 0] = 0.0                           # a feature that is switched off
    elif kind == 'dupcol':
        X[:, d - 1] = X[:, 0]                   # the same feature twice
    elif kind == 'onehot':
        X[:, :3] = np.eye(3, dtype=np.float32)[rng.integers(0, 3, size=n)]      # a full one-hot block: its columns sum to the constant one
    elif kind == 'collinear':
        X[:, 1] = 2.0 * X[:, 0]
    elif kind == 'wide':
        pass                                    # the caller chooses d larger than the number of training rows: fewer rows than features at every node
    else:
        raise ValueError(kind)
    return X


_SEED_CALLS = {'random.seed': 'python', 'np.random.seed': 'numpy', 'numpy.random.seed': 'numpy', 'torch.manual_seed': 'torch'}


def _unseeded_families(sites):
    """sites: (file, line, call) from flowgen.rng_sites().  Returns the draws whose generator family has no seeding call inside xRFM.__init__ (fail-closed: a seeding call
    anywhere else does not count; a family nobody draws from need not be seeded)."""
    import ast
    tree = ast.parse(open(os.path.join(REPO, 'xrfm/xrfm.py')).read())
    init = [f for c in tree.body if isinstance(c, ast.ClassDef) and c.name == 'xRFM' for f in c.body if isinstance(f, ast.FunctionDef) and f.name == '__init__']
    if len(init) != 1:
        raise af.TranslationError('xRFM.__init__ not found exactly once')
    lo, hi = init[0].lineno, init[0].end_lineno

    def family(call):
        return 'torch' if call.startswith('torch.') else 'numpy' if call.startswith(('np.random.', 'numpy.random.')) else 'python' if call.startswith('random.') else 'unknown'
    seeded = {_SEED_CALLS[c] for f, ln, c in sites if c in _SEED_CALLS and f == 'xrfm/xrfm.py' and lo <= ln <= hi}
    return sorted({f'{f}:{ln} {c}' for f, ln, c in sites if c not in _SEED_CALLS and c != 'torch.cuda.manual_seed' and family(c) not in seeded})


def _root_direction(model):
    t = model.trees[0]
    return None if t['type'] == 'leaf' else [round(float(v), 4) for v in t['split_direction'].detach().cpu().reshape(-1)[:8]]


def _degenerate_M_case(ck, xr, rng, j, preds):
    """one configuration of regime (2f): see the comment at the call site"""
    kind = DEGENERATE_KINDS[j % 6]
    method = SAMPLING_METHODS[(j + j // 6) % 3]            # 18 (kind, method) pairs, visited in an order that does not depend on the seed
    val = [1.0, -2.0, 0.0, 1.5, 0.3, 100.0][(j // 6) % 6] if kind == 'constcol' else None
    task = ['reg', 'class', 'reg2'][(j + j // 3) % 3]
    is_class = task == 'class'
    if kind == 'wide':
        n = int(rng.integers(55, 75)); d = n + int(rng.integers(3, 12)); L = int(rng.integers(28, 36))
    else:
        n = int(rng.integers(90, 170)); d = int(rng.integers(4, 8)); L = int(rng.integers(25, 45))
    nv, nq = 40, 25

    def dataset(n_train):
        X = _degenerate_X(kind, n_train + nv + nq, d, rng, val)
        y = xr.make_y(task, X, rng, n_classes=2)
        if is_class:
            y[n_train:n_train + 2] = [0, 1]               # both classes occur among the validation rows as well
        return [torch.tensor(a) for a in (X[:n_train], y[:n_train], X[n_train:n_train + nv], y[n_train:n_train + nv])], torch.tensor(X[n_train + nv:])

    D, Q = dataset(n)
    ctor = dict(rfm_params=xr.default_rfm_params(iters=1, reg=1e-2, bandwidth=3.0, bandwidth_mode=['constant', 'adaptive'][(j // 2) % 2]), max_leaf_size=L,
                n_trees=[1, 2][j % 2], verbose=False, tuning_metric=('accuracy' if is_class and j % 2 else None), split_method=method,
                classification_mode=['zero_one', 'prevalence'][(j // 3) % 2], refill_size=10, temp_tuning_space=[0.0, 0.05, 0.5],
                random_state=(0 if j % 4 == 0 else 300 + j), n_tree_iters=(1 if method == 'random_global_agop' else 0))
    desc = dict(kind='singular second-moment matrix', j=j, degeneracy=kind, const_value=val, method=method, task=task, n=n, d=d, L=L, n_trees=ctor['n_trees'],
                random_state=ctor['random_state'], bandwidth_mode=ctor['rfm_params']['model']['bandwidth_mode'], seed=ck.seed)
    histories = ['generators freshly seeded with 0', 'straight after the previous fit + a few python/numpy/torch draws',
                 'generators seeded with 10000+j, 10^4 torch / numpy / python draws, another estimator fitted on other data of the same kind']
    outs, dirs = [], []
    for h in range(3):
        if h == 0:
            xr.seed_all(0)
        elif h == 1:
            torch.rand(3 + j); np.random.rand(5 + j); np.random.standard_normal(2); [random.random() for _ in range(j % 7 + 1)]
        else:
            xr.seed_all(10_000 + j)
            torch.randn(10_000); np.random.rand(10_000); np.random.standard_normal(100); [random.random() for _ in range(50)]
            other = xr.xRFM(**copy.deepcopy(dict(ctor, random_state=None)))
            Do, _ = dataset(n - 7)
            with xr.quiet():
                other.fit(*Do)
        m = xr.xRFM(**copy.deepcopy(ctor))                # random_state seeds here
        with xr.quiet():
            m.fit(*D)
        outs.append(preds(m, Q, is_class)); dirs.append(_root_direction(m))
    split = any(t['type'] != 'leaf' for t in m.trees)
    ck.case(dict(desc, sub='seed-after-history'), nontrivial=split, sample=(j == 0))
    ck.count(f'singular M: {kind} x {method}')
    for k in (1, 2):
        if any(a.shape != b.shape or not np.array_equal(a, b) for a, b in zip(outs[0], outs[k])):
            a, b = outs[0][0].astype(float), outs[k][0].astype(float)
            if a.shape == b.shape and not np.array_equal(a, b):
                diff = np.abs(a - b).reshape(len(a), -1).max(axis=1); r = int(diff.argmax()); dmax = float(diff.max())
                row = f'test row {r} {[round(float(v), 5) for v in Q[r][:6]]}: {a[r].tolist()} vs {b[r].tolist()}'
            else:
                r, dmax, row = None, float('nan'), 'labels equal, probabilities differ' if a.shape == b.shape else f'shapes {a.shape} vs {b.shape}'
            cdesc = f'constant column {d // 2} = {val}' if kind == 'constcol' else kind
            ck.violation(f'split_method={method!r}, random_state={ctor["random_state"]}, {n}x{d} float32 training rows with a singular second-moment matrix ({cdesc}), '
                         f'max_leaf_size={L}: two fits of the same seed / data / configuration predict differently (max diff {dmax:.4g}; {row}); '
                         f'root split direction {dirs[0]} (history: {histories[0]}) vs {dirs[k]} (history: {histories[k]}) on {desc}',
                         dict(desc, history_first=histories[0], history_second=histories[k], maxdiff=dmax, root_directions=[dirs[0], dirs[k]],
                              ctor={kk: vv for kk, vv in ctor.items()}, X_train=D[0].tolist(), y_train=D[1].tolist(), X_val=D[2].tolist(), y_val=D[3].tolist(),
                              X_test=Q.tolist(), predictions_first=outs[0][0].tolist(), predictions_second=outs[k][0].tolist()),
                         key=json.dumps(dict(site='seed-reproducibility', method='singular-M', split_method=method)))
    # the same regime for the second sentence of the statement: a re-used estimator (one earlier fit on other data of the same kind, with splits) against a fresh one
    if j % 3:
        return                                            # every third configuration (each method and both column-level / row-level degeneracies come up)
    ctor2 = dict(ctor)
    if j % 2:
        ctor2.pop('random_state')                         # every other one of them without random_state in the constructors
    Dh, _ = dataset(n + 11)

    def seeded_fit(model, data, s):
        xr.seed_all(s)
        with xr.quiet():
            model.fit(*data)
        return model
    fresh = seeded_fit(xr.xRFM(**copy.deepcopy(ctor2)), D, 557)
    used = xr.xRFM(**copy.deepcopy(ctor2)); seeded_fit(used, Dh, 31 + j); seeded_fit(used, D, 557)
    a, b = preds(fresh, Q, is_class), preds(used, Q, is_class)
    ck.case(dict(desc, sub='refit'), nontrivial=any(t['type'] != 'leaf' for t in used.trees))
    if any(x.shape != y.shape or not np.array_equal(x, y) for x, y in zip(a, b)):
        dmax = max([float(np.max(np.abs(x.astype(float) - y.astype(float)))) for x, y in zip(a, b) if x.shape == y.shape] or [float('nan')])
        ck.violation(f'split_method={method!r} on {n}x{d} rows with a singular second-moment matrix ({kind}, value {val}): a refit after one earlier fit predicts differently from a '
                     f'fresh model (max diff {dmax}); fresh T={fresh.split_temperature}, refit T={used.split_temperature}; root directions {_root_direction(fresh)} vs '
                     f'{_root_direction(used)} on {desc}',
                     dict(desc, maxdiff=dmax, fresh_T=fresh.split_temperature, refit_T=used.split_temperature, X_train=D[0].tolist(), y_train=D[1].tolist(),
                          X_history=Dh[0].tolist(), y_history=Dh[1].tolist()),
                     key=json.dumps(dict(site='refit', method='singular-M', same_T=(fresh.split_temperature == used.split_temperature))))


def run(ck):
    from harness import xr
    ck.rule = ('(a) attribute-flow trace of xRFM.fit (and what it calls) regenerated from the source: no attribute that fit or predict can change is '
               'read before fit (re)writes it (modulo justified exemptions); list of RNG call sites, failing closed on private generators; '
               '(b) differential: same seed/data/config after 0..10^4 prior random draws -> bitwise equal predictions; fresh model vs refit after 1-2 '
               'earlier fits on other data (with and without splits), incl. a tie-forcing accuracy scenario; RNG re-seeded identically before the '
               'compared fits.  non-trivial = the compared fit splits; distinct by config hash')
    ck.trusted += ['Coq 8.16.1 kernel + vm_compute', 'harness/attrflow.py + flowgen.py translators (fail-closed)', 'exemption list in harness/flowgen.py']
    ck.assumptions += ['every random draw in fit comes from the global python/numpy/torch generators (regenerated list of call sites; private generators fail closed)',
                       'bit-identity of floating point results for identical inputs and thread count is observed, not proved']
    ck.check_theorems()
    try:
        for flag in (True, False):
            # partial evaluation on the constructor-only switch use_temperature_tuning (both values are analysed)
            t = af.Translator(assume={'use_temperature_tuning': flag})
            fit_x = t.method('xRFM', 'fit', '', [])
            pred_x = ('br', t.method('xRFM', 'predict', '', []), t.method('xRFM', 'predict_proba', '', []))
            if 'use_temperature_tuning' in af.writes_of(fit_x) | af.writes_of(pred_x):
                raise af.TranslationError('use_temperature_tuning is written after construction: the case split on it is not justified')
            mutable = (af.writes_of(fit_x) | af.writes_of(pred_x)) - set(fg.EXEMPT_X_FIT)
            whole = ('seq', [fit_x, pred_x])
            txt, ids = fg.gen_file(dict(fit_then_predict=whole), dict(mutable_x=mutable), [])
            txt += ('Definition off := fst (offenders (fun a => mem a mutable_x) fit_then_predict []).\nEval vm_compute in off.\n')
            p = os.path.join(ck.bdir, f'AttrFlow_gen_{flag}.v')
            open(p, 'w').write(txt)
            rc, out, dt = coqc(p)
            ck.checker_cmds.append(f'coqc build/C17/run_<pid>/AttrFlow_gen_{flag}.v')
            inv = {v: k for k, v in ids.items()}
            if rc != 0:
                ck.obligation(f'AttrFlow_gen_{flag}.v compiles', 'translation', False, out)
            else:
                tail = out[out.rfind('='):]
                off = sorted({inv[int(x)] for x in re.findall(r'\d+', tail.split(':')[0])})
                ck.obligation(f'use_temperature_tuning={flag}: xRFM.fit ; predict reads no mutable attribute before fit (re)writes it (trace size {af.size_of(whole)}, '
                              f'mutable: {sorted(mutable)}, exempt: tuning_metric, class_converter_*)', 'translation', not off, f'read before (re)written: {off}')
        # side conditions under which the exemptions are justified (re-checked on the current source)
        undominated = fg.exemption_side_condition('xRFM', 'fit', ['class_converter_'])
        ck.obligation('exemption side condition: inside xRFM.fit every direct read of class_converter_ (incl. hasattr/getattr) is dominated by a write in the same call',
                      'translation', not undominated, f'reads not dominated by a write: {undominated}')
        tm = fg.tuning_metric_shape()
        ck.obligation('exemption side condition: xRFM.fit writes tuning_metric only in the else-branch of `if self.tuning_metric is not None`, with a value that depends '
                      'on the task type alone', 'translation', tm is None, str(tm))
        sites = fg.rng_sites()
        ck.obligation(f'all {len(sites)} random draws use the seeded global generators (no private generator, no generator= argument)', 'translation', True)
        unseeded = _unseeded_families(sites)
        ck.obligation('every generator family (python random / numpy.random / torch) from which the library draws is seeded from random_state inside xRFM.__init__',
                      'translation', not unseeded, f'draws from a generator that the constructor does not seed: {unseeded}')
        ck.notes.append('RNG call sites: ' + '; '.join(f'{a.split("/")[-1]}:{b} {c}' for a, b, c in sites))
    except af.TranslationError as e:
        ck.obligation('attrflow / RNG-site translator accepts the source', 'translation', False, str(e))

    # ---------------- differential ----------------
    rng = np.random.default_rng(ck.seed + 1717)

    def data(task, n, d, K=3):
        X = xr.make_X('random', n, d, rng)
        y = xr.make_y(task, X, rng, n_classes=K)
        Xv = xr.make_X('random', 40, d, rng)
        yv = xr.make_y(task, Xv, rng, n_classes=K)
        return [torch.tensor(a) for a in (X, y, Xv, yv)]

    def seeded_fit(model, D, s):
        xr.seed_all(s)
        with xr.quiet():
            model.fit(*D)
        return model

    def preds(model, Q, is_class):
        with xr.quiet():
            o = [np.asarray(model.predict(Q))]
            if is_class:
                o.append(np.asarray(model.predict_proba(Q)))
        return o

    nrun = ck.n(12, 70)
    for i in range(nrun):
        task = ['reg', 'class', 'class', 'reg2'][i % 4]
        is_class = task == 'class'
        metric = [None, 'accuracy', 'brier', None][i % 4]
        d = 3
        method = ['top_vector_agop_on_subset', 'random_pca', 'random_agop_on_subset', 'random', 'linear', 'random_global_agop'][i % 6]
        tree_iters = 1 if method == 'random_global_agop' else 0       # trees rebuilt from the previous build's averaged feature matrix
        ctor = dict(rfm_params=xr.default_rfm_params(iters=1, reg=1e-2, bandwidth=3.0, bandwidth_mode=['constant', 'adaptive'][i % 2]),
                    max_leaf_size=int(rng.integers(15, 40)), n_trees=[1, 2][i % 2], verbose=False, tuning_metric=metric, split_method=method,
                    classification_mode=['zero_one', 'prevalence'][i % 2], refill_size=15, temp_tuning_space=[0.0, 0.05, 0.5, 3.0],
                    random_state=(0 if i % 5 == 0 else 100 + i), n_tree_iters=tree_iters)        # the seed 0 is a seed like any other
        if i % 6 == 4:
            ctor['rfm_params'] = None          # the library's default leaf model (rfm_params=None aliases default_rfm_params)
        D = data(task, int(rng.integers(90, 200)), d)
        Q = torch.tensor(xr.make_X('random', 25, d, rng))
        desc = dict(i=i, task=task, metric=metric, method=method, tree_iters=tree_iters, default_params=(ctor['rfm_params'] is None), n=int(D[0].shape[0]), L=ctor['max_leaf_size'], n_trees=ctor['n_trees'], seed=ck.seed)
        # (1) same seed after different amounts of prior randomness
        outs = []
        for burn in (0, 17, 10_000):
            random.seed(burn); np.random.seed(burn); torch.manual_seed(burn)
            if burn:
                torch.randn(burn); np.random.rand(burn); [random.random() for _ in range(burn % 101)]
                # other estimators come into existence (and are used) in the same process before the compared fit: one with the library's defaults, one with
                # explicit parameters — the compared fit depends on its own seed, data and configuration only
                other = xr.xRFM(verbose=False)
                other2 = xr.xRFM(rfm_params=xr.default_rfm_params(iters=2, reg=1e-1, bandwidth=7.0), verbose=False, max_leaf_size=25)
                if burn > 1000:
                    Do = data(task, 70, d)
                    with xr.quiet():
                        other2.fit(*Do); other.max_leaf_size = 30; other.fit(*Do)
            m = xr.xRFM(**copy.deepcopy(ctor))           # random_state seeds the global generators
            with xr.quiet():
                m.fit(*D)
            outs.append(preds(m, Q, is_class))
        ck.case(dict(desc, kind='seed-after-burn'), nontrivial=any(t['type'] != 'leaf' for t in m.trees), sample=(i == 1))
        ck.count(f'method={method}'); ck.count(f'task={task}')
        for k in (1, 2):
            if any(not np.array_equal(a, b) for a, b in zip(outs[0], outs[k])):
                ck.violation(f'same seed/data/config gives different predictions after prior random draws on {desc}', dict(desc, kind='seed'),
                             key=json.dumps(dict(site='seed-reproducibility', method=method)))
        # (2) refit vs fresh, RNG re-seeded identically before the compared fit
        ctor2 = dict(ctor)
        if i % 2:
            ctor2.pop('random_state')           # every other configuration keeps random_state in the constructor of both the fresh and the re-used estimator
        fresh = seeded_fit(xr.xRFM(**copy.deepcopy(ctor2)), D, 555)
        base = preds(fresh, Q, is_class)
        for hist in ([('split',)], [('leaf',)], [('split',), ('split',)]):
            used = xr.xRFM(**copy.deepcopy(ctor2))
            for (kind,) in hist:
                Dh = data(task, 150 if kind == 'split' else ctor['max_leaf_size'] - 3, d)
                seeded_fit(used, Dh, int(rng.integers(0, 10 ** 6)))
            seeded_fit(used, D, 555)
            got = preds(used, Q, is_class)
            ck.case(dict(desc, kind='refit', history=[h[0] for h in hist]), nontrivial=any(t['type'] != 'leaf' for t in used.trees))
            ck.count(f'history={"+".join(h[0] for h in hist)}')
            if any(a.shape != b.shape or not np.array_equal(a, b) for a, b in zip(base, got)):
                dmax = max(float(np.max(np.abs(a.astype(float) - b.astype(float)))) for a, b in zip(base, got) if a.shape == b.shape)
                ck.violation(f'refit after history {[h[0] for h in hist]} predicts differently from a fresh model (max diff {dmax}); '
                             f'fresh T={fresh.split_temperature}, refit T={used.split_temperature} on {desc}',
                             dict(desc, history=[h[0] for h in hist], maxdiff=dmax, fresh_T=fresh.split_temperature, refit_T=used.split_temperature),
                             key=json.dumps(dict(site='refit', same_T=(fresh.split_temperature == used.split_temperature))))
    # (2b) a leaf with more than 5000 training rows and adaptive bandwidth: the median is estimated on a random subsample of the
    #      pairwise distances, drawn from the seeded global generator
    for kern_big in (['l2_high_dim'] if ck.tier == 'quick' else ['l2_high_dim', 'l2', 'l1']):
        nb = 5300
        Xb = xr.make_X('random', nb, 3, rng); yb = xr.make_y('reg', Xb, rng); Xvb = xr.make_X('random', 60, 3, rng); yvb = xr.make_y('reg', Xvb, rng)
        Db = [torch.tensor(a) for a in (Xb, yb, Xvb, yvb)]; Qb = torch.tensor(xr.make_X('random', 20, 3, rng))
        ctorb = dict(rfm_params=xr.default_rfm_params(kernel=kern_big, iters=0, reg=1e-2, bandwidth=3.0, bandwidth_mode='adaptive'), max_leaf_size=20_000,
                     verbose=False, use_temperature_tuning=False, random_state=4242)
        outsb = []
        for burn in (0, 23, 5_000):
            random.seed(burn); np.random.seed(burn); torch.manual_seed(burn)
            if burn:
                torch.randn(burn); np.random.rand(burn)
            mb = xr.xRFM(**copy.deepcopy(ctorb))
            with xr.quiet():
                mb.fit(*Db)
                outsb.append((np.asarray(mb.predict(Qb)), float(mb.trees[0]['model'].kernel_obj.bandwidth)))
        ck.case(dict(kind='seed-after-burn-large-adaptive-leaf', kernel=kern_big, n=nb), nontrivial=True); ck.count('large adaptive leaf (bandwidth subsample)')
        if any(not np.array_equal(outsb[0][0], o[0]) or outsb[0][1] != o[1] for o in outsb[1:]):
            ck.violation(f'same seed/data/config gives different predictions / bandwidths {[o[1] for o in outsb]} after prior random draws on a {nb}-row adaptive leaf ({kern_big})',
                         dict(kernel=kern_big, n=nb, bandwidths=[o[1] for o in outsb]), key=json.dumps(dict(site='seed-reproducibility', method='large-adaptive-leaf')))
    # (2c) wide data (more features than the library's threshold for switching the split model's top-eigenvector computation to an iterative solver,
    #      whose start block is a random draw): same seed after prior draws, and refit vs fresh
    for j in range(ck.n(2, 6)):
        dw = [300, 270, 420][j % 3]
        methodw = ['top_vector_agop_on_subset', 'top_pc_agop_on_subset'][j % 2]
        taskw = ['reg', 'class'][j % 2]
        def dataw(n):
            X = xr.make_X('random', n, dw, rng); y = xr.make_y(taskw, X[:, :3], rng, n_classes=2); Xv = xr.make_X('random', 30, dw, rng); yv = xr.make_y(taskw, Xv[:, :3], rng, n_classes=2)
            return [torch.tensor(a) for a in (X, y, Xv, yv)]
        Dw = dataw(130); Qw = torch.tensor(xr.make_X('random', 25, dw, rng))
        ctorw = dict(rfm_params=xr.default_rfm_params(iters=0, reg=1e-2, bandwidth=20.0), max_leaf_size=70, verbose=False, split_method=methodw,
                     temp_tuning_space=[0.0, 0.3], refill_size=10, random_state=900 + j)
        descw = dict(kind='wide', j=j, d=dw, method=methodw, task=taskw, seed=ck.seed)
        outsw = []
        for burn in (0, 31, 3_000):
            random.seed(burn); np.random.seed(burn); torch.manual_seed(burn)
            if burn:
                torch.randn(burn); np.random.rand(burn)
            mw = xr.xRFM(**copy.deepcopy(ctorw))
            with xr.quiet():
                mw.fit(*Dw)
            outsw.append(preds(mw, Qw, taskw == 'class'))
        ck.case(dict(descw, sub='seed-after-burn'), nontrivial=any(t['type'] != 'leaf' for t in mw.trees)); ck.count(f'wide data d={dw}')
        for k in (1, 2):
            if any(not np.array_equal(a, b) for a, b in zip(outsw[0], outsw[k])):
                dmax = max(float(np.max(np.abs(a.astype(float) - b.astype(float)))) for a, b in zip(outsw[0], outsw[k]))
                ck.violation(f'same seed/data/config gives different predictions (max diff {dmax}) after prior random draws on wide data {descw}', dict(descw, maxdiff=dmax),
                             key=json.dumps(dict(site='seed-reproducibility', method='wide')))
        ctorw2 = dict(ctorw); ctorw2.pop('random_state')
        freshw = seeded_fit(xr.xRFM(**copy.deepcopy(ctorw2)), Dw, 556)
        usedw = xr.xRFM(**copy.deepcopy(ctorw2)); seeded_fit(usedw, dataw(110), 12 + j); seeded_fit(usedw, Dw, 556)
        a = preds(freshw, Qw, taskw == 'class'); b = preds(usedw, Qw, taskw == 'class')
        ck.case(dict(descw, sub='refit'), nontrivial=any(t['type'] != 'leaf' for t in usedw.trees))
        if any(x.shape != y.shape or not np.array_equal(x, y) for x, y in zip(a, b)):
            dmax = max(float(np.max(np.abs(x.astype(float) - y.astype(float)))) for x, y in zip(a, b) if x.shape == y.shape)
            ck.violation(f'wide data: refit predicts differently from a fresh model (max diff {dmax}) on {descw}', dict(descw, maxdiff=dmax),
                         key=json.dumps(dict(site='refit', method='wide')))
    # (2d) discrete features with an axis-aligned split: the median cut falls inside a run of rows with EQUAL projections — which of them go left is the same in two fits with
    #      the same seed
    for j in range(ck.n(3, 9)):
        methodd = ['fixed_vector', 'rf_criterion', 'fixed_vector'][j % 3]; taskd = ['reg', 'class', 'reg'][j % 3]; dd = 3
        def datad(n):
            X = rng.integers(0, 4, size=(n, dd)).astype(np.float32); X[:, 1:] += rng.standard_normal((n, dd - 1)).astype(np.float32)      # column 0 is integer coded (4 levels)
            y = xr.make_y(taskd, X, rng, n_classes=2); Xv = rng.integers(0, 4, size=(40, dd)).astype(np.float32); Xv[:, 1:] += rng.standard_normal((40, dd - 1)).astype(np.float32)
            yv = xr.make_y(taskd, Xv, rng, n_classes=2)
            return [torch.tensor(a) for a in (X, y, Xv, yv)]
        Dd = datad(150); Qd = torch.tensor(np.concatenate([Dd[0].numpy()[:15], rng.integers(0, 4, size=(15, dd)).astype(np.float32)]))
        kwd = dict(fixed_vector=torch.tensor([1.0, 0.0, 0.0])) if methodd == 'fixed_vector' else {}
        ctord = dict(rfm_params=xr.default_rfm_params(iters=0, reg=1e-2, bandwidth=3.0), max_leaf_size=40, verbose=False, split_method=methodd, use_temperature_tuning=False, refill_size=10,
                     random_state=700 + j, **kwd)
        descd = dict(kind='tied projections', j=j, method=methodd, task=taskd, seed=ck.seed)
        outsd = []
        for burn in (0, 29, 4_000):
            random.seed(burn); np.random.seed(burn); torch.manual_seed(burn)
            if burn:
                torch.randn(burn); np.random.rand(burn)
            md = xr.xRFM(**copy.deepcopy(ctord))
            with xr.quiet():
                md.fit(*Dd)
            outsd.append(preds(md, Qd, taskd == 'class'))
        ck.case(descd, nontrivial=any(t['type'] != 'leaf' for t in md.trees)); ck.count('tied projections at the median cut')
        for k in (1, 2):
            if any(not np.array_equal(a, b) for a, b in zip(outsd[0], outsd[k])):
                dmax = max(float(np.max(np.abs(a.astype(float) - b.astype(float)))) for a, b in zip(outsd[0], outsd[k]))
                ck.violation(f'same seed/data/config gives different predictions (max diff {dmax}) on discrete data split along the integer-coded column ({descd})', dict(descd, maxdiff=dmax),
                             key=json.dumps(dict(site='seed-reproducibility', method='tied')))
    # (2f) split methods that SAMPLE their direction from N(0, M) (M = covariance of the node's rows, AGOP of the split model, averaged AGOP of the previous build) on data whose M is
    #      only positive SEMI-definite: a constant / zero column (bias column), exactly duplicated or collinear columns, a one-hot block (columns sum to one), more features than rows
    #      at the node.  That is the corner where a sampler has to leave the generic route (no Cholesky factor, zero singular values).  Three process histories before the compared
    #      fit: global generators freshly seeded / straight after the previous fit (whatever that fit drew from python, numpy and torch, plus extra draws from each) / after heavy
    #      consumption from all three generators and another estimator's fit on other degenerate data.  All of that happens before the compared model is constructed, i.e. before
    #      random_state seeds, so by the statement the predictions are bit-identical.
    import time as _time
    t2f = (_time.time(), _time.process_time())
    for j in range(ck.n(12, 36)):
        _degenerate_M_case(ck, xr, rng, j, preds)
    ck.notes.append(f'regime (2f) singular second-moment matrices: wall {_time.time() - t2f[0]:.1f}s, cpu {_time.process_time() - t2f[1]:.1f}s')
    # (2e) separate interpreter processes (each with its own string-hash salt, PYTHONHASHSEED = 1 / 2 / 3): the same seed, data and configuration give bit-identical predictions
    import subprocess, sys, hashlib
    script = ("import numpy as np, torch, hashlib, sys, io, contextlib\n"
              "from xrfm import xRFM\n"
              "rng = np.random.default_rng(5)\n"
              "X = rng.standard_normal((140, 3)).astype(np.float32); y = (X[:, :1] ** 2 + 0.3 * X[:, 1:2]).astype(np.float32); Xv = rng.standard_normal((40, 3)).astype(np.float32); yv = (Xv[:, :1] ** 2).astype(np.float32)\n"
              "Q = rng.standard_normal((30, 3)).astype(np.float32)\n"
              "p = {'model': dict(kernel='l2', exponent=1.0, bandwidth=3.0, diag=False, bandwidth_mode='constant'), 'fit': dict(get_agop_best_model=True, return_best_params=True, reg=1e-2, iters=0, early_stop_rfm=False, verbose=False)}\n"
              "m = xRFM(rfm_params=p, max_leaf_size=40, n_trees=int(sys.argv[1]), verbose=False, split_method='random_pca', random_state=77, refill_size=10, temp_tuning_space=[0.0, 0.3])\n"
              "with contextlib.redirect_stdout(io.StringIO()):\n"
              "    m.fit(torch.tensor(X), torch.tensor(y), torch.tensor(Xv), torch.tensor(yv)); out = np.asarray(m.predict(torch.tensor(Q)))\n"
              "print('DIGEST', hashlib.sha1(out.tobytes()).hexdigest(), float(out[0, 0]))\n")
    for nt in ((3,) if ck.tier == 'quick' else (1, 2, 3)):
        digs = {}
        for hs in ('1', '2', '3'):
            env = dict(os.environ, PYTHONHASHSEED=hs, PYTHONPATH=REPO, OMP_NUM_THREADS='2', MKL_NUM_THREADS='2')
            try:
                r = subprocess.run([sys.executable, '-c', script, str(nt)], env=env, capture_output=True, text=True, timeout=300)
                line = [l for l in r.stdout.splitlines() if l.startswith('DIGEST')]
                digs[hs] = line[0] if line else f'no output (rc={r.returncode}): {r.stderr[-200:]}'
            except Exception as e:
                digs[hs] = f'subprocess failed: {e!r}'
        ck.case(dict(kind='separate processes', n_trees=nt, digests=digs), nontrivial=True); ck.count('same seeded fit in three interpreter processes')
        if len(set(digs.values())) != 1:
            ck.violation(f'the same seed / data / configuration ({nt} trees, random_state=77, 2 threads) fitted in three separate interpreter processes gives different predictions: {digs}',
                         dict(kind='separate processes', n_trees=nt, digests=digs, script=script), key=json.dumps(dict(site='seed-reproducibility', method='processes')))
    # (3) tie-forcing scenario from C10's tie theorem: accuracy on a tiny validation set, candidates tie
    for i in range(ck.n(6, 30)):
        D1 = data('class', 160, 3, K=2)
        D2 = data('class', 160, 3, K=2)
        D2[2], D2[3] = D2[2][:6], D2[3][:6]            # 6 validation points: scores in {0, 1/6, ...} tie easily
        Q = torch.tensor(xr.make_X('random', 40, 3, rng))
        ctor = dict(rfm_params=xr.default_rfm_params(iters=0, reg=1e-2, bandwidth=3.0), max_leaf_size=30, verbose=False, tuning_metric='accuracy',
                    temp_tuning_space=[0.0, 0.2, 1.0, 4.0], refill_size=10)
        fresh = seeded_fit(xr.xRFM(**copy.deepcopy(ctor)), D2, 77)
        used = xr.xRFM(**copy.deepcopy(ctor)); seeded_fit(used, D1, 5 + i); seeded_fit(used, D2, 77)
        a = preds(fresh, Q, True); b = preds(used, Q, True)
        ck.case(dict(kind='tie-scenario', i=i, fresh_T=fresh.split_temperature, refit_T=used.split_temperature,
                     results=[list(map(float, r)) for r in fresh.temperature_tuning_results_]), nontrivial=True, sample=(i == 0))
        ck.count('tie scenario: tied best candidates' if len({r[1] for r in fresh.temperature_tuning_results_}) < 4 else 'tie scenario: no tie')
        if any(not np.array_equal(x, y) for x, y in zip(a, b)):
            ck.violation(f'tie scenario {i}: refit keeps the previous fit\'s temperature (fresh T={fresh.split_temperature}, refit T={used.split_temperature}) and predicts differently',
                         dict(i=i, fresh_T=fresh.split_temperature, refit_T=used.split_temperature),
                         key=json.dumps(dict(site='refit', same_T=(fresh.split_temperature == used.split_temperature))))
