"""Fail-closed translator for input coercion (C20): the coercion block of `xRFM.fit` (from `torch.as_tensor(y)` to the assignment of `data_dim`) is re-read from
the current source with `ast` on every run and EXECUTED ABSTRACTLY on every representation of the targets — container (tensor / array) x dtype (float32/64,
int8..int64, uint8) x shape ((n,), (n,1), (n,k)) x metric kind (none / regression / classification) x label encoding x number of classes.  An abstract tensor is
(dtype, shape kind, columns); the interpreter understands exactly the operations the block uses (as_tensor, is_floating_point, len(shape), [:, None], unsqueeze(-1),
float(), labels_to_numerical, max(2, .), Metric.task_types).  The resulting table (task type, canonical dtype, canonical number of columns) is emitted to Coq and
compared with `Coerce.is_class` / `Coerce.canon_y` on the whole finite domain by vm_compute.  The feature coercion (`torch.tensor(X, dtype=float32)` for non-tensors,
in fit / predict / predict_proba) is matched structurally.  Anything outside the recognised subset raises TranslationError."""
import ast, os, itertools
from harness.common import REPO
from harness.splitarith import TranslationError, _method, _src

FLOATS = ('F32', 'F64')
DTYPES = ('F32', 'F64', 'I8', 'I16', 'I32', 'I64', 'U8')


class T:           # abstract tensor
    def __init__(self, dtype, shape, cols):
        self.dtype, self.shape, self.cols = dtype, shape, cols      # shape in {'flat', 'col', 'wide'}; cols = 1 for flat / col

    def copy(self, **kw):
        t = T(self.dtype, self.shape, self.cols)
        for k, v in kw.items():
            setattr(t, k, v)
        return t


class Interp:
    def __init__(self, metric_kind, enc, K):
        self.metric_kind, self.enc, self.K = metric_kind, enc, K
        self.env = {}
        self.attrs = {}
        self.warned = False

    def class_cols(self):
        return (1 if self.K == 2 else self.K) if self.enc == 'ZeroOne' else self.K - 1

    def ev(self, e):
        u = ast.unparse(e)
        if isinstance(e, ast.Constant):
            return e.value
        if isinstance(e, ast.Name):
            if e.id in self.env:
                return self.env[e.id]
            raise TranslationError(f'fit coercion: unknown name {e.id}')
        if u == 'self.tuning_metric':
            return None if self.metric_kind == 'NoMetric' else 'metric'
        if u == 'self.classification_mode':
            return self.enc
        if u == 'self.device':
            return 'dev'
        if isinstance(e, ast.Compare) and len(e.ops) == 1:
            a, b = self.ev(e.left), self.ev(e.comparators[0])
            op = e.ops[0]
            if isinstance(op, ast.IsNot):
                return a is not b
            if isinstance(op, ast.Is):
                return a is b
            if isinstance(op, ast.Eq):
                return a == b
            if isinstance(op, ast.In):
                return a in b
            raise TranslationError(f'fit coercion: comparison {u}')
        if isinstance(e, ast.UnaryOp) and isinstance(e.op, ast.Not):
            return not self.ev(e.operand)
        if isinstance(e, ast.BoolOp):
            vals = [self.ev(v) for v in e.values]
            return all(vals) if isinstance(e.op, ast.And) else any(vals)
        if isinstance(e, ast.Call):
            f = ast.unparse(e.func)
            if f == 'torch.as_tensor' and len(e.args) == 1:
                return self.ev(e.args[0])
            if f == 'torch.cat' and u.startswith('torch.cat([y, y_val]'):
                return self.ev(e.args[0].elts[0]).copy()
            if f == 'Metric.from_name' and ast.unparse(e.args[0]) == 'self.tuning_metric':
                return 'metricobj'
            if f == 'len' and isinstance(e.args[0], ast.Attribute) and e.args[0].attr == 'shape':
                t = self.ev(e.args[0].value)
                return 1 if t.shape == 'flat' else 2
            if f == 'max' and len(e.args) == 2:
                return max(self.ev(e.args[0]), self.ev(e.args[1]))
            if f == 'dict':
                return 'dict'
            if f == 'ClassificationConverter':
                kws = {k.arg: ast.unparse(k.value) for k in e.keywords}
                if kws.get('mode') != 'self.classification_mode' or kws.get('n_classes') != 'self.n_classes_':
                    raise TranslationError(f'fit coercion: converter constructed with {kws}')
                lab = kws.get('labels')
                if lab is not None:
                    t = self.ev(ast.parse(lab, mode='eval').body)
                    if t.dtype in FLOATS:
                        raise TranslationError('fit coercion: converter built from floating labels')
                return ('converter', lab is not None)
            if isinstance(e.func, ast.Attribute):
                base, m = e.func.value, e.func.attr
                if m == 'to' and len(e.args) == 1 and not e.keywords:
                    return self.ev(base)
                if m == 'is_floating_point' and not e.args:
                    return self.ev(base).dtype in FLOATS
                if m == 'float' and not e.args:
                    return self.ev(base).copy(dtype='F32')
                if m == 'unsqueeze' and ast.unparse(e.args[0]) == '-1':
                    t = self.ev(base)
                    if t.shape != 'flat':
                        raise TranslationError('fit coercion: unsqueeze of a 2-D target')
                    return t.copy(shape='col', cols=1)
                if m == 'item' and not e.args:
                    return self.ev(base)
                if m == 'max' and not e.args:
                    t = self.ev(base)
                    if t.dtype in FLOATS:
                        raise TranslationError('fit coercion: label maximum of floating targets')
                    return self.K - 1                      # labels 0 .. K-1 occur in y or y_val
                if m == 'labels_to_numerical' and ast.unparse(base) == 'self.class_converter_':
                    t = self.ev(e.args[0])
                    if t.dtype in FLOATS:
                        raise TranslationError('fit coercion: floating labels encoded')
                    return T('F32', 'col' if self.class_cols() == 1 else 'wide', self.class_cols())
        if isinstance(e, ast.BinOp) and isinstance(e.op, ast.Add):
            return self.ev(e.left) + self.ev(e.right)
        if isinstance(e, ast.Attribute) and e.attr == 'task_types' and self.ev(e.value) == 'metricobj':
            return ('reg',) if self.metric_kind == 'RegMetric' else ('class',)
        if isinstance(e, ast.Subscript):
            s = ast.unparse(e.slice)
            if isinstance(e.value, ast.Attribute) and e.value.attr == 'shape' and s == '1':
                return self.ev(e.value.value).cols
            if s in (':, None', '(:, None)'):
                t = self.ev(e.value)
                if t.shape != 'flat':
                    raise TranslationError('fit coercion: [:, None] on a 2-D target')
                return t.copy(shape='col', cols=1)
        if isinstance(e, ast.IfExp):
            return self.ev(e.body) if self.ev(e.test) else self.ev(e.orelse)
        if isinstance(e, ast.Attribute) and ast.unparse(e) in self.attrs:
            return self.attrs[ast.unparse(e)]
        raise TranslationError(f'fit coercion: unsupported expression {u[:100]}')

    def run(self, stmts):
        for st in stmts:
            if isinstance(st, ast.Assign) and len(st.targets) == 1:
                v = self.ev(st.value)
                t = st.targets[0]
                if isinstance(t, ast.Name):
                    self.env[t.id] = v
                elif isinstance(t, ast.Attribute) and isinstance(t.value, ast.Name) and t.value.id == 'self':
                    self.attrs[ast.unparse(t)] = v
                else:
                    raise TranslationError(f'fit coercion: assignment target {ast.unparse(t)}')
            elif isinstance(st, ast.If):
                self.run(st.body if self.ev(st.test) else st.orelse)
            elif isinstance(st, ast.Assert):
                if not self.ev(st.test):
                    raise TranslationError(f'fit coercion: assertion {ast.unparse(st.test)} fails on an accepted representation')
            elif isinstance(st, ast.Expr) and isinstance(st.value, ast.Call) and ast.unparse(st.value.func) == 'print':
                self.warned = True
            else:
                raise TranslationError(f'fit coercion: unsupported statement {ast.unparse(st)[:100]}')


def block(fn):
    body = [s for s in fn.body if not (isinstance(s, ast.Expr) and isinstance(s.value, ast.Constant))]
    src = [ast.unparse(s) for s in body]
    try:
        a = src.index('y = torch.as_tensor(y).to(self.device)')
        b = src.index('self.data_dim = X.shape[1]')
    except ValueError:
        raise TranslationError('fit: coercion block delimiters (y = torch.as_tensor(y).to(self.device) ... self.data_dim = X.shape[1]) not found')
    # feature coercion just before the block
    want = ['if not isinstance(X, torch.Tensor):\n    X = torch.tensor(X, dtype=torch.float32, device=self.device)',
            'if not isinstance(X_val, torch.Tensor):\n    X_val = torch.tensor(X_val, dtype=torch.float32, device=self.device)', 'X = X.to(self.device)', 'X_val = X_val.to(self.device)']
    if src[a - 4:a] != want:
        raise TranslationError(f'fit: feature coercion changed: {src[a - 4:a]}')
    return body[a:b]


def table():
    tree = ast.parse(_src())
    stmts = block(_method(tree, 'xRFM', 'fit'))
    rows = []
    for mk, enc, K, cont, dt, (sh, cols) in itertools.product(('NoMetric', 'RegMetric', 'ClassMetric'), ('ZeroOne', 'Prevalence'), (2, 3, 5), ('Tensor', 'Array'), DTYPES,
                                                              (('flat', 1), ('col', 1), ('wide', 3))):
        if dt not in FLOATS and sh == 'wide':
            continue                                          # integer label matrices are not a representation of the data sets considered
        it = Interp(mk, enc, K)
        y = T(dt, sh, cols)
        it.env.update(y=y, y_val=y.copy(), X='X', X_val='Xv')
        it.run(stmts)
        yo = it.env['y']; yv = it.env['y_val']
        if not isinstance(yo, T) or (yo.dtype, yo.shape, yo.cols) != (yv.dtype, yv.shape, yv.cols):
            raise TranslationError(f'fit coercion: training and validation targets end in different formats for {(mk, enc, K, cont, dt, sh)}')
        ncl = it.attrs.get('self.n_classes_')
        is_class = bool(ncl and ncl > 0)
        rows.append((mk, enc, K, cont, dt, sh, cols, is_class, yo.dtype, yo.cols if yo.shape != 'flat' else 0))
    return rows


def generate():
    rows = table()
    shp = lambda sh, cols: {'flat': 'Flat', 'col': 'Column'}.get(sh, f'(Wide {cols})')
    items = '; '.join(f"(({mk}, {enc}, {K}%nat, {cont}, {dt}, {shp(sh, cols)}), ({'true' if c else 'false'}, {od}, {oc}%nat))" for mk, enc, K, cont, dt, sh, cols, c, od, oc in rows)
    return f'''(* GENERATED on every run by harness/coerceops.py from /repo/xrfm/xrfm.py (abstract execution of the coercion block of fit) — do not edit *)
From Coq Require Import List Bool Arith.
Require Import XV.Model.Coerce.
Import ListNotations.
Definition dtype_eqb (a b : dtype) : bool :=
  match a, b with F32, F32 | F64, F64 | I8, I8 | I16, I16 | I32, I32 | I64, I64 | U8, U8 => true | _, _ => false end.
Definition gen_table : list ((metric_kind * encoding * nat * container * dtype * yshape) * (bool * dtype * nat)) := [{items}].
Definition row_ok (r : (metric_kind * encoding * nat * container * dtype * yshape) * (bool * dtype * nat)) : bool :=
  let '((m, e, K, c, d, s), (cls, od, oc)) := r in
  Bool.eqb (is_class m d) cls && dtype_eqb (fst (canon_y m e K c d s)) od && Nat.eqb (snd (canon_y m e K c d s)) oc.
Lemma gen_table_eq_model : forallb row_ok gen_table = true.
Proof. vm_compute. reflexivity. Qed.
Lemma gen_table_size : length gen_table = {len(rows)}%nat.
Proof. vm_compute. reflexivity. Qed.
'''


def check_translation(ck):
    from harness.common import coqc
    try:
        txt = generate()
        p = os.path.join(ck.bdir, 'CoerceOps_gen.v')
        open(p, 'w').write(txt)
        rc, out, dt = coqc(p)
        ck.checker_cmds.append(f'coqc build/{ck.pid}/run_<pid>/CoerceOps_gen.v')
        ck.obligation('CoerceOps_gen.v: the coercion block of xRFM.fit, executed abstractly on every representation of the targets (container x dtype x shape x metric kind x '
                      'encoding x K), yields the task type and canonical target format of the Coq model Coerce.canon_y on the whole finite domain', 'translation', rc == 0, out)
        return rc == 0
    except TranslationError as e:
        ck.obligation('coerceops translator recognises the source', 'translation', False, str(e))
        return False
