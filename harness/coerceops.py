"""Fail-closed translator for input coercion (C20): the coercion block of `xRFM.fit` (from `torch.as_tensor(y)` to the assignment of `data_dim`) is re-read from
the current source with `ast` on every run and EXECUTED ABSTRACTLY on every representation of the targets — container (tensor / array) x dtype (float32/64,
int8..int64, uint8) x shape ((n,), (n,1), (n,k)) x metric kind (none / regression / classification) x label encoding x number of classes.  An abstract tensor is
(dtype, shape kind, columns); the interpreter understands exactly the operations the block uses (as_tensor, is_floating_point, len(shape), [:, None], unsqueeze(-1),
float(), labels_to_numerical, max(2, .), Metric.task_types).  The resulting table (task type, canonical dtype, canonical number of columns) is emitted to Coq and
compared with `Coerce.is_class` / `Coerce.canon_y` on the whole finite domain by vm_compute.  The feature coercion (`torch.tensor(X, dtype=float32)` for non-tensors,
in fit / predict / predict_proba) is matched structurally.  Anything outside the recognised subset raises TranslationError."""
import ast, os, itertools
from harness.common import REPO
from harness.splitarith import TranslationError, _method, _src

FLOATS = ('F32', 'F64')
DTYPES = ('F32', 'F64', 'I8', 'I16', 'I32', 'I64', 'U8')


class T:           # abstract tensor
    def __init__(self, dtype, shape, cols):
        self.dtype, self.shape, self.cols = dtype, shape, cols      # shape in {'flat', 'col', 'wide'}; cols = 1 for flat / col

    def copy(self, **kw):
        t = T(self.dtype, self.shape, self.cols)
        for k, v in kw.items():
            setattr(t, k, v)
        return t


class Interp:
    def __init__(self, metric_kind, enc, K):
        self.metric_kind, self.enc, self.K = metric_kind, enc, K
        self.env = {}
        self.attrs = {}
        self.warned = False

    def class_cols(self):
        return (1 if self.K == 2 else self.K) if self.enc == 'ZeroOne' else self.K - 1

    def ev(self, e):
        u = ast.unparse(e)
        if isinstance(e, ast.Constant):
            return e.value
        if isinstance(e, ast.Name):
            if e.id in self.env:
                return self.env[e.id]
            raise TranslationError(f'fit coercion: unknown name {e.id}')
        if u == 'self.tuning_metric':
            return None if self.metric_kind == 'NoMetric' else 'metric'
        if u == 'self.classification_mode':
            return self.enc
        if u == 'self.device':
            return 'dev'
        if isinstance(e, ast.Compare) and len(e.ops) == 1:
            a, b = self.ev(e.left), self.ev(e.comparators[0])
            op = e.ops[0]
            if isinstance(op, ast.IsNot):
                return a is not b
            if isinstance(op, ast.Is):
                return a is b
            if isinstance(op, ast.Eq):
                return a == b
            if isinstance(op, ast.In):
                return a in b
            raise TranslationError(f'fit coercion: comparison {u}')
        if isinstance(e, ast.UnaryOp) and isinstance(e.op, ast.Not):
            return not self.ev(e.operand)
        if isinstance(e, ast.BoolOp):
            vals = [self.ev(v) for v in e.values]
            return all(vals) if isinstance(e.op, ast.And) else any(vals)
        if isinstance(e, ast.Call):
            f = ast.unparse(e.func)
            if f == 'torch.as_tensor' and len(e.args) == 1:
                return self.ev(e.args[0])
            if f == 'torch.cat' and u.startswith('torch.cat([y, y_val]'):
                return self.ev(e.args[0].elts[0]).copy()
            if f == 'Metric.from_name' and ast.unparse(e.args[0]) == 'self.tuning_metric':
                return 'metricobj'
            if f == 'len' and isinstance(e.args[0], ast.Attribute) and e.args[0].attr == 'shape':
                t = self.ev(e.args[0].value)
                return 1 if t.shape == 'flat' else 2
            if f == 'max' and len(e.args) == 2:
                return max(self.ev(e.args[0]), self.ev(e.args[1]))
            if f == 'dict':
                return 'dict'
            if f == 'ClassificationConverter':
                kws = {k.arg: ast.unparse(k.value) for k in e.keywords}
                if kws.get('mode') != 'self.classification_mode' or kws.get('n_classes') != 'self.n_classes_':
                    raise TranslationError(f'fit coercion: converter constructed with {kws}')
                lab = kws.get('labels')
                if lab is not None:
                    t = self.ev(ast.parse(lab, mode='eval').body)
                    if t.dtype in FLOATS:
                        raise TranslationError('fit coercion: converter built from floating labels')
                return ('converter', lab is not None)
            if isinstance(e.func, ast.Attribute):
                base, m = e.func.value, e.func.attr
                if m == 'to' and len(e.args) == 1 and not e.keywords:
                    return self.ev(base)
                if m == 'is_floating_point' and not e.args:
                    return self.ev(base).dtype in FLOATS
                if m == 'float' and not e.args:
                    return self.ev(base).copy(dtype='F32')
                if m == 'unsqueeze' and ast.unparse(e.args[0]) == '-1':
                    t = self.ev(base)
                    if t.shape != 'flat':
                        raise TranslationError('fit coercion: unsqueeze of a 2-D target')
                    return t.copy(shape='col', cols=1)
                if m == 'item' and not e.args:
                    return self.ev(base)
                if m == 'max' and not e.args:
                    t = self.ev(base)
                    if t.dtype in FLOATS:
                        raise TranslationError('fit coercion: label maximum of floating targets')
                    return self.K - 1                      # labels 0 .. K-1 occur in y or y_val
                if m == 'labels_to_numerical' and ast.unparse(base) == 'self.class_converter_':
                    t = self.ev(e.args[0])
                    if t.dtype in FLOATS:
                        raise TranslationError('fit coercion: floating labels encoded')
                    return T('F32', 'col' if self.class_cols() == 1 else 'wide', self.class_cols())
        if isinstance(e, ast.BinOp) and isinstance(e.op, ast.Add):
            return self.ev(e.left) + self.ev(e.right)
        if isinstance(e, ast.Attribute) and e.attr == 'task_types' and self.ev(e.value) == 'metricobj':
            return ('reg',) if self.metric_kind == 'RegMetric' else ('class',)
        if isinstance(e, ast.Subscript):
            s = ast.unparse(e.slice)
            if isinstance(e.value, ast.Attribute) and e.value.attr == 'shape' and s == '1':
                return self.ev(e.value.value).cols
            if s in (':, None', '(:, None)'):
                t = self.ev(e.value)
                if t.shape != 'flat':
                    raise TranslationError('fit coercion: [:, None] on a 2-D target')
                return t.copy(shape='col', cols=1)
        if isinstance(e, ast.IfExp):
            return self.ev(e.body) if self.ev(e.test) else self.ev(e.orelse)
        if isinstance(e, ast.Attribute) and ast.unparse(e) in self.attrs:
            return self.attrs[ast.unparse(e)]
        raise TranslationError(f'fit coercion: unsupported expression {u[:100]}')

    def run(self, stmts):
        for st in stmts:
            if isinstance(st, ast.Assign) and len(st.targets) == 1:
                v = self.ev(st.value)
                t = st.targets[0]
                if isinstance(t, ast.Name):
                    self.env[t.id] = v
                elif isinstance(t, ast.Attribute) and isinstance(t.value, ast.Name) and t.value.id == 'self':
                    self.attrs[ast.unparse(t)] = v
                else:
                    raise TranslationError(f'fit coercion: assignment target {ast.unparse(t)}')
            elif isinstance(st, ast.If):
                self.run(st.body if self.ev(st.test) else st.orelse)
            elif isinstance(st, ast.Assert):
                if not self.ev(st.test):
                    raise TranslationError(f'fit coercion: assertion {ast.unparse(st.test)} fails on an accepted representation')
            elif isinstance(st, ast.Expr) and isinstance(st.value, ast.Call) and ast.unparse(st.value.func) == 'print':
                self.warned = True
            else:
                raise TranslationError(f'fit coercion: unsupported statement {ast.unparse(st)[:100]}')


def block(fn):
    body = [s for s in fn.body if not (isinstance(s, ast.Expr) and isinstance(s.value, ast.Constant))]
    src = [ast.unparse(s) for s in body]
    try:
        a = src.index('y = torch.as_tensor(y).to(self.device)')
        b = src.index('self.data_dim = X.shape[1]')
    except ValueError:
        raise TranslationError('fit: coercion block delimiters (y = torch.as_tensor(y).to(self.device) ... self.data_dim = X.shape[1]) not found')
    # feature coercion just before the block
    want = ['if not isinstance(X, torch.Tensor):\n    X = torch.tensor(X, dtype=torch.float32, device=self.device)',
            'if not isinstance(X_val, torch.Tensor):\n    X_val = torch.tensor(X_val, dtype=torch.float32, device=self.device)', 'X = X.to(self.device)', 'X_val = X_val.to(self.device)']
    if src[a - 4:a] != want:
        raise TranslationError(f'fit: feature coercion changed: {src[a - 4:a]}')
    return body[a:b]


def table():
    tree = ast.parse(_src())
    stmts = block(_method(tree, 'xRFM', 'fit'))
    rows = []
    for mk, enc, K, cont, dt, (sh, cols) in itertools.product(('NoMetric', 'RegMetric', 'ClassMetric'), ('ZeroOne', 'Prevalence'), (2, 3, 5), ('Tensor', 'Array'), DTYPES,
                                                              (('flat', 1), ('col', 1), ('wide', 3))):
        if dt not in FLOATS and sh == 'wide':
            continue                                          # integer label matrices are not a representation of the data sets considered
        it = Interp(mk, enc, K)
        y = T(dt, sh, cols)
        it.env.update(y=y, y_val=y.copy(), X='X', X_val='Xv')
        it.run(stmts)
        yo = it.env['y']; yv = it.env['y_val']
        if not isinstance(yo, T) or (yo.dtype, yo.shape, yo.cols) != (yv.dtype, yv.shape, yv.cols):
            raise TranslationError(f'fit coercion: training and validation targets end in different formats for {(mk, enc, K, cont, dt, sh)}')
        ncl = it.attrs.get('self.n_classes_')
        is_class = bool(ncl and ncl > 0)
        rows.append((mk, enc, K, cont, dt, sh, cols, is_class, yo.dtype, yo.cols if yo.shape != 'flat' else 0))
    return rows


# ---------------------------------------------------------------------------------------------------------------------
# Serializer: Python `ast` of the coercion block  ->  a term `gen_prog : list stmt` of the embedded language XV.Model.CoerceLang.
# The abstract execution is then done INSIDE Coq (CoerceLang.run, checked by CoerceLangProofs.prog_okb / prog_ok_sound); the
# Python interpreter above stays as a cross-check.  Purely syntactic, one case per constructor; anything else: TranslationError.
def _coq_str(s):
    if not isinstance(s, str) or not s.isascii() or not s.isprintable():
        raise TranslationError(f'fit coercion (serializer): string {s!r} cannot be written as a Coq string')
    return '"' + s.replace('"', '""') + '"'


def _is_self_attr(e):
    return isinstance(e, ast.Attribute) and isinstance(e.value, ast.Name) and e.value.id == 'self'


def coq_expr(e):
    u = ast.unparse(e)
    bad = TranslationError(f'fit coercion (serializer): expression outside the embedded fragment: {u[:100]}')
    if isinstance(e, ast.Constant):
        v = e.value
        if v is None:
            return 'ENone'
        if isinstance(v, bool):
            return f"(EBool {'true' if v else 'false'})"
        if isinstance(v, int) and 0 <= v < 10 ** 6:
            return f'(EInt {v})'
        if isinstance(v, str):
            return f'(EStr {_coq_str(v)})'
        raise bad
    if isinstance(e, ast.Name):
        return f'(EName {_coq_str(e.id)})'
    if _is_self_attr(e):
        return f'(ESelf {_coq_str(e.attr)})'
    if isinstance(e, ast.Attribute) and e.attr == 'task_types':
        return f'(ETaskTypes {coq_expr(e.value)})'
    if isinstance(e, ast.Compare) and len(e.ops) == 1 and len(e.comparators) == 1:
        op = {ast.Is: 'CIs', ast.IsNot: 'CIsNot', ast.Eq: 'CEq', ast.In: 'CIn'}.get(type(e.ops[0]))
        if op is None:
            raise bad
        return f'(ECmp {op} {coq_expr(e.left)} {coq_expr(e.comparators[0])})'
    if isinstance(e, ast.UnaryOp) and isinstance(e.op, ast.Not):
        return f'(ENot {coq_expr(e.operand)})'
    if isinstance(e, ast.BoolOp) and len(e.values) >= 2:
        c = 'EAnd' if isinstance(e.op, ast.And) else 'EOr'           # n-ary, all operands evaluated: right-nested binary nodes
        out = coq_expr(e.values[-1])
        for v in reversed(e.values[:-1]):
            out = f'({c} {coq_expr(v)} {out})'
        return out
    if isinstance(e, ast.IfExp):
        return f'(EIfExp {coq_expr(e.test)} {coq_expr(e.body)} {coq_expr(e.orelse)})'
    if isinstance(e, ast.BinOp) and isinstance(e.op, ast.Add):
        return f'(EAdd {coq_expr(e.left)} {coq_expr(e.right)})'
    if isinstance(e, ast.Subscript):
        if isinstance(e.value, ast.Attribute) and e.value.attr == 'shape':
            if isinstance(e.slice, ast.Constant) and isinstance(e.slice.value, int) and not isinstance(e.slice.value, bool) and 0 <= e.slice.value < 8:
                return f'(EShapeAt {coq_expr(e.value.value)} {e.slice.value})'
            raise bad
        if ast.unparse(e.slice) in (':, None', '(:, None)'):
            return f'(EColNone {coq_expr(e.value)})'
        raise bad
    if isinstance(e, ast.Call):
        if any(isinstance(a, ast.Starred) for a in e.args) or any(k.arg is None for k in e.keywords):
            raise bad
        f = ast.unparse(e.func)
        nargs, kws = len(e.args), {k.arg: k.value for k in e.keywords}
        if len(kws) != len(e.keywords):
            raise bad
        if f == 'print':
            return 'EPrint'                                             # arguments are not evaluated (as in Interp.run)
        if f == 'torch.as_tensor' and nargs == 1 and not kws:
            return f'(EAsTensor {coq_expr(e.args[0])})'
        if f == 'torch.cat':
            if nargs == 1 and isinstance(e.args[0], ast.List) and len(e.args[0].elts) == 2 and all(k == 'dim' and ast.unparse(v) == '0' for k, v in kws.items()):
                return f'(ECat {coq_expr(e.args[0].elts[0])} {coq_expr(e.args[0].elts[1])})'
            raise bad
        if f == 'Metric.from_name' and nargs == 1 and not kws:
            return f'(EMetricFromName {coq_expr(e.args[0])})'
        if f == 'len' and nargs == 1 and not kws and isinstance(e.args[0], ast.Attribute) and e.args[0].attr == 'shape':
            return f'(ELenShape {coq_expr(e.args[0].value)})'
        if f == 'max' and nargs == 2 and not kws:
            return f'(EMax2 {coq_expr(e.args[0])} {coq_expr(e.args[1])})'
        if f == 'dict' and nargs == 0:
            items = '; '.join(f'({_coq_str(k)}, {coq_expr(v)})' for k, v in kws.items())
            return f'(EDict [{items}])'
        if f == 'ClassificationConverter':
            if nargs == 0 and {'mode', 'n_classes'} <= set(kws) <= {'mode', 'n_classes', 'labels'}:
                lab = f"(Some {coq_expr(kws['labels'])})" if 'labels' in kws else 'None'
                return f"(EConverter {coq_expr(kws['mode'])} {coq_expr(kws['n_classes'])} {lab})"
            raise TranslationError(f'fit coercion (serializer): converter constructed with {u[:100]}')
        if isinstance(e.func, ast.Attribute) and not kws:
            base, m = e.func.value, e.func.attr
            if m == 'to' and nargs == 1:
                return f'(ETo {coq_expr(base)} {coq_expr(e.args[0])})'
            if m == 'is_floating_point' and nargs == 0:
                return f'(EIsFloat {coq_expr(base)})'
            if m == 'float' and nargs == 0:
                return f'(EFloat {coq_expr(base)})'
            if m == 'unsqueeze' and nargs == 1 and ast.unparse(e.args[0]) == '-1':
                return f'(EUnsqueezeLast {coq_expr(base)})'
            if m == 'item' and nargs == 0:
                return f'(EItem {coq_expr(base)})'
            if m == 'max' and nargs == 0:
                return f'(EMaxAll {coq_expr(base)})'
            if m == 'labels_to_numerical' and nargs == 1:
                return f'(ELabelsToNum {coq_expr(base)} {coq_expr(e.args[0])})'
    raise bad


def coq_stmts(stmts, ind='  '):
    if not stmts:
        return '[]'
    return '[ ' + (';\n' + ind + '  ').join(coq_stmt(s, ind + '  ') for s in stmts) + ' ]'


def coq_stmt(st, ind='  '):
    if isinstance(st, ast.Assign) and len(st.targets) == 1:
        t = st.targets[0]
        if isinstance(t, ast.Name):
            return f'SAssign {_coq_str(t.id)} {coq_expr(st.value)}'
        if _is_self_attr(t):
            return f'SAssignSelf {_coq_str(t.attr)} {coq_expr(st.value)}'
        raise TranslationError(f'fit coercion (serializer): assignment target {ast.unparse(t)}')
    if isinstance(st, ast.If):
        return f'SIf {coq_expr(st.test)}\n{ind}  {coq_stmts(st.body, ind + "  ")}\n{ind}  {coq_stmts(st.orelse, ind + "  ")}'
    if isinstance(st, ast.Assert):
        return f'SAssert {coq_expr(st.test)}'                          # the message is only evaluated when the assertion fails (= run fails)
    if isinstance(st, ast.Expr) and isinstance(st.value, ast.Call) and ast.unparse(st.value.func) == 'print':
        return 'SExpr EPrint'
    raise TranslationError(f'fit coercion (serializer): statement outside the embedded fragment: {ast.unparse(st)[:100]}')


def gen_prog(src=None):
    """the coercion block of xRFM.fit (of the current source, or of the source text given) as a Coq term of type list stmt"""
    tree = ast.parse(_src() if src is None else src)
    return coq_stmts(block(_method(tree, 'xRFM', 'fit')))


def generate():
    rows = table()
    prog = gen_prog()
    shp = lambda sh, cols: {'flat': 'Flat', 'col': 'Column'}.get(sh, f'(Wide {cols})')
    items = '; '.join(f"(({mk}, {enc}, {K}%nat, {cont}, {dt}, {shp(sh, cols)}), ({'true' if c else 'false'}, {od}, {oc}%nat))" for mk, enc, K, cont, dt, sh, cols, c, od, oc in rows)
    return f'''(* GENERATED on every run by harness/coerceops.py from /repo/xrfm/xrfm.py (the coercion block of fit) — do not edit *)
From Coq Require Import List Bool Arith String.
Require Import XV.Model.Coerce XV.Model.CoerceLang XV.Proofs.CoerceLangProofs.
Import ListNotations.

(* PART 1 — the block, serialised from the Python ast to the embedded language of XV.Model.CoerceLang; the abstract execution on every
   representation of the targets is done by Coq (CoerceLang.run under CoerceLangProofs.prog_okb), not by Python *)
Definition gen_prog : list stmt := (
  {prog})%string.
Lemma gen_prog_ok : prog_okb gen_prog = true.
Proof. vm_compute. reflexivity. Qed.
(* on every representation the run succeeds, y and y_val end in one format, and (task type, dtype, columns) are those of Coerce.is_class / canon_y *)
Lemma gen_prog_sound : forall r, In r all_reps -> exists env', run (cfg r) (init r) gen_prog = Some env' /\\ outcome env' = expected r.
Proof. exact (prog_ok_sound gen_prog gen_prog_ok). Qed.
(* two representations of the same data (container, float width, integer width, (n,) vs (n,1)) give the same outcome *)
Lemma gen_prog_representation_independent : forall r1 r2, In r1 all_reps -> In r2 all_reps -> same_data r1 r2 ->
  exists g1 g2 o, run (cfg r1) (init r1) gen_prog = Some g1 /\\ run (cfg r2) (init r2) gen_prog = Some g2 /\\ outcome g1 = Some o /\\ outcome g2 = Some o.
Proof. exact (prog_ok_representation_independent gen_prog gen_prog_ok). Qed.
Print Assumptions gen_prog_sound.

(* PART 2 — cross-check: the table computed by the Python abstract interpreter (harness/coerceops.py:Interp) *)
Definition dtype_eqb (a b : dtype) : bool :=
  match a, b with F32, F32 | F64, F64 | I8, I8 | I16, I16 | I32, I32 | I64, I64 | U8, U8 => true | _, _ => false end.
Definition gen_table : list ((metric_kind * encoding * nat * container * dtype * yshape) * (bool * dtype * nat)) := [{items}].
Definition row_ok (r : (metric_kind * encoding * nat * container * dtype * yshape) * (bool * dtype * nat)) : bool :=
  let '((m, e, K, c, d, s), (cls, od, oc)) := r in
  Bool.eqb (is_class m d) cls && dtype_eqb (fst (canon_y m e K c d s)) od && Nat.eqb (snd (canon_y m e K c d s)) oc.
Lemma gen_table_eq_model : forallb row_ok gen_table = true.
Proof. vm_compute. reflexivity. Qed.
Lemma gen_table_size : List.length gen_table = {len(rows)}%nat.
Proof. vm_compute. reflexivity. Qed.
(* the two routes agree: same domain in the same order, and the Python table is what the Coq interpreter computes *)
Lemma gen_table_eq_run : map fst gen_table = all_reps /\\
  map (fun r => match run (cfg r) (init r) gen_prog with Some g => outcome g | None => None end) all_reps = map (fun row => Some (snd row)) gen_table.
Proof. vm_compute. split; reflexivity. Qed.
'''


def check_translation(ck):
    from harness.common import coqc
    try:
        txt = generate()
        p = os.path.join(ck.bdir, 'CoerceOps_gen.v')
        open(p, 'w').write(txt)
        rc, out, dt = coqc(p)
        ck.checker_cmds.append(f'coqc build/{ck.pid}/run_<pid>/CoerceOps_gen.v')
        ck.obligation('CoerceOps_gen.v: the coercion block of xRFM.fit, executed abstractly on every representation of the targets (container x dtype x shape x metric kind x '
                      'encoding x K), yields the task type and canonical target format of the Coq model Coerce.canon_y on the whole finite domain (the block is serialised to the embedded language '
                      'CoerceLang and executed by the Coq interpreter: prog_okb gen_prog = true, prog_ok_sound; the Python abstract interpreter is a cross-check)', 'translation', rc == 0, out)
        return rc == 0
    except TranslationError as e:
        ck.obligation('coerceops translator recognises the source', 'translation', False, str(e))
        return False
