"""C05 — Kernel matrices match their mathematical definitions."""
import json, math
import numpy as np
import torch
import mpmath as mp
from harness.common import *
from harness import oracle as orc
from harness import kreal

ALIASES = {'laplace': 'LaplaceKernel', 'l2': 'LaplaceKernel', 'l2_high_dim': 'LightLaplaceKernel', 'l2_light': 'LightLaplaceKernel',
           'sum_power_laplace': 'SumPowerLaplaceKernel', 'kermac_sum_power_laplace': 'SumPowerLaplaceKernel', 'l1_legacy': 'ProductLaplaceKernel',
           'product_laplace': 'ProductLaplaceKernel', 'l1': 'ProductLaplaceKernel', 'kermac_product_laplace': 'ProductLaplaceKernel',
           'l1_kermac': 'ProductLaplaceKernel', 'lpq_legacy': 'LpqLaplaceKernel', 'lpq': 'LpqLaplaceKernel', 'kermac_lpq_laplace': 'LpqLaplaceKernel',
           'lpq_kermac': 'LpqLaplaceKernel'}


def make_kernel(xr, kn, L, q, p, cmix, power):
    from xrfm.rfm_src import kernels as K
    if kn == 'l2':
        return K.LaplaceKernel(bandwidth=L, exponent=q)
    if kn == 'l2_light':
        return K.LightLaplaceKernel(bandwidth=L, exponent=q)
    if kn == 'l1':
        return K.ProductLaplaceKernel(bandwidth=L, exponent=q)
    if kn == 'lpq':
        return K.LpqLaplaceKernel(bandwidth=L, p=p, q=q)
    return K.SumPowerLaplaceKernel(bandwidth=L, exponent=q, const_mix=cmix, power=power)


def run(ck):
    from harness import xr
    ck.rule = ('Kernel.get_kernel_matrix / RFM.kernel entries (float64 and float32) for all CPU kernels, exponents/norms in range, bandwidths 1e-2..1e3, '
               'transforms None/diagonal/full (symmetric M for the light kernel), random / coincident / far-apart / high-dimensional points: '
               '(a) selected entries certified against the Coq op-sequence model by `interval` lemmas; (b) all entries against the documented closed form '
               '(mpmath); (c) symmetry, unit diagonal, range, row independence; (d) string aliases exhaustively; (f) positive semi-definiteness of Gram matrices of 5-8 points '
               '(random / clustered / duplicated) by exact LDL^T certificates re-checked inside Coq. '
               'non-trivial = transform present or exponent != 1; distinct by hash of inputs')
    ck.trusted += ['Coq 8.16.1 kernel', 'Interval 4.6.1 (`interval`)', 'real-number axioms of the standard library', 'mpmath closed forms (50 digits)']
    ck.assumptions += ['tolerances: float64 1e-9 (light kernel 2e-6 * (sqrt u)^q scale), float32 2e-5', 'positive semi-definiteness: proved for all inputs for the product kernel with exponent 1 (C05_product_laplace_q1_is_psd); for the other kernels certified per Gram matrix (exact certificate checked in Coq, tolerance 1e-6 + grid 2^-41 n), the general Schoenberg statement is not proved']
    ck.check_theorems()
    from harness import kernelops
    kernelops.check_translation(ck)
    rng = np.random.default_rng(ck.seed + 505)
    # (d) aliases
    bad = []
    for s, cls in ALIASES.items():
        got = type(xr.RealRFM(kernel=s, bandwidth=1.0, exponent=1.0, norm_p=1.5, device='cpu', verbose=False).kernel_obj).__name__
        ck.case(dict(kind='alias', alias=s, cls=got), nontrivial=True)
        if got != cls:
            bad.append((s, got, cls))
    if bad:
        ck.violation(f'kernel alias table differs: {bad}', dict(bad=bad), key='alias')
    # every alias, constructed THROUGH THE LEAF MODEL with non-default options (bandwidth, exponent, norm p, constant mix, power): RFM.kernel(x, z) is the documented closed
    #      form with exactly those options
    arng = np.random.default_rng(ck.seed + 515)
    for s_, cls in ALIASES.items():
        kn_ = {'LaplaceKernel': 'l2', 'LightLaplaceKernel': 'l2_light', 'ProductLaplaceKernel': 'l1', 'LpqLaplaceKernel': 'lpq', 'SumPowerLaplaceKernel': 'sum_power'}[cls]
        La, qa, pa, ca, pwa = 1.7, 1.3, 1.5, 0.35, 3
        kw_ = dict(bandwidth=La, exponent=qa, device='cpu', verbose=False)
        if kn_ == 'lpq':
            kw_['norm_p'] = pa
        if kn_ == 'sum_power':
            kw_.update(const_mix=ca, power=pwa)
        try:
            ma = xr.RealRFM(kernel=s_, **kw_)
            Xa = arng.standard_normal((3, 4)); Za = arng.standard_normal((2, 4))
            with xr.quiet():
                Ka = ma.kernel(torch.tensor(Xa), torch.tensor(Za)).double().numpy()
        except Exception as e:
            ck.violation(f'alias {s_!r} with options {kw_} raised {e!r}', dict(alias=s_), key=json.dumps(dict(site='alias-options', alias=s_))); continue
        par_ = dict(L=La, q=qa)
        if kn_ == 'lpq':
            par_['p'] = pa
        if kn_ == 'sum_power':
            par_.update(const_mix=ca, power=pwa)
        worst_ = 0.0
        for a_ in range(3):
            for b_ in range(2):
                want_ = float(orc.kernel_closed_form(kn_, [mp.mpf(float(v)) for v in Xa[a_]], [mp.mpf(float(v)) for v in Za[b_]], None, **par_))
                worst_ = max(worst_, abs(want_ - Ka[a_, b_]))
        ck.case(dict(kind='alias-options', alias=s_, worst=worst_), nontrivial=True); ck.count('alias constructed through the leaf model with non-default options')
        if worst_ > (1e-9 if kn_ != 'l2_light' else 1e-6):
            ck.violation(f'kernel alias {s_!r} built by RFM(kernel=..., {", ".join(f"{k}={v}" for k, v in kw_.items() if k not in ("device", "verbose"))}) differs from the documented closed form with those '
                         f'options by {worst_:.3g}', dict(alias=s_, options={k: v for k, v in kw_.items() if k not in ('device', 'verbose')}, X=Xa.tolist(), Z=Za.tolist(), got=Ka.tolist()),
                         key=json.dumps(dict(site='alias-options', alias=s_)))
    try:
        xr.RealRFM(kernel='no_such_kernel', bandwidth=1.0, exponent=1.0, device='cpu', verbose=False)
        ck.violation('unknown kernel alias accepted', dict(), key='alias-unknown')
    except ValueError:
        pass
    lemmas = []; lmeta = {}
    nconf = ck.n(45, 270)
    kinds = ['l2', 'l2_light', 'l1', 'lpq', 'sum_power']
    for i in range(nconf):
        kn = kinds[i % 5]
        dtype = torch.float64 if i % 3 else torch.float32
        d = int(rng.choice([1, 2, 2, 3, 3, 5, 8])) if i % 11 else 24
        if i % 10 in (4, 9) and (i // 10) % 2 == 0:
            d = [70, 130, 65][(i // 20) % 3]        # high-dimensional points, d not a multiple of typical block sizes (32 / 64 / 128)
        nx, nz = int(rng.integers(2, 5)), int(rng.integers(2, 5))
        L = float(rng.choice([1e-2, 0.3, 1.0, 7.5, 1e3]))
        p = float(rng.choice([1.0, 1.5, 2.0]))
        q = float(rng.choice([0.5, 0.8, 1.0, 1.2, 2.0]))
        if kn == 'lpq':       # every boundary combination of (p, q) is visited in turn, whatever the seed
            p, q = [(1.0, 0.5), (1.0, 1.0), (1.5, 0.8), (1.5, 1.5), (2.0, 1.0), (2.0, 2.0), (2.0, 0.5), (1.5, 1.0), (1.0, 0.8)][(i // 5) % 9]
        if kn == 'l1':
            q = [0.7, 1.0, 1.4, 2.0][(i // 5) % 4]
        if kn in ('l2', 'l2_light'):
            q = [1.0, 0.5, 1.2, 2.0, 0.8][(i // 5) % 5]
        cmix = float(rng.choice([0.0, 0.25])); power = int(rng.choice([1, 2, 3]))
        scale = float(rng.choice([1.0, 1.0, 1e-2, 30.0]))
        X = rng.standard_normal((nx, d)) * scale
        Z = rng.standard_normal((nz, d)) * scale
        if i % 6 == 0:
            Z[0] = X[0]                                 # coincident points
        if i % 7 == 0:
            Z[-1] = X[-1] + 1e4 * L                     # far apart: underflow to 0
        tk = ['none', 'diag', 'full'][i % 3]
        if tk == 'none':
            mat = None
        elif tk == 'diag':
            mat = np.abs(rng.standard_normal(d)) + 0.1
            if d >= 2 and (i // 3) % 2 == 0:
                mat[(i // 6) % d] = 0.0          # exact zeros on the diagonal (features the model ignores)
                if d >= 4:
                    mat[(i // 6 + 2) % d] = 0.0
        else:
            A = rng.standard_normal((d, d)) / math.sqrt(d)
            if kn != 'l2_light' and (i // 3) % 2 == 1:
                # a full transform of shape (d_in, d_out) with d_out != d_in: a projection or a lifting
                dout = [max(1, d - 2), d + 3, 1][(i // 6) % 3]
                if dout == d:
                    dout = d + 1
                A = rng.standard_normal((d, dout)) / math.sqrt(d)
                ck.count('rectangular full transform (d_in != d_out)')
            mat = A @ A.T if kn == 'l2_light' else A          # the light kernel takes M = T^2 (symmetric PSD) directly
        Xt, Zt = torch.tensor(X, dtype=dtype), torch.tensor(Z, dtype=dtype)
        mt = None if mat is None else torch.tensor(mat, dtype=dtype)
        Xe, Ze = Xt.double().numpy(), Zt.double().numpy()
        me = None if mt is None else mt.double().numpy()
        # every other block of five: the bandwidth in force is ASSIGNED after construction (as adaptation, best-iterate restore and
        # load_state_dict do), the constructed one is different
        rebw = ((i // 5) % 2 == 1)
        kobj = make_kernel(xr, kn, L * (2.5 if rebw else 1.0), q, p, cmix, power)
        kobj.bandwidth = L
        ck.count('bandwidth assigned after construction' if rebw else 'bandwidth as constructed')
        with xr.quiet():
            Kmat = kobj.get_kernel_matrix(Xt, Zt, mt).double().numpy()
            Kxx = kobj.get_kernel_matrix(Xt, Xt, mt).double().numpy()
        desc = dict(i=i, kernel=kn, dtype=str(dtype), d=d, L=L, p=p, q=q, transform=tk, scale=scale, cmix=cmix, power=power, seed=ck.seed)
        ck.case(dict(desc, X=Xe.tolist()[:2]), nontrivial=(tk != 'none' or q != 1.0), sample=(i == 4))
        ck.count(f'kernel={kn}'); ck.count(f'transform={tk}'); ck.count(str(dtype)); ck.count(f'd={d}')
        u = 2.0 ** -52 if dtype == torch.float64 else 2.0 ** -23
        base_tol = 1e-9 if dtype == torch.float64 else 2e-5
        if kn == 'l2_light':
            # distances come from ||x||^2 - 2 x.z + ||z||^2: absolute error ~ sqrt(u) * |x| in the distance, amplified by d -> d^q for q < 1
            nrm = float(max(np.abs(Xe).max(), np.abs(Ze).max(), 1e-300)) * (1.0 if me is None else float(np.abs(me).max()) ** 0.5 + 1)
            base_tol = max(base_tol, 8 * (math.sqrt(u) * nrm * math.sqrt(d) / L) ** min(1.0, q) * 4)
        par = dict(L=L, q=q)
        if kn == 'lpq':
            par['p'] = p
        if kn == 'sum_power':
            par.update(const_mix=cmix, power=power)
        mml = None if me is None else ([[mp.mpf(float(v)) for v in r] for r in me] if me.ndim == 2 else [mp.mpf(float(v)) for v in me])
        worst = 0.0
        for a in range(nx):
            for b in range(nz):
                want = orc.kernel_closed_form(kn, [mp.mpf(float(v)) for v in Xe[a]], [mp.mpf(float(v)) for v in Ze[b]], mml, **par)
                err = abs(float(want) - Kmat[a, b])
                worst = max(worst, err)
                if err > base_tol * (1 + 0):
                    ck.violation(f'{kn} kernel entry ({a},{b}) = {Kmat[a, b]!r}, documented closed form gives {float(want)!r} (err {err:.3g} > {base_tol:.3g}) on {desc}',
                                 dict(desc, x=Xe[a].tolist(), z=Ze[b].tolist(), mat=None if me is None else me.tolist(), got=float(Kmat[a, b]), want=float(want)),
                                 key=json.dumps(dict(site='entry', kernel=kn, p=p, q=q if kn == 'lpq' else None)))
        # history: the SAME kernel object evaluated again on other rows held at the same address (staging buffer refilled in place) must give what a
        # fresh kernel object gives on those rows
        if i % 3 == 1:
            bufX = np.ascontiguousarray(Xt.numpy().copy())
            with xr.quiet():
                kobj.get_kernel_matrix(torch.from_numpy(bufX), Zt, mt)
                X2 = (rng.standard_normal(bufX.shape) * scale).astype(bufX.dtype); bufX[:] = X2
                Kre = kobj.get_kernel_matrix(torch.from_numpy(bufX), Zt, mt).double().numpy()
                kfresh = make_kernel(xr, kn, L, q, p, cmix, power)
                Kfr = kfresh.get_kernel_matrix(torch.tensor(X2), Zt, mt).double().numpy()
            ck.count('same kernel object on a refilled buffer')
            if np.max(np.abs(Kre - Kfr)) > base_tol:
                ck.violation(f'{kn}: second evaluation of the same kernel object on a refilled buffer differs from a fresh kernel object on the same rows by {np.max(np.abs(Kre - Kfr)):.3g} on {desc}',
                             dict(desc, dev=float(np.max(np.abs(Kre - Kfr)))), key=json.dumps(dict(site='reuse', kernel=kn)))
        # structure: symmetry, unit diagonal, range, row independence
        probs = []
        if np.max(np.abs(Kxx - Kxx.T)) > base_tol:
            probs.append('Gram matrix not symmetric')
        if np.max(np.abs(np.diag(Kxx) - 1.0)) > base_tol:
            probs.append(f'Gram diagonal {np.diag(Kxx).tolist()} is not 1')
        if Kmat.min() < 0 or Kmat.max() > 1 + base_tol or not np.all(np.isfinite(Kmat)):
            probs.append('entries outside [0,1] or non-finite')
        with xr.quiet():
            row0 = kobj.get_kernel_matrix(Xt[:1], Zt, mt).double().numpy()
        if np.max(np.abs(row0[0] - Kmat[0])) > base_tol:
            probs.append('row 0 depends on the other rows of x')
        if (kn in ('l2', 'l2_light') and q <= 2) or (kn == 'l1' and q <= 2) or (kn == 'lpq'):
            ev = np.linalg.eigvalsh((Kxx + Kxx.T) / 2)
            if ev.min() < -1e-6:
                probs.append(f'Gram matrix has eigenvalue {ev.min()} (PSD test)')
        for p_ in probs:
            ck.violation(p_ + f' on {desc}', dict(desc, problem=p_), key=json.dumps(dict(site='structure', what=p_[:20], kernel=kn)))
        # (a) interval-certified entries against the Coq op-sequence model (low dimension, generic position)
        if (d <= 2 or (d <= 3 and tk != 'full')) and (i % 6 != 0) and (i % 7 != 0) and not (tk == 'diag' and bool(np.any(np.asarray(mat) == 0))):      # `interval` cannot certify |0|^q terms
            for (a, b) in [(0, 0), (nx - 1, nz - 1)][: (2 if ck.tier == 'thorough' else 1)]:
                if np.any(np.abs(Xe[a] - Ze[b]) < 1e-9):
                    continue
                term = kreal.model_term(kn, me, L, q, Xe[a], Ze[b], p=p, const_mix=cmix, power=power)
                tol = base_tol * 2
                lid = len(lemmas)
                lemmas.append((lid, f'Lemma k_{lid} : Rabs ({term} - {coq_R(float(Kmat[a, b]))}) <= {coq_R(tol)}.\nProof. kern_closed. kern_simpl. interval with (i_prec 50). Qed.'))
                lmeta[lid] = dict(desc, a=a, b=b)
    # (e) internal batching: > 20,000 rows of x (ProductLaplaceKernel batches at 20k) -- every row must still be the closed form
    nbig = 20_003
    for j, (kn, tk) in enumerate([(k, t) for k in kinds for t in ('diag', 'full')]):
        d = 3; nz = 3
        L = [0.7, 2.0][j % 2]; q = [1.0, 0.8, 1.4, 1.0, 1.2][j % 5]; p = [1.5, 2.0][j % 2]
        q = min(q, p) if kn == 'lpq' else q
        X = rng.standard_normal((nbig, d)); Z = rng.standard_normal((nz, d))
        if tk == 'diag':
            mat = np.abs(rng.standard_normal(d)) + 0.5
        else:
            A = rng.standard_normal((d, d)) / math.sqrt(d) + np.eye(d)
            mat = A @ A.T if kn == 'l2_light' else A
        Xt, Zt, mt = torch.tensor(X), torch.tensor(Z), torch.tensor(mat)
        kobj = make_kernel(xr, kn, L, q, p, 0.25, 2)
        with xr.quiet():
            Kbig = kobj.get_kernel_matrix(Xt, Zt, mt).numpy()
            rows = [0, 1, 9_999, 19_999, 20_000, 20_001, nbig - 1]
            Ksmall = kobj.get_kernel_matrix(Xt[rows], Zt, mt).numpy()
        desc = dict(kind='big-x', kernel=kn, transform=tk, rows=nbig, d=d, L=L, q=q, p=p, seed=ck.seed)
        ck.case(desc, nontrivial=True); ck.count('big-x (20,003 rows)')
        tolb = 1e-9 if kn != 'l2_light' else 1e-5
        par = dict(L=L, q=q)
        if kn == 'lpq':
            par['p'] = p
        if kn == 'sum_power':
            par.update(const_mix=0.25, power=2)
        mml = [[mp.mpf(float(v)) for v in r] for r in mat] if mat.ndim == 2 else [mp.mpf(float(v)) for v in mat]
        for ri, r in enumerate(rows):
            for b in range(nz):
                want = float(orc.kernel_closed_form(kn, [mp.mpf(float(v)) for v in X[r]], [mp.mpf(float(v)) for v in Z[b]], mml, **par))
                if abs(want - Kbig[r, b]) > tolb or abs(Ksmall[ri, b] - Kbig[r, b]) > tolb:
                    ck.violation(f'{kn} kernel entry ({r},{b}) of a {nbig}-row block = {Kbig[r, b]!r}; closed form {want!r}; same row in a {len(rows)}-row block '
                                 f'{Ksmall[ri, b]!r} on {desc}',
                                 dict(desc, x=X[r].tolist(), z=Z[b].tolist(), mat=mat.tolist(), got=float(Kbig[r, b]), want=want, row=r),
                                 key=json.dumps(dict(site='big-x', kernel=kn)))
    # (e') wide data (1,024 features and more — beyond any width at which an implementation might switch distance routines) with a diagonal / full transform:
    #      every entry against an independent float64 evaluation of the documented closed form
    for wi, dw in enumerate([1024, 1500] if ck.tier == 'quick' else [1023, 1024, 1500, 2049]):
        for kn in ['l2', 'l2_light', 'l1', 'lpq', 'sum_power']:
            for tkw in ('diag', 'full'):
                qw = [1.0, 1.3][wi % 2]; pw_ = 1.5; cw, poww = 0.25, 2
                Xw = rng.standard_normal((3, dw)); Zw = rng.standard_normal((4, dw)); Zw[0] = Xw[0]
                if tkw == 'diag':
                    Tw = rng.uniform(0.2, 1.8, size=dw)
                else:
                    A = rng.standard_normal((dw, dw)) / math.sqrt(dw)
                    Tw = (A + A.T) / 2 + 1.2 * np.eye(dw)                   # symmetric positive definite (the light kernel takes it as M itself)
                U = (Xw[:, None, :] - Zw[None, :, :])
                TU = U * Tw if tkw == 'diag' else U @ Tw
                if kn == 'l2':
                    Dw = np.sqrt((TU ** 2).sum(-1))
                elif kn == 'l2_light':
                    Dw = np.sqrt(np.maximum((U * TU).sum(-1), 0))           # (x-z)^T M (x-z)
                elif kn == 'l1':
                    Dw = (np.abs(TU) ** qw).sum(-1) ** (1 / qw)
                elif kn == 'lpq':
                    Dw = (np.abs(TU) ** pw_).sum(-1) ** (1 / pw_)
                else:
                    Dw = None
                Lw = 1.0 if Dw is None else float(np.median(Dw[Dw > 0]))
                if kn == 'sum_power':
                    want = ((1 - cw) * np.exp(-np.abs(TU) ** qw / Lw ** qw).mean(-1) + cw) ** poww
                else:
                    want = np.exp(-(Dw ** qw) / Lw ** qw)
                kobj = make_kernel(xr, kn, Lw, qw, pw_, cw, poww)
                with xr.quiet():
                    got = kobj.get_kernel_matrix(torch.tensor(Xw), torch.tensor(Zw), torch.tensor(Tw)).double().numpy()
                descw = dict(kind='wide', kernel=kn, d=dw, transform=tkw, q=qw, L=Lw, seed=ck.seed)
                ck.case(descw, nontrivial=True); ck.count(f'wide data d={dw}')
                tolw = 1e-9 if kn != 'l2_light' else 1e-6
                errw = float(np.max(np.abs(got - want)))
                if not (errw <= tolw):
                    a, b = np.unravel_index(np.argmax(np.abs(got - want)), got.shape)
                    ck.violation(f'{kn} kernel on {dw}-dimensional points with a {tkw} transform: entry ({a},{b}) = {got[a, b]!r}, documented closed form gives {want[a, b]!r} (err {errw:.3g}) on {descw}',
                                 dict(descw, got=float(got[a, b]), want=float(want[a, b]), how='X, Z standard normal from default_rng(seed + 505) after the earlier draws; see harness/c05.py section (e\')'),
                                 key=json.dumps(dict(site='entry-wide', kernel=kn, transform=tkw)))
    # (f) positive semi-definiteness, certified inside Coq: Gram matrices of 5-8 points (random, clustered, duplicated), every kernel with
    #     0 < q <= p <= 2; exact integer LDL^T certificate of (G rounded to 2^-40) + tol*I re-checked by vm_compute (psd_cert_okb); theorem
    #     C05_psd_certificate_is_sound turns it into  v^T G v >= -(tol + n 2^-41) |v|^2  for every real vector v.
    from harness import psdcert
    pcases = []; pmeta = {}
    for j in range(ck.n(25, 100)):
        kn = kinds[j % 5]
        n = int(rng.integers(5, 9)); d = int(rng.choice([1, 2, 3, 6]))
        L = float(rng.choice([0.3, 1.0, 4.0]))
        q = [1.0, 0.5, 2.0, 1.5, 0.8][(j // 5) % 5]
        p = 2.0
        if kn == 'lpq':
            p, q = [(1.0, 1.0), (1.5, 1.0), (2.0, 2.0), (2.0, 0.6), (1.5, 1.5), (1.0, 0.5)][(j // 5) % 6]
        cmix = [0.0, 0.25][j % 2]; power = [1, 2, 3][j % 3]
        X = rng.standard_normal((n, d))
        kind = ['random', 'clustered', 'duplicate'][(j // 5) % 3]
        if kind == 'clustered':
            X[1] = X[0] + 1e-3 * rng.standard_normal(d); X[3] = X[2] + 1e-2 * rng.standard_normal(d)
        if kind == 'duplicate':
            X[-1] = X[0]
        tk = ['none', 'diag', 'full'][j % 3]
        if tk == 'none':
            mat = None
        elif tk == 'diag':
            mat = np.abs(rng.standard_normal(d)) + 0.1
        else:
            A = rng.standard_normal((d, d)) / math.sqrt(d)
            mat = A @ A.T if kn == 'l2_light' else A
        Xt = torch.tensor(X); mt = None if mat is None else torch.tensor(mat)
        kobj = make_kernel(xr, kn, L, q, p, cmix, power)
        with xr.quiet():
            G = kobj.get_kernel_matrix(Xt, Xt, mt).double().numpy()
        desc = dict(kind='psd', i=j, kernel=kn, n=n, d=d, L=L, p=p, q=q, transform=tk, points=kind, cmix=cmix, power=power, seed=ck.seed)
        ck.case(dict(desc, X=X.tolist()[:2]), nontrivial=True); ck.count(f'psd certificate: {kn}'); ck.count(f'psd points: {kind}')
        tol = 1e-6
        if kn == 'l2_light':
            # the diagonal of the memory-light Gram matrix is exp(-(rounding of ||x||^2-2x.x+||x||^2)^(q/2) / L^q), below 1 by up to (sqrt(u)|x|/L)^q
            nrm = float(np.abs(X).max()) * (1.0 if mat is None else float(np.abs(mat).max()) ** 0.5 + 1)
            tol = max(tol, 8 * (math.sqrt(2.0 ** -52) * nrm * math.sqrt(d) / L) ** min(1.0, q) * 4)
        tol_int = int(math.ceil(tol * (1 << psdcert.GRID)))
        if not np.all(np.isfinite(G)):
            ck.violation(f'{kn}: Gram matrix has non-finite entries on {desc}', dict(desc), key=json.dumps(dict(site='psd', kernel=kn))); continue
        Kint = psdcert.to_grid(G)
        r = psdcert.ldl_cert(Kint, tol_int)
        if r[0] == 'witness':
            v = np.array(r[1]); val = float(v @ ((G + G.T) / 2) @ v)
            ck.violation(f'{kn}: Gram matrix of {n} points is not positive semi-definite: v^T G v = {val:.3e} for the unit vector v = {[round(x, 4) for x in r[1]]} '
                         f'(tolerance {tol:.1e}) on {desc}', dict(desc, X=X.tolist(), mat=None if mat is None else np.asarray(mat).tolist(), G=G.tolist(), v=r[1], value=val),
                         key=json.dumps(dict(site='psd', kernel=kn)))
            continue
        cid = len(pcases)
        pcases.append((cid, psdcert.coq_case(Kint, tol_int, r[1], r[2])))
        pmeta[cid] = desc
    pres = ck.run_bool_cases('psd', 'From Coq Require Import ZArith List Bool.\nRequire Import XV.Real.PsdCert.\nImport ListNotations.\n', pcases, shard=10, timeout=600)
    badp = [pmeta[k] for k, v in pres.items() if v is not True]
    ck.obligation(f'correspondence: {len(pcases)} Gram matrices returned by the code carry an exact LDL^T certificate accepted by psd_cert_okb inside Coq '
                  '(=> quadratic form >= -(tol + n 2^-41)|v|^2 for every real v, theorem C05_psd_certificate_is_sound)', 'correspondence', not badp, f'first failures: {badp[:3]}')
    res = ck.run_lemma_files('kern', kreal.RHEADER, lemmas, shard=4, timeout=900)
    bad = [lmeta[k] for k, v in res.items() if not v]
    ck.obligation(f'correspondence: {len(lemmas)} kernel matrix entries within tolerance of the Coq op-sequence model (interval-certified)', 'correspondence',
                  not bad, f'first failures: {bad[:3]}')
