"""C20 — Results do not depend on how inputs are represented."""
import json, itertools, copy
import numpy as np
import torch
from harness.common import *

HEADER = '''From Coq Require Import List Bool Arith.
Require Import XV.Model.Coerce.
Import ListNotations.
Definition dtype_eqb (a b : dtype) : bool :=
  match a, b with F32, F32 | F64, F64 | I8, I8 | I16, I16 | I32, I32 | I64, I64 | U8, U8 => true | _, _ => false end.
Definition canon_case (m : metric_kind) (e : encoding) (K : nat) (c : container) (d : dtype) (s : yshape) (cls : bool) (cols : nat) : bool :=
  Bool.eqb (is_class m d) cls && dtype_eqb (fst (canon_y m e K c d s)) F32 && Nat.eqb (snd (canon_y m e K c d s)) cols.
'''
DT = {'float32': 'F32', 'float64': 'F64', 'int8': 'I8', 'int16': 'I16', 'int32': 'I32', 'int64': 'I64', 'uint8': 'U8'}


def _leaf_solver_regime(ck, xr, cases):
    """The same class targets under every leaf solver the fit parameters accept (rfm_params['fit']['solver'] = solve / cholesky / lu / log_reg) and an explicit
    classification metric.  With the kernel logistic solver the leaf outputs are logits, so the decoding of the averaged outputs into labels goes through what the model
    recorded about the targets at coercion time (number of classes, output kind): whatever it records must not depend on whether the caller stored the labels as
    (n,) or (n,1), as float32 / float64 zeros and ones, as a one-hot float matrix or as integers of some width, in a tensor or an array.  Queries are many and the labels
    are noisy, so that a good share of the queries has class probabilities close to 1/2 (small logits of either sign), where a decoding slip shows.
    Oracle (statement): identical predicted labels and probabilities for every representation of the same targets; (n,) integer labels, (n, K) probabilities."""
    import contextlib, io
    rng = np.random.default_rng(ck.seed + 2222)
    SOLVERS = ['log_reg', 'solve', 'log_reg', 'cholesky', 'log_reg', 'lu']
    XREPS = [('tensor', 'float32'), ('array', 'float32'), ('array', 'float64')]
    for j in range(ck.n(6, 18)):
        solver = SOLVERS[j % 6]
        K = 3 if (solver != 'log_reg' and j % 4 == 1) else 2          # the logistic solver is binary
        metric = ['accuracy', 'brier', 'logloss'][(j // 2) % 3]
        n_trees = 2 if j % 6 == 4 else 1
        n = int(rng.integers(100, 180)); d = 3; nv = 45
        L = 10_000 if j % 4 == 2 else int(rng.integers(28, 45))
        X = xr.make_X('random', n, d, rng); Xv = xr.make_X('random', nv, d, rng)
        lab = xr.make_y('class', X, rng, n_classes=K); labv = xr.make_y('class', Xv, rng, n_classes=K)
        # label noise: a fifth of the labels is redrawn -> flatter fitted probabilities, many queries near the decision boundary
        for a in (lab, labv):
            flip = rng.random(len(a)) < 0.2; flip[:K] = False
            a[flip] = rng.integers(0, K, size=int(flip.sum()))
        Q = np.concatenate([xr.make_X('random', 220, d, rng), X[:40]]).astype(np.float32)
        params = xr.default_rfm_params(iters=1, reg=1e-2, bandwidth=3.0)
        params['fit']['solver'] = solver
        ctor = dict(rfm_params=params, max_leaf_size=L, verbose=False, tuning_metric=metric, use_temperature_tuning=False, refill_size=15, n_trees=n_trees)
        desc = dict(kind='leaf solver x representation of class targets', j=j, solver=solver, K=K, n=n, n_val=nv, n_queries=len(Q), L=L, metric=metric,
                    n_trees=n_trees, label_noise=0.2, seed=ck.seed)
        if K == 2:
            reps = [(c, dt, sh) for c in ('tensor', 'array') for dt in ('float32', 'float64') for sh in ('column', 'flat')]
        else:
            reps = [(c, dt, 'onehot') for c in ('tensor', 'array') for dt in ('float32', 'float64')]
        reps += [('array', 'int64', 'flat'), ('tensor', 'int32', 'column'), ('array', 'uint8', 'column'), ('tensor', 'int8', 'flat')]

        def enc(a, dt, sh):
            if sh == 'onehot':
                return np.eye(K, dtype=dt)[a]
            return a.astype(dt).reshape(-1, 1) if sh == 'column' else a.astype(dt)

        ref = None; ref_rejected = None
        for k, (c, dt, sh) in enumerate(reps):
            xc, xdt = XREPS[k % 3]
            rep = dict(X=(xc, xdt), y=(c, dt, sh))
            wx = (lambda a: torch.tensor(a.astype(xdt))) if xc == 'tensor' else (lambda a: a.astype(xdt))
            wy = (lambda a: torch.tensor(a)) if c == 'tensor' else (lambda a: a)
            xr.seed_all(2200 + j + ck.seed)
            model = xr.xRFM(**copy.deepcopy(ctor))
            try:
                with xr.quiet(), xr.recording_rfm() as log, contextlib.redirect_stderr(io.StringIO()):
                    model.fit(wx(X), wy(enc(lab, dt, sh)), wx(Xv), wy(enc(labv, dt, sh)))
                    leaf_inputs = [(r.rec_train[0].numpy().tobytes(), r.rec_train[1].numpy().tobytes(), str(r.rec_train[1].dtype), tuple(r.rec_train[1].shape)) for r in log if r.rec_is_leaf]
                    pred = np.asarray(model.predict(wx(Q))); proba = np.asarray(model.predict_proba(wx(Q)))
            except Exception as e:
                if k == 0:
                    ref_rejected = repr(e); ck.count('leaf-solver regime: configuration rejected in the reference representation')
                elif ref_rejected is not None:
                    ck.count('leaf-solver regime: configuration rejected in every representation alike')
                else:
                    ck.violation(f'representation {rep} of the class targets is rejected ({e!r}) while {ref[1]} is accepted (leaf solver {solver}), on {desc}',
                                 dict(desc, rep=rep, reference=ref[1], error=repr(e)), key=json.dumps(dict(site='leaf-solver-rejected', solver=solver, dtype=dt, shape=sh)))
                continue
            if ref_rejected is not None:
                ck.violation(f'representation {rep} of the class targets is accepted while {reps[0]} is rejected ({ref_rejected}) (leaf solver {solver}), on {desc}',
                             dict(desc, rep=rep, reference=reps[0], error=ref_rejected), key=json.dumps(dict(site='leaf-solver-rejected', solver=solver, dtype=dt, shape=sh)))
                continue
            ck.case(dict(desc, rep=rep), nontrivial=True); ck.count(f'leaf solver {solver}: y={c}/{dt}/{sh}')
            if pred.shape != (len(Q),) or not np.issubdtype(pred.dtype, np.integer) or proba.shape != (len(Q), K) or not np.issubdtype(proba.dtype, np.floating):
                ck.violation(f'leaf solver {solver}, class targets {rep}: predictions have shape {pred.shape} dtype {pred.dtype}, probabilities {proba.shape} {proba.dtype}; expected '
                             f'({len(Q)},) integer labels and ({len(Q)}, {K}) float probabilities on {desc}', dict(desc, rep=rep), key=json.dumps(dict(site='leaf-solver-format', solver=solver)))
                continue
            if leaf_inputs:
                shp = leaf_inputs[0][3]
                cq = (f"canon_case ClassMetric ZeroOne {K}%nat {'Tensor' if c == 'tensor' else 'Array'} {DT[dt]} "
                      f"{dict(flat='Flat', column='Column', onehot=f'(Wide {K}%nat)')[sh]} true {shp[1] if len(shp) > 1 else 0}%nat")
                cases.append((len(cases), cq))
            if ref is None:
                ref = ((leaf_inputs, pred, proba), rep)
                ck.count(f'leaf-solver regime: queries with P(class 1) within 0.12 of 1/2 (reference fit, {solver})', int((np.abs(proba[:, 1] - 0.5) < 0.12).sum()))
                continue
            (leaf0, pred0, proba0), rep0 = ref
            if leaf_inputs != leaf0:
                ck.violation(f'leaf solver {solver}: the canonical leaf inputs for class targets {rep} differ from those for the same targets passed as {rep0} on {desc}',
                             dict(desc, rep=rep, reference=rep0), key=json.dumps(dict(site='leaf-solver-leaf-inputs', solver=solver, dtype=dt, shape=sh)))
            nd = int((pred != pred0).sum()); dp = float(np.max(np.abs(proba.astype(np.float64) - proba0.astype(np.float64))))
            if nd or dp > 0:
                if nd:
                    q = int(np.nonzero(pred != pred0)[0][0])
                    eg = (f'; e.g. query row {q} x={[float(v) for v in Q[q]]}: label {int(pred[q])} vs {int(pred0[q])}, probabilities {[float(v) for v in proba[q]]} vs '
                          f'{[float(v) for v in proba0[q]]}; share of class 1: {float((pred == 1).mean()):.4f} vs {float((pred0 == 1).mean()):.4f}')
                else:
                    q = int(np.argmax(np.abs(proba.astype(np.float64) - proba0.astype(np.float64)).max(axis=1)))
                    eg = f'; e.g. query row {q} x={[float(v) for v in Q[q]]}: probabilities {[float(v) for v in proba[q]]} vs {[float(v) for v in proba0[q]]}'
                ck.violation(f'leaf solver {solver}, metric {metric}: {nd} of {len(Q)} predicted labels (max probability difference {dp:.3g}) for class targets {rep} differ from those for '
                             f'the same targets passed as {rep0}{eg}; on {desc}',
                             dict(desc, rep=rep, reference=rep0, labels_differ=nd, max_proba_diff=dp, query_row=q, query=[float(v) for v in Q[q]],
                                  label=int(pred[q]), label_reference=int(pred0[q]), proba=[float(v) for v in proba[q]], proba_reference=[float(v) for v in proba0[q]],
                                  train_labels_head=[int(v) for v in lab[:12]], X_head=[[float(v) for v in r] for r in X[:3]]),
                             key=json.dumps(dict(site='leaf-solver-representation', solver=solver, dtype=dt, shape=sh)))


def run(ck):
    from harness import xr
    ck.rule = ('for data sets x task types x label encodings x tree depths: the same abstract data passed as float32 tensors / float32 arrays / float64 arrays '
               '(features), tensors or arrays of float32/float64 or int8..int64/uint8 and shapes (n,) / (n,1) (targets); with identical seeds the canonical '
               'leaf inputs (recording RFM subclass) and the predictions must be bitwise equal to the reference representation; output shapes/dtypes; '
               'the observed task type / canonical target format compared with the Coq table.  non-trivial = split tree; distinct by (config, representation)')
    ck.trusted += ['Coq 8.16.1 kernel + vm_compute', 'recording RFM subclass', 'bitwise comparison']
    ck.assumptions += ['float64 inputs hold float32-representable values (same abstract data)', 'equality of predictions across representations is observed']
    ck.check_theorems()
    from harness import coerceops
    coerceops.check_translation(ck)
    from harness import predops
    predops.check_translation(ck)
    rng = np.random.default_rng(ck.seed + 2020)
    cases = []
    nconf = ck.n(8, 40)
    for i in range(nconf):
        task = ['reg', 'class', 'class', 'reg'][i % 4]
        enc = ['zero_one', 'prevalence'][(i // 2) % 2]
        K = [2, 3, 4][i % 3]
        n = int(rng.integers(70, 160)); d = 3
        L = 10_000 if i % 4 == 3 else int(rng.integers(15, 40))
        X = xr.make_X('random', n, d, rng); Xv = xr.make_X('random', 35, d, rng)
        y = xr.make_y(task, X, rng, n_classes=K); yv = xr.make_y(task, Xv, rng, n_classes=K)
        # queries: fresh rows AND the training rows themselves (every split threshold is the projection of one training row, so these sit exactly on / next to
        # the thresholds: routing them must not depend on the width in which the caller happened to store the numbers)
        Q = np.concatenate([xr.make_X('random', 11, d, rng), X]).astype(np.float32)
        tuned = (i % 2 == 0)
        ctor = dict(rfm_params=xr.default_rfm_params(iters=1, reg=1e-2, bandwidth=3.0), max_leaf_size=L, verbose=False, classification_mode=enc,
                    use_temperature_tuning=tuned, refill_size=15, temp_tuning_space=[0.0, 0.05, 0.4, 3.0])
        same_val = (i % 4 == 2)
        desc = dict(i=i, task=task, enc=enc, K=K, n=n, L=L, tuned=tuned, same_objects_as_validation=same_val, seed=ck.seed)
        xreps = [('tensor', 'float32'), ('array', 'float32'), ('array', 'float64')]
        if task == 'reg':
            yreps = [(c, dt, sh) for c in ('tensor', 'array') for dt in ('float32', 'float64') for sh in ('flat', 'column')]
        else:
            yreps = [(c, dt, sh) for c in ('tensor', 'array') for dt in ('int8', 'int16', 'int32', 'int64', 'uint8') for sh in ('flat', 'column')]
        combos = [(xreps[0], yreps[0])] + [(xr_, yr) for xr_ in xreps for yr in yreps][1:]
        if ck.tier == 'quick':
            idx = rng.choice(len(combos) - 1, 7, replace=False) + 1
            combos = [combos[0]] + [combos[k] for k in idx]

        def mk(a, c, dt, sh=None):
            a = a.astype(dt)
            if sh == 'column':
                a = a.reshape(-1, 1)
            return torch.tensor(a) if c == 'tensor' else a

        ref = None
        for (xc, xdt), (yc, ydt, ysh) in combos:
            rep = dict(X=(xc, xdt), y=(yc, ydt, ysh))
            xr.seed_all(2000 + i + ck.seed)
            model = xr.xRFM(**copy.deepcopy(ctor))
            try:
                with xr.quiet(), xr.recording_rfm() as log:
                    if same_val:
                        # the caller re-uses the training data as validation data: the very same objects are passed twice
                        Xo, yo = mk(X, xc, xdt), mk(y, yc, ydt, ysh)
                        model.fit(Xo, yo, Xo, yo)
                    else:
                        model.fit(mk(X, xc, xdt), mk(y, yc, ydt, ysh), mk(Xv, xc, xdt), mk(yv, yc, ydt, ysh))
                    leaf_inputs = [(r.rec_train[0].numpy().tobytes(), r.rec_train[1].numpy().tobytes(), str(r.rec_train[1].dtype), tuple(r.rec_train[1].shape))
                                   for r in log if r.rec_is_leaf]
                    if xc == 'array' and i % 2 == 1:
                        # the caller streams batches through ONE preallocated array: other rows are predicted first, the buffer is refilled in place, then the rows
                        # under test are predicted from the same array object (and once more for the probabilities)
                        qbuf = np.ascontiguousarray(xr.make_X('random', len(Q), d, np.random.default_rng(i)).astype(xdt))
                        model.predict(qbuf)
                        if task == 'class':
                            model.predict_proba(qbuf)
                        qbuf[...] = Q.astype(xdt)
                        pred = np.asarray(model.predict(qbuf))
                        proba = np.asarray(model.predict_proba(qbuf)) if task == 'class' else None
                        ck.count('queries streamed through one refilled array')
                    else:
                        pred = np.asarray(model.predict(mk(Q, xc, xdt)))
                        proba = np.asarray(model.predict_proba(mk(Q, xc, xdt))) if task == 'class' else None
            except Exception as e:
                ck.violation(f'representation {rep} is rejected ({e!r}) on {desc}', dict(desc, rep=rep, error=repr(e)), key=json.dumps(dict(site='rejected', y=ydt)))
                continue
            split = any(t['type'] != 'leaf' for t in model.trees)
            ck.case(dict(desc, rep=rep), nontrivial=split, sample=(i == 0 and ydt in ('float64', 'int8')))
            ck.count(f'X={xc}/{xdt}'); ck.count(f'y={yc}/{ydt}/{ysh}')
            probs = []
            if task == 'reg':
                if pred.shape != (len(Q), 1) or not np.issubdtype(pred.dtype, np.floating):
                    probs.append(f'regression predictions have shape {pred.shape} dtype {pred.dtype}, expected an ({len(Q)}, 1) float array')
            else:
                if pred.shape != (len(Q),) or not np.issubdtype(pred.dtype, np.integer):
                    probs.append(f'classification predictions have shape {pred.shape} dtype {pred.dtype}, expected ({len(Q)},) integer')
                if proba.shape != (len(Q), K):
                    probs.append(f'probabilities have shape {proba.shape}, expected ({len(Q)}, {K})')
            cur = (leaf_inputs, (pred.astype(np.float64) if task == 'reg' and np.issubdtype(pred.dtype, np.floating) else pred).tobytes(), None if proba is None else proba.tobytes(), model.split_temperature)
            if ref is None:
                ref = (cur, rep)
            else:
                if cur[0] != ref[0][0]:
                    probs.append(f'the canonical leaf inputs differ from those of the reference representation {ref[1]}')
                if cur[1] != ref[0][1] or cur[2] != ref[0][2]:
                    probs.append(f'predictions differ from those of the reference representation {ref[1]} (stored temperature {cur[3]} vs {ref[0][3]})')
            for p_ in probs:
                ck.violation(p_ + f' for representation {rep} on {desc}', dict(desc, rep=rep, problem=p_),
                             key=json.dumps(dict(site='representation', what=p_[:30], task=task, ysh=ysh)))
            # Coq table: task type and canonical target format as observed at the leaves
            if leaf_inputs:
                shp = leaf_inputs[0][3]
                cols = shp[1] if len(shp) > 1 else 0       # 0 = the leaves received 1-D targets (never the case at the pinned commit)
                cq = (f"canon_case NoMetric {'ZeroOne' if enc == 'zero_one' else 'Prevalence'} {K}%nat {'Tensor' if yc == 'tensor' else 'Array'} {DT[ydt]} "
                      f"{'Flat' if ysh == 'flat' else 'Column'} {coq_bool(task == 'class')} {cols}%nat")
                cases.append((len(cases), cq))
                if leaf_inputs[0][2] != 'torch.float32':
                    ck.violation(f'leaf targets have dtype {leaf_inputs[0][2]} for representation {rep}', dict(desc, rep=rep), key='leaf-dtype')
    # ---- regression on integer-typed targets (count data) with an explicit regression metric: the targets are numbers, whatever width they are stored in — predictions are
    #      the same float values as for the same numbers stored as float32
    for j in range(ck.n(2, 6)):
        nI, dI = 90, 3
        XI = xr.make_X('random', nI, dI, rng); yI = np.round(3 * np.abs(XI[:, 0]) + rng.random(nI) * 4).astype(np.int64)
        XvI = xr.make_X('random', 30, dI, rng); yvI = np.round(3 * np.abs(XvI[:, 0]) + rng.random(30) * 4).astype(np.int64)
        QI = xr.make_X('random', 15, dI, rng)
        ctorI = dict(rfm_params=xr.default_rfm_params(iters=1, reg=1e-2, bandwidth=3.0), max_leaf_size=[10_000, 35][j % 2], verbose=False, tuning_metric='mse', use_temperature_tuning=False)
        descI = dict(kind='integer-typed regression targets', j=j, n=nI, L=ctorI['max_leaf_size'], seed=ck.seed)
        outsI = {}
        for (yc, ydt, ysh) in [('array', 'float32', 'flat'), ('array', 'int64', 'flat'), ('tensor', 'int32', 'column'), ('array', 'int16', 'column')]:
            mkI = lambda a: (lambda b: torch.tensor(b) if yc == 'tensor' else b)(a.astype(ydt).reshape(-1, 1) if ysh == 'column' else a.astype(ydt))
            xr.seed_all(2950 + j + ck.seed)
            mI = xr.xRFM(**copy.deepcopy(ctorI))
            try:
                with xr.quiet():
                    mI.fit(XI, mkI(yI), XvI, mkI(yvI)); outsI[(yc, ydt, ysh)] = np.asarray(mI.predict(QI))
            except Exception as e:
                ck.violation(f'integer-typed regression targets {(yc, ydt, ysh)} are rejected ({e!r}) on {descI}', dict(descI, rep=[yc, ydt, ysh], error=repr(e)), key=json.dumps(dict(site='rejected', y=ydt, task='reg'))); continue
            ck.case(dict(descI, rep=[yc, ydt, ysh]), nontrivial=True); ck.count(f'regression targets stored as {ydt}')
            pI = outsI[(yc, ydt, ysh)]
            if pI.shape != (len(QI), 1) or not np.issubdtype(pI.dtype, np.floating):
                ck.violation(f'regression predictions for targets stored as {ydt} have shape {pI.shape} dtype {pI.dtype} (first values {pI.reshape(-1)[:4].tolist()}), expected an ({len(QI)}, 1) float array on {descI}',
                             dict(descI, rep=[yc, ydt, ysh]), key=json.dumps(dict(site='representation', what='integer regression targets dtype')))
            elif ('array', 'float32', 'flat') in outsI and not np.array_equal(pI.astype(np.float64), outsI[('array', 'float32', 'flat')].astype(np.float64)):
                ck.violation(f'regression predictions for targets stored as {ydt} differ from those for the same numbers stored as float32 (max diff '
                             f'{float(np.max(np.abs(pI.astype(np.float64) - outsI[("array", "float32", "flat")].astype(np.float64))))}) on {descI}', dict(descI, rep=[yc, ydt, ysh]),
                             key=json.dumps(dict(site='representation', what='integer regression targets')))
    # ---- the caller has set torch's process-wide default dtype to float64: arrays and tensors holding the same float32 numbers still give the same predictions
    drng = np.random.default_rng(ck.seed + 2121)
    old_default = torch.get_default_dtype()
    try:
        torch.set_default_dtype(torch.float64)
        for j in range(ck.n(2, 6)):
            taskD = ['reg', 'class'][j % 2]; nD, dD = 80, 3
            XD = xr.make_X('random', nD, dD, drng); yD = xr.make_y(taskD, XD, drng, n_classes=3); XvD = xr.make_X('random', 30, dD, drng); yvD = xr.make_y(taskD, XvD, drng, n_classes=3)
            QD = xr.make_X('random', 20, dD, drng)
            ctorD = dict(rfm_params=xr.default_rfm_params(iters=1, reg=1e-2, bandwidth=3.0), max_leaf_size=[10_000, 30][(j // 2) % 2], verbose=False, use_temperature_tuning=False)
            descD = dict(kind='default dtype float64', j=j, task=taskD, L=ctorD['max_leaf_size'], seed=ck.seed)
            outsD = {}
            for cont in ('tensor', 'array', 'tensor-fit/array-query'):
                wrapf = (lambda a: torch.tensor(a)) if cont.startswith('tensor') else (lambda a: a.copy())
                wrapq = (lambda a: torch.tensor(a)) if cont == 'tensor' else (lambda a: a.copy())
                xr.seed_all(2990 + j + ck.seed)
                mD = xr.xRFM(**copy.deepcopy(ctorD))
                try:
                    with xr.quiet():
                        mD.fit(wrapf(XD), wrapf(yD), wrapf(XvD), wrapf(yvD)); outsD[cont] = np.asarray(mD.predict(wrapq(QD))).astype(np.float64)
                except Exception as e:
                    ck.violation(f'with the default dtype set to float64, {cont} inputs are rejected ({e!r}) on {descD}', dict(descD, container=cont, error=repr(e)),
                                 key=json.dumps(dict(site='rejected', what='default-dtype'))); continue
                ck.case(dict(descD, container=cont), nontrivial=True); ck.count('default dtype float64')
            for cont in ('array', 'tensor-fit/array-query'):
                if 'tensor' in outsD and cont in outsD and not np.array_equal(outsD['tensor'], outsD[cont]):
                    ck.violation(f'with the default dtype set to float64, {cont} inputs give other predictions than float32 tensors holding the same numbers (max diff '
                                 f'{float(np.max(np.abs(outsD["tensor"] - outsD[cont])))}) on {descD}', dict(descD, container=cont), key=json.dumps(dict(site='representation', what='default-dtype')))
    finally:
        torch.set_default_dtype(old_default)
    # ---- a label alphabet that fills the integer width it is stored in: 128 classes in int8 (largest label 127 = the largest int8), 256 classes in uint8 — the width
    #      is a storage detail of the caller, the fitted predictions are those of the same labels stored in 64 bits
    for j, (Kw, wdt) in enumerate([(128, 'int8'), (256, 'uint8')]):
        nW = 2 * Kw + 7; d = 3
        Xw = xr.make_X('random', nW, d, rng); labw = np.arange(nW) % Kw; rng.shuffle(labw)
        Xvw = xr.make_X('random', Kw, d, rng); labvw = rng.permutation(Kw)
        Qw = xr.make_X('random', 20, d, rng)
        ctorw = dict(rfm_params=xr.default_rfm_params(iters=0, reg=1e-2, bandwidth=3.0), max_leaf_size=10_000, verbose=False, use_temperature_tuning=False,
                     classification_mode=['zero_one', 'prevalence'][j % 2])
        descw = dict(kind='label alphabet fills the integer width', K=Kw, width=wdt, n=nW, enc=ctorw['classification_mode'], seed=ck.seed)
        outs = {}
        for (yc, ydt, ysh) in [('array', 'int64', 'flat'), ('array', wdt, 'flat'), ('tensor', wdt, 'column')]:
            rep = dict(y=(yc, ydt, ysh))
            mkw = lambda a: (lambda b: torch.tensor(b) if yc == 'tensor' else b)(a.astype(ydt).reshape(-1, 1) if ysh == 'column' else a.astype(ydt))
            xr.seed_all(2900 + j + ck.seed)
            mw = xr.xRFM(**copy.deepcopy(ctorw))
            try:
                with xr.quiet():
                    mw.fit(Xw, mkw(labw), Xvw, mkw(labvw))
                    outs[(yc, ydt, ysh)] = (np.asarray(mw.predict(Qw)), np.asarray(mw.predict_proba(Qw)))
            except Exception as e:
                ck.violation(f'representation {rep} is rejected ({e!r}) on {descw}', dict(descw, rep=rep, error=repr(e)), key=json.dumps(dict(site='rejected', y=ydt)))
                continue
            ck.case(dict(descw, rep=rep), nontrivial=True); ck.count(f'{Kw} classes stored as {ydt}')
            pw, prw = outs[(yc, ydt, ysh)]
            if prw.shape != (len(Qw), Kw) or pw.shape != (len(Qw),):
                ck.violation(f'{Kw} classes stored as {ydt}: predictions / probabilities have shapes {pw.shape} / {prw.shape}, expected ({len(Qw)},) / ({len(Qw)}, {Kw}) on {descw}',
                             dict(descw, rep=rep), key=json.dumps(dict(site='representation', what='width-filling alphabet shape')))
            elif ('array', 'int64', 'flat') in outs and (yc, ydt, ysh) != ('array', 'int64', 'flat'):
                p0, pr0 = outs[('array', 'int64', 'flat')]
                if not np.array_equal(p0, pw) or not np.array_equal(pr0, prw):
                    ck.violation(f'{Kw} classes stored as {ydt} ({yc}, {ysh}) give other predictions than the same labels stored as int64 '
                                 f'({int((p0 != pw).sum())} of {len(pw)} labels differ) on {descw}', dict(descw, rep=rep),
                                 key=json.dumps(dict(site='representation', what='width-filling alphabet')))
    # ---- targets that are already binarised / one-hot FLOATS, fitted under a classification metric (the library's documented second way of passing
    #      classification targets): float32 / float64, tensors / arrays, (n,) / (n,1) for the binary case, (n,K) one-hot; split and single-leaf trees
    for i in range(ck.n(4, 12)):
        K = [2, 3][i % 2]
        n = int(rng.integers(90, 150)); d = 3
        L = 10_000 if i % 4 == 3 else int(rng.integers(20, 40))
        X = xr.make_X('random', n, d, rng); Xv = xr.make_X('random', 40, d, rng)
        lab = xr.make_y('class', X, rng, n_classes=K); labv = xr.make_y('class', Xv, rng, n_classes=K)
        Q = np.concatenate([xr.make_X('random', 9, d, rng), X[:20]]).astype(np.float32)
        metric = ['brier', 'accuracy', 'logloss'][i % 3]
        ctor = dict(rfm_params=xr.default_rfm_params(iters=1, reg=1e-2, bandwidth=3.0), max_leaf_size=L, verbose=False, tuning_metric=metric,
                    use_temperature_tuning=False, refill_size=15)
        desc = dict(kind='float-coded classes', i=i, K=K, n=n, L=L, metric=metric, seed=ck.seed)
        if K == 2:
            reps = [(c, dt, sh) for c in ('tensor', 'array') for dt in ('float32', 'float64') for sh in ('column', 'flat')]
            enc = lambda a, dt, sh: a.astype(dt).reshape(-1, 1) if sh == 'column' else a.astype(dt)
        else:
            reps = [(c, dt, 'onehot') for c in ('tensor', 'array') for dt in ('float32', 'float64')]
            enc = lambda a, dt, sh: np.eye(K, dtype=dt)[a]
        ref = None
        for (c, dt, sh) in reps:
            rep = dict(y=(c, dt, sh))
            wrap = (lambda a: torch.tensor(a)) if c == 'tensor' else (lambda a: a)
            xr.seed_all(2100 + i + ck.seed)
            model = xr.xRFM(**copy.deepcopy(ctor))
            try:
                with xr.quiet(), xr.recording_rfm() as log:
                    import contextlib, io
                    with contextlib.redirect_stderr(io.StringIO()):
                        model.fit(wrap(X), wrap(enc(lab, dt, sh)), wrap(Xv), wrap(enc(labv, dt, sh)))
                    leaf_inputs = [(r.rec_train[0].numpy().tobytes(), r.rec_train[1].numpy().tobytes(), str(r.rec_train[1].dtype), tuple(r.rec_train[1].shape)) for r in log if r.rec_is_leaf]
                    pred = np.asarray(model.predict(wrap(Q))); proba = np.asarray(model.predict_proba(wrap(Q)))
            except Exception as e:
                ck.violation(f'representation {rep} of float-coded class targets is rejected ({e!r}) while {reps[0]} is accepted, on {desc}', dict(desc, rep=rep, error=repr(e)),
                             key=json.dumps(dict(site='rejected-float-class', dtype=dt, shape=sh)))
                continue
            ck.case(dict(desc, rep=rep), nontrivial=any(t['type'] != 'leaf' for t in model.trees)); ck.count(f'float-coded classes y={c}/{dt}/{sh}')
            cur = (leaf_inputs, pred.tobytes(), proba.tobytes())
            if pred.shape != (len(Q),) or not np.issubdtype(pred.dtype, np.integer) or proba.shape != (len(Q), K):
                ck.violation(f'float-coded class targets {rep}: predictions have shape {pred.shape} dtype {pred.dtype}, probabilities {proba.shape} on {desc}', dict(desc, rep=rep),
                             key=json.dumps(dict(site='float-class-format')))
            if ref is None:
                ref = (cur, rep)
            elif cur != ref[0]:
                what = 'canonical leaf inputs' if cur[0] != ref[0][0] else 'predictions'
                ck.violation(f'{what} for float-coded class targets {rep} differ from those of {ref[1]} on {desc}', dict(desc, rep=rep),
                             key=json.dumps(dict(site='float-class-representation', dtype=dt, shape=sh)))
    _leaf_solver_regime(ck, xr, cases)
    res = ck.run_bool_cases('canon', HEADER, cases, shard=400)
    bad = [k for k, v in res.items() if v is not True]
    ck.obligation(f'correspondence: task type and canonical target format observed at the leaves == Coq canon_y / is_class on {len(cases)} representations',
                  'correspondence', not bad, f'case ids {bad[:5]}')
