"""C08 — Prediction-time routing agrees with training-time assignment."""
import json
from fractions import Fraction
import numpy as np
import torch
from harness.common import *
from harness import oracle as orc

HEADER = '''From Coq Require Import QArith List Bool ZArith.
Require Import XV.Model.Split XV.Model.Tree XV.Model.Rank.
Import ListNotations. Open Scope Q_scope.
'''


def nl(xs):
    return coq_list([coq_nat(v) for v in xs])


def coq_ttree(node):
    if node['kind'] == 'leaf':
        return f"(TLeaf {nl(node['ids'])})"
    l, r = node['children']
    v = coq_Qlist(node['direction'].reshape(-1).tolist())
    b = coq_Q(float(node['threshold']))
    return f"(TNode {nl(node['ids'])} {v} {b} {coq_ttree(l)} {coq_ttree(r)})"


def run(ck):
    from harness import xr
    ck.rule = ('real xRFM.fit (all split methods, overlap 0..0.45, depth 1-4, odd and even node sizes) with the recording wrapper; '
               'the recorded tree (ids per node, direction, threshold) is checked in Coq by tokb (rank halves + lower median, slack e) whose '
               'soundness for routing is the theorem; real prediction-time routing of the training rows is compared with the leaf that '
               'received them and with the Coq route; validation assignment is compared with the <= rule.  '
               'non-trivial = >=1 split; distinct by config+node sizes')
    ck.trusted += ['Coq 8.16.1 kernel + vm_compute', 'harness/xr.py recorders', 'exact Fraction projections']
    ck.assumptions += ['torch.sort sorts (any tie order); torch.median returns the lower median',
                       'slack e = d*2^-20*(max sum|x_i v_i| + |b|) covers float32 rounding of projections; rows within 2e of a threshold are excluded and counted']
    ck.check_theorems()
    from harness import splitarith
    splitarith.check_translation(ck)
    rng = np.random.default_rng(ck.seed + 808)
    nfits = ck.n(20, 160)
    cases = []
    meta = {}
    cid = 0
    for i in range(nfits):
        exact = (i % 3 == 0)
        L = int(rng.integers(6, 30))
        n = int(rng.integers(L + 1, min(14 * L, 330)))
        if i % 4 == 1:
            n |= 1                      # force an odd root
        d = int(rng.integers(2, 5))
        f = float(rng.choice([0.0, 0.0, 0.05, 0.1, 0.25, 0.45])) if L >= 10 else 0.0
        if f > 0 and (1 - 2 * f) * L < 4:
            f = 0.0
        if f >= 0.25:
            n = min(n, 4 * L)        # overlapping children shrink slowly: keep the tree (and the Coq work) small
        elif f > 0:
            n = min(n, 8 * L)
        method = ['top_vector_agop_on_subset', 'random_pca', 'linear', 'pca', 'rf_criterion', 'random', 'fixed_vector',
                  'random_agop_on_subset', 'top_pc_agop_on_subset', 'random_global_agop'][i % 10]
        tree_iters = 0
        kw = {}
        if exact:
            X = xr.make_X('distinct_grid', n, d, rng)
            method = 'fixed_vector' if i % 2 else 'rf_criterion'
            if method == 'fixed_vector':
                kw['fixed_vector'] = torch.tensor(rng.integers(-3, 4, size=d).astype(np.float32))
                if float(kw['fixed_vector'].abs().sum()) == 0:
                    kw['fixed_vector'][0] = 1.0
        else:
            X = xr.make_X('random', n, d, rng)
            if i % 5 == 3:
                X = (X * np.float32(1e-5)).astype(np.float32)        # features of small magnitude: thresholds and margins scale with the data
            if method == 'fixed_vector':
                kw['fixed_vector'] = torch.tensor(rng.standard_normal(d).astype(np.float32))
        if method == 'random_global_agop':
            tree_iters = [1, 2][(i // 10) % 2]                 # the held tree is a copy of the best of 1 + tree_iters builds
        forced = (i % 11 == 7)
        if forced:
            # an overlap band that takes almost the whole node (f close to 1/2 on a small node, reachable through a requested number of splits): the right child has no
            # sample of its own, the left child one — every sample still lands in a leaf that received it
            n = int(rng.integers(9, 16)); L = 10_000; f = [0.45, 0.4, 0.45][(i // 11) % 3]; n = n if f == 0.45 else int(rng.integers(5, 8))
            X = xr.make_X('distinct_grid' if exact else 'random', n, d, rng); kw['number_of_splits'] = [1, 2][(i // 11) % 2]; tree_iters = 0
            if method == 'random_global_agop':
                method = 'pca'
        y = xr.make_y('reg', X, rng)
        nv = int(rng.integers(5, 60))
        Xv = xr.make_X('distinct_grid' if exact else 'random', nv, d, rng)
        if not exact and i % 5 == 3:
            Xv = (Xv * np.float32(1e-5)).astype(np.float32)
        yv = xr.make_y('reg', Xv, rng)
        desc = dict(i=i, n=n, L=L, d=d, f=f, method=method, exact=exact, tree_iters=tree_iters, small_magnitude=bool((not exact) and i % 5 == 3), forced_splits=kw.get('number_of_splits'), configured_temperature=(0.05 if i % 6 == 2 else None), seed=ck.seed)
        xr.seed_all(8000 + i + ck.seed)
        model = xr.xRFM(rfm_params=xr.default_rfm_params(iters=(1 if tree_iters else 0), reg=1e-2), max_leaf_size=L, split_method=method,
                        overlap_fraction=f, verbose=False, use_temperature_tuning=False, refill_size=10, n_tree_iters=tree_iters,
                        # every sixth fit: a soft-routing temperature is configured (it concerns prediction only: the caller's validation points are still ROUTED by the <= rule)
                        **(dict(split_temperature=0.05) if i % 6 == 2 else {}), **kw)
        Xt = torch.tensor(X)
        rec = xr.fit_recorded(model, Xt, torch.tensor(y), torch.tensor(Xv), torch.tensor(yv), timeout=120, tolerate_empty_val=True)
        model.split_temperature = None          # the routing that is examined below is the hard one
        if rec.error is not None:
            ck.violation(f'fit did not return ({rec.error}) on {desc}', dict(desc, error=rec.error), key=json.dumps(dict(site='fit')))
            continue
        root = xr.match_build(rec, model.trees[0])
        if root is None:
            ck.violation(f'the held tree is none of the {len(rec.trees)} trees that were built, on {desc}', dict(desc), key=json.dumps(dict(site='held-tree')))
            continue
        ck.count(f'tree_iters={tree_iters}')
        nodes = [nd for nd in xr.walk(root) if nd['kind'] != 'leaf']
        ck.count(f'method={method}'); ck.count(f'f={f}'); ck.count('exact-arith' if exact else 'float-band')
        ck.count(f'depth={orc.tree_depth(model.trees[0])}')
        for nd in nodes:
            ck.count('odd node' if nd['n'] % 2 else 'even node')
        # slack
        if exact:
            e = Fraction(0)
        else:
            e = Fraction(0)
            for nd in nodes:
                v = nd['direction'].double()
                s = float((nd['X'].double().abs() @ v.abs()).max()) + abs(float(nd['threshold']))
                e = max(e, Fraction(s * d * 2.0 ** -20))
        Xrows = [orc.frow(Xt[j]) for j in range(n)]
        # ---- oracle on the statement: real prediction-time routing of training rows vs leaf that received them ----
        tree = model.trees[0]
        groups, gidx, gleaves = model._get_leaf_groups_and_models_on_samples(Xt, tree)
        recv_of_leaf = {id(held): set(lf['ids']) for lf, held in xr.leaf_pairs(root, tree)}
        lids = orc.assign_leaf_ids(tree)
        reached = {}
        for idx, lf in zip(gidx, gleaves):
            for j in idx.tolist():
                reached[j] = lf
        n_checked = 0
        route_rows = []
        for j in range(n):
            # tied with a threshold on its route? (exact arithmetic, 2e band as in the theorem)
            node = tree; near = False
            while node['type'] != 'leaf':
                v = orc.frow(node['split_direction']); b = orc.F(node['split_point'])
                p = sum((a * c for a, c in zip(Xrows[j], v)), Fraction(0))
                if abs(p - b) <= 2 * e:
                    near = True
                node = node['left'] if p <= b else node['right']
            if near:
                ck.skip('training rows within 2e of (or tied with) a threshold')
                continue
            n_checked += 1
            route_rows.append(j)
            lf = reached[j]
            if j not in recv_of_leaf[id(lf)]:
                ck.violation(f'training sample {j} is routed at prediction time to a leaf that did not receive it in training, on {desc}',
                             dict(desc, sample=j, row=X[j].tolist()), key=json.dumps(dict(site='train-vs-predict-routing', f=f, odd=bool(n % 2))))
            if lids[id(lf)] != lids[id(node)]:
                ck.violation(f'real routing of sample {j} reaches leaf {lids[id(lf)]} but exact <= routing reaches {lids[id(node)]} on {desc}',
                             dict(desc, sample=j), key=json.dumps(dict(site='routing-vs-exact')))
        # validation assignment
        for nd in nodes:
            v = orc.frow(nd['direction']); b = orc.F(nd['threshold'])
            lchild, rchild = nd['children']
            lset = {r.numpy().tobytes() for r in lchild['Xval']}
            rset = {r.numpy().tobytes() for r in rchild['Xval']}
            if lchild['nval'] + rchild['nval'] != nd['nval']:
                ck.violation(f'validation points lost or duplicated at a split on {desc}', dict(desc), key='val-count')
            for r in nd['Xval']:
                p = sum((a * c for a, c in zip(orc.frow(r), v)), Fraction(0))
                key = r.numpy().tobytes()
                if p + e < b and key not in lset or p > b + e and key not in rset:
                    ck.violation(f'validation point with projection {float(p)} vs threshold {float(b)} assigned against the <= rule on {desc}',
                                 dict(desc, row=r.tolist()), key=json.dumps(dict(site='val-routing')))
        ck.case(dict(desc, node_sizes=[nd['n'] for nd in nodes], checked=n_checked), nontrivial=len(nodes) >= 1, sample=len(nodes) >= 3)
        # ---- Coq ----
        Xdef = f'Definition Xr_{cid} : list (list Q) := {coq_Qmat(X.tolist())}.\nDefinition X_{cid} (i : nat) : list Q := nth i Xr_{cid} [].\nDefinition T_{cid} := {coq_ttree(root)}.'
        eq = coq_Q(e)
        sub = route_rows[:: max(1, len(route_rows) // 40)]
        conj = [f'tokb X_{cid} {eq} T_{cid}',
                f'forallb (fun i => untiedb {eq} T_{cid} (X_{cid} i) && existsb (Nat.eqb i) (route (erase T_{cid}) (X_{cid} i))) {nl(sub)}']
        for nd in nodes:
            lchild, rchild = nd['children']
            conj.append(f"val_routed_okb {eq} {coq_Qlist(nd['direction'].reshape(-1).tolist())} {coq_Q(float(nd['threshold']))} "
                        f"{coq_Qmat(lchild['Xval'].tolist())} {coq_Qmat(rchild['Xval'].tolist())}")
        cases.append((cid, ' && '.join(f'({c})' for c in conj), Xdef)); meta[cid] = desc; cid += 1
    res = ck.run_bool_cases('rank', HEADER, cases, shard=4)
    bad = [meta[k] for k, v in res.items() if v is not True]
    ck.obligation(f'correspondence: {len(cases)} recorded real trees satisfy tokb (rank halves, lower-median threshold), untied training rows '
                  f'are in the leaf the Coq route reaches, validation rows follow the <= rule', 'correspondence', not bad,
                  f'first mismatches: {bad[:4]}')
