"""C08 — Prediction-time routing agrees with training-time assignment."""
import json
from fractions import Fraction
import numpy as np
import torch
from harness.common import *
from harness import oracle as orc

HEADER = '''From Coq Require Import QArith List Bool ZArith.
Require Import XV.Model.Split XV.Model.Tree XV.Model.Rank.
Import ListNotations. Open Scope Q_scope.
'''


def nl(xs):
    return coq_list([coq_nat(v) for v in xs])


def coq_ttree(node):
    if node['kind'] == 'leaf':
        return f"(TLeaf {nl(node['ids'])})"
    l, r = node['children']
    v = coq_Qlist(node['direction'].reshape(-1).tolist())
    b = coq_Q(float(node['threshold']))
    return f"(TNode {nl(node['ids'])} {v} {b} {coq_ttree(l)} {coq_ttree(r)})"


def _rowkeys(t):
    """multiset (as a dict bytes -> multiplicity) of the rows of a 2-D tensor"""
    out = {}
    for r in t.detach().cpu():
        k = r.numpy().tobytes()
        out[k] = out.get(k, 0) + 1
    return out


def received_rows(leaf_node, Xt):
    """Which training rows did this leaf RECEIVE during training?  Read off what was actually handed to the leaf's model
    (the recording RFM subclass keeps the arguments of fit): the rows it was fitted on, plus the rows that appear in its validation
    set beyond the caller's validation points that were routed to the node (training rows the library moved there when it refilled
    the validation set: the leaf is tuned on them).  A row that entered the node but was handed to the model in neither role was not
    received by the leaf -- whatever the node's index bookkeeping says.  Returns (received ids, ids that entered and were dropped)."""
    rfm = leaf_node['rfm']
    fitted = _rowkeys(rfm.rec_train[0])
    tuned = _rowkeys(rfm.rec_val[0])
    for k, m in _rowkeys(leaf_node['Xval']).items():        # the caller's validation points of this node are not training rows
        if k in tuned:
            tuned[k] -= m
    got, dropped = set(), []
    for j in leaf_node['ids']:
        k = Xt[j].numpy().tobytes()
        if fitted.get(k, 0) > 0 or tuned.get(k, 0) > 0:
            got.add(j)
        else:
            dropped.append(j)
    return got, dropped


# growth budgets (seconds) of the budget regime: used up on entry, used up after the first split or two, comfortably large
BUDGETS = [0.0, 1e-3, 2.5e-4, 1e-6, 0.05, 3600.0, 0.0, 1e-4]
BUDGET_METHODS = ['top_vector_agop_on_subset', 'pca', 'random_agop_on_subset', 'rf_criterion', 'top_pc_agop_on_subset', 'random_global_agop',
                  'random', 'fixed_vector']


def run(ck):
    from harness import xr
    ck.rule = ('real xRFM.fit (all split methods, overlap 0..0.45, depth 1-4, odd and even node sizes) with the recording wrapper; '
               'the recorded tree (ids per node, direction, threshold) is checked in Coq by tokb (rank halves + lower median, slack e) whose '
               'soundness for routing is the theorem; real prediction-time routing of the training rows is compared with the leaf that '
               'received them (= whose model was fitted or tuned on them, read off the arguments of the leaf fit) and with the Coq route; validation '
               'assignment is compared with the <= rule; budget regime: the same under time_limit_s from 0 to ample, one and two trees, tree iterations.  '
               'non-trivial = >=1 split; distinct by config+node sizes')
    ck.trusted += ['Coq 8.16.1 kernel + vm_compute', 'harness/xr.py recorders', 'exact Fraction projections']
    ck.assumptions += ['torch.sort sorts (any tie order); torch.median returns the lower median',
                       'slack e = d*2^-20*(max sum|x_i v_i| + |b|) covers float32 rounding of projections; rows within 2e of a threshold are excluded and counted']
    ck.check_theorems()
    from harness import splitarith
    splitarith.check_translation(ck)
    rng = np.random.default_rng(ck.seed + 808)
    nfits = ck.n(20, 160)
    # the budget regime: fits under a growth budget (time_limit_s) -- from "used up before the first split" over "used up one or two levels down"
    # to "never reached" -- over split methods, overlap, several trees sharing the budget and tree iterations.  Whatever the builder does
    # when a subtree runs out of budget, the statement is the same: an untied training row must reach a leaf that was handed that row.
    nbudget = ck.n(8, 40)
    cases = []
    meta = {}
    cid = 0
    for i in range(nfits + nbudget):
        budget = i >= nfits
        kb = i - nfits
        exact = (i % 3 == 0) if not budget else (kb % 4 == 3)
        L = int(rng.integers(6, 30))
        n = int(rng.integers(L + 1, min(14 * L, 330)))
        if i % 4 == 1:
            n |= 1                      # force an odd root
        d = int(rng.integers(2, 5))
        f = float(rng.choice([0.0, 0.0, 0.05, 0.1, 0.25, 0.45])) if L >= 10 else 0.0
        if f > 0 and (1 - 2 * f) * L < 4:
            f = 0.0
        if f >= 0.25:
            n = min(n, 4 * L)        # overlapping children shrink slowly: keep the tree (and the Coq work) small
        elif f > 0:
            n = min(n, 8 * L)
        method = ['top_vector_agop_on_subset', 'random_pca', 'linear', 'pca', 'rf_criterion', 'random', 'fixed_vector',
                  'random_agop_on_subset', 'top_pc_agop_on_subset', 'random_global_agop'][i % 10]
        tree_iters = 0
        kw = {}
        time_limit_s = None
        if budget:
            method = BUDGET_METHODS[kb % 8]
            time_limit_s = BUDGETS[(kb + kb // 8) % 8]
            if kb % 8 >= 6:
                kw['n_trees'] = 2                      # the budget is shared between the trees (a used-up budget ends the loop after the first one)
        if exact:
            X = xr.make_X('distinct_grid', n, d, rng)
            method = ('fixed_vector' if i % 2 else 'rf_criterion') if not budget else ('rf_criterion' if kb % 8 == 3 else 'fixed_vector')
            if method == 'fixed_vector':
                kw['fixed_vector'] = torch.tensor(rng.integers(-3, 4, size=d).astype(np.float32))
                if float(kw['fixed_vector'].abs().sum()) == 0:
                    kw['fixed_vector'][0] = 1.0
        else:
            X = xr.make_X('random', n, d, rng)
            if i % 5 == 3:
                X = (X * np.float32(1e-5)).astype(np.float32)        # features of small magnitude: thresholds and margins scale with the data
            if method == 'fixed_vector':
                kw['fixed_vector'] = torch.tensor(rng.standard_normal(d).astype(np.float32))
        if method == 'random_global_agop':
            tree_iters = [1, 2][(i // 10) % 2]                 # the held tree is a copy of the best of 1 + tree_iters builds
        forced = (i % 11 == 7) and not budget
        if forced:
            # an overlap band that takes almost the whole node (f close to 1/2 on a small node, reachable through a requested number of splits): the right child has no
            # sample of its own, the left child one — every sample still lands in a leaf that received it
            n = int(rng.integers(9, 16)); L = 10_000; f = [0.45, 0.4, 0.45][(i // 11) % 3]; n = n if f == 0.45 else int(rng.integers(5, 8))
            X = xr.make_X('distinct_grid' if exact else 'random', n, d, rng); kw['number_of_splits'] = [1, 2][(i // 11) % 2]; tree_iters = 0
            if method == 'random_global_agop':
                method = 'pca'
        y = xr.make_y('reg', X, rng)
        nv = int(rng.integers(5, 60))
        Xv = xr.make_X('distinct_grid' if exact else 'random', nv, d, rng)
        if not exact and i % 5 == 3:
            Xv = (Xv * np.float32(1e-5)).astype(np.float32)
        yv = xr.make_y('reg', Xv, rng)
        desc = dict(i=i, n=n, L=L, d=d, f=f, method=method, exact=exact, tree_iters=tree_iters, small_magnitude=bool((not exact) and i % 5 == 3), forced_splits=kw.get('number_of_splits'), configured_temperature=(0.05 if i % 6 == 2 else None), time_limit_s=time_limit_s, n_trees=kw.get('n_trees', 1), seed=ck.seed)
        xr.seed_all(8000 + i + ck.seed)
        model = xr.xRFM(rfm_params=xr.default_rfm_params(iters=(1 if tree_iters else 0), reg=1e-2), max_leaf_size=L, split_method=method,
                        overlap_fraction=f, verbose=False, use_temperature_tuning=False, refill_size=10, n_tree_iters=tree_iters,
                        # every sixth fit: a soft-routing temperature is configured (it concerns prediction only: the caller's validation points are still ROUTED by the <= rule)
                        **(dict(split_temperature=0.05) if i % 6 == 2 else {}), **(dict(time_limit_s=time_limit_s) if budget else {}), **kw)
        Xt = torch.tensor(X)
        rec = xr.fit_recorded(model, Xt, torch.tensor(y), torch.tensor(Xv), torch.tensor(yv), timeout=120, tolerate_empty_val=True)
        model.split_temperature = None          # the routing that is examined below is the hard one
        if rec.error is not None:
            ck.violation(f'fit did not return ({rec.error}) on {desc}', dict(desc, error=rec.error), key=json.dumps(dict(site='fit')))
            continue
        if not model.trees:
            ck.violation(f'the fit holds no tree on {desc}', dict(desc), key=json.dumps(dict(site='held-tree')))
            continue
        roots = [xr.match_build(rec, t) for t in model.trees]
        if any(r is None for r in roots):
            ck.violation(f'a held tree is none of the {len(rec.trees)} trees that were built, on {desc}', dict(desc), key=json.dumps(dict(site='held-tree')))
            continue
        ck.count(f'tree_iters={tree_iters}')
        ck.count(f'method={method}'); ck.count(f'f={f}'); ck.count('exact-arith' if exact else 'float-band')
        ck.count(f'depth={orc.tree_depth(model.trees[0])}')
        if budget:
            ck.count(f'budget regime: time_limit_s={time_limit_s}'); ck.count(f'budget regime: held trees={len(model.trees)}')
        Xrows = [orc.frow(Xt[j]) for j in range(n)]
        per_tree = []
        for t_idx, (tree, root) in enumerate(zip(model.trees, roots)):
            tdesc = dict(desc, tree=t_idx)
            nodes = [nd for nd in xr.walk(root) if nd['kind'] != 'leaf']
            for nd in nodes:
                ck.count('odd node' if nd['n'] % 2 else 'even node')
            # slack
            e = Fraction(0)
            if not exact:
                for nd in nodes:
                    v = nd['direction'].double()
                    s = float((nd['X'].double().abs() @ v.abs()).max()) + abs(float(nd['threshold']))
                    e = max(e, Fraction(s * d * 2.0 ** -20))
            # ---- oracle on the statement: real prediction-time routing of training rows vs leaf that received them ----
            groups, gidx, gleaves = model._get_leaf_groups_and_models_on_samples(Xt, tree)
            # "received" = handed to the leaf's model (fitted on it, or tuned on it after the validation refill), see received_rows
            recv_of_leaf, dropped_of_leaf = {}, {}
            for lf, held in xr.leaf_pairs(root, tree):
                recv_of_leaf[id(held)], dropped_of_leaf[id(held)] = received_rows(lf, Xt)
            lids = orc.assign_leaf_ids(tree)
            reached = {}
            for idx, lf in zip(gidx, gleaves):
                for j in idx.tolist():
                    reached[j] = lf
            n_checked = 0
            route_rows = []
            misrouted = {}
            for j in range(n):
                # tied with a threshold on its route? (exact arithmetic, 2e band as in the theorem)
                node = tree; near = False
                while node['type'] != 'leaf':
                    v = orc.frow(node['split_direction']); b = orc.F(node['split_point'])
                    p = sum((a * c for a, c in zip(Xrows[j], v)), Fraction(0))
                    if abs(p - b) <= 2 * e:
                        near = True
                    node = node['left'] if p <= b else node['right']
                if near:
                    ck.skip('training rows within 2e of (or tied with) a threshold')
                    continue
                n_checked += 1
                route_rows.append(j)
                lf = reached.get(j)
                if lf is None:
                    ck.violation(f'training sample {j} = {X[j].tolist()} reaches no leaf at prediction time on {tdesc}', dict(tdesc, sample=j, row=X[j].tolist()),
                                 key=json.dumps(dict(site='routing-reaches-no-leaf')))
                    continue
                if j not in recv_of_leaf[id(lf)]:
                    misrouted.setdefault(lids[id(lf)], []).append(j)
                if lids[id(lf)] != lids[id(node)]:
                    ck.violation(f'real routing of sample {j} reaches leaf {lids[id(lf)]} but exact <= routing reaches {lids[id(node)]} on {tdesc}',
                                 dict(tdesc, sample=j), key=json.dumps(dict(site='routing-vs-exact')))
            for lid, js in sorted(misrouted.items()):
                j = js[0]
                held = [h for h in orc.tree_leaves(tree) if lids[id(h)] == lid][0]
                entered = j in dropped_of_leaf[id(held)]
                elsewhere = [lids[k] for k, got in recv_of_leaf.items() if j in got]
                ck.violation(f'training sample {j} = {X[j].tolist()} (untied; {len(js)} such rows of {n}) is routed at prediction time to leaf {lid}, which did not receive it in training: '
                             f'the leaf model was fitted on {int(held["model"].centers.shape[0]) if getattr(held["model"], "centers", None) is not None else "?"} rows and tuned on its validation rows, '
                             f'sample {j} is in neither' + (' although it entered that node during the build' if entered else '')
                             + (f'; it was received by leaf/leaves {elsewhere}' if elsewhere else '; no leaf of the tree received it') + f', on {tdesc}',
                             dict(tdesc, sample=j, row=X[j].tolist(), leaf=lid, misrouted_rows=js[:50], n_misrouted=len(js), X=X.tolist(), y=y.tolist(),
                                  Xv=Xv.tolist(), yv=yv.tolist()),
                             key=json.dumps(dict(site='train-vs-predict-routing', f=f, odd=bool(n % 2), budget=budget)))
            # validation assignment
            for nd in nodes:
                v = orc.frow(nd['direction']); b = orc.F(nd['threshold'])
                lchild, rchild = nd['children']
                lset = {r.numpy().tobytes() for r in lchild['Xval']}
                rset = {r.numpy().tobytes() for r in rchild['Xval']}
                if lchild['nval'] + rchild['nval'] != nd['nval']:
                    ck.violation(f'validation points lost or duplicated at a split on {tdesc}', dict(tdesc), key='val-count')
                for r in nd['Xval']:
                    p = sum((a * c for a, c in zip(orc.frow(r), v)), Fraction(0))
                    key = r.numpy().tobytes()
                    if p + e < b and key not in lset or p > b + e and key not in rset:
                        ck.violation(f'validation point with projection {float(p)} vs threshold {float(b)} assigned against the <= rule on {tdesc}',
                                     dict(tdesc, row=r.tolist()), key=json.dumps(dict(site='val-routing')))
            per_tree.append((root, nodes, e, n_checked, route_rows))
        root, nodes, e, n_checked, route_rows = per_tree[0]          # the Coq correspondence below takes the first held tree
        ck.case(dict(desc, node_sizes=[[nd['n'] for nd in t[1]] for t in per_tree] if len(per_tree) > 1 else [nd['n'] for nd in nodes], checked=n_checked),
                nontrivial=len(nodes) >= 1, sample=len(nodes) >= 3)
        # ---- Coq ----
        Xdef = f'Definition Xr_{cid} : list (list Q) := {coq_Qmat(X.tolist())}.\nDefinition X_{cid} (i : nat) : list Q := nth i Xr_{cid} [].\nDefinition T_{cid} := {coq_ttree(root)}.'
        eq = coq_Q(e)
        sub = route_rows[:: max(1, len(route_rows) // 40)]
        conj = [f'tokb X_{cid} {eq} T_{cid}',
                f'forallb (fun i => untiedb {eq} T_{cid} (X_{cid} i) && existsb (Nat.eqb i) (route (erase T_{cid}) (X_{cid} i))) {nl(sub)}']
        for nd in nodes:
            lchild, rchild = nd['children']
            conj.append(f"val_routed_okb {eq} {coq_Qlist(nd['direction'].reshape(-1).tolist())} {coq_Q(float(nd['threshold']))} "
                        f"{coq_Qmat(lchild['Xval'].tolist())} {coq_Qmat(rchild['Xval'].tolist())}")
        cases.append((cid, ' && '.join(f'({c})' for c in conj), Xdef)); meta[cid] = desc; cid += 1
    res = ck.run_bool_cases('rank', HEADER, cases, shard=4)
    bad = [meta[k] for k, v in res.items() if v is not True]
    ck.obligation(f'correspondence: {len(cases)} recorded real trees satisfy tokb (rank halves, lower-median threshold), untied training rows '
                  f'are in the leaf the Coq route reaches, validation rows follow the <= rule', 'correspondence', not bad,
                  f'first mismatches: {bad[:4]}')
