"""Fail-closed translator for the DECISION OPERATORS of the two model-selection loops:
  RFM.update_best_params / RFM._should_early_stop / the direction and sentinel set-up of RFM.fit      (C02, C03)
  the candidate acceptance rule, sentinel and attribute encoding of xRFM.fit_temperature               (C10)
They are re-read from the *current* source with Python's `ast`, emitted as Coq functions over binary64 PrimFloat and
proved equal to the hand model (coq/Model/Select.v) on every run.  Besides the operators, the translator checks the
shape the model relies on: both improvement branches of update_best_params copy the SAME six pieces of state from the
current iterate; the direction flag is computed from the metric in force AFTER the fit-time override; fit() calls the
pieces in the modelled order.  Anything outside the recognised subset raises TranslationError: the obligation is broken."""
import ast, os
from harness.common import REPO
from harness.splitarith import TranslationError, _method


def _parse(rel):
    return ast.parse(open(os.path.join(REPO, *rel.split('/'))).read())


class F:
    """python float/bool expression -> Coq term over PrimFloat / bool"""
    def __init__(self, env):
        self.env = env

    def tr(self, e):
        u = ast.unparse(e)
        if u in self.env:
            return self.env[u]
        if isinstance(e, ast.Compare) and len(e.ops) == 1:
            a, b = self.tr(e.left), self.tr(e.comparators[0])
            op = e.ops[0]
            if isinstance(op, ast.Gt):
                return f'(PrimFloat.ltb {b} {a})'
            if isinstance(op, ast.Lt):
                return f'(PrimFloat.ltb {a} {b})'
            if isinstance(op, ast.GtE):
                return f'(PrimFloat.leb {b} {a})'
            if isinstance(op, ast.LtE):
                return f'(PrimFloat.leb {a} {b})'
            if isinstance(op, ast.Eq):
                return f'(PrimFloat.eqb {a} {b})'
            raise TranslationError(f'unsupported comparison in {u}')
        if isinstance(e, ast.BinOp):
            if isinstance(e.op, ast.Mult):
                return f'(PrimFloat.mul {self.tr(e.left)} {self.tr(e.right)})'
            if isinstance(e.op, ast.Div):
                return f'(PrimFloat.div {self.tr(e.left)} {self.tr(e.right)})'
            raise TranslationError(f'unsupported arithmetic in {u}')
        if isinstance(e, ast.BoolOp):
            j = ' && ' if isinstance(e.op, ast.And) else ' || '
            return '(' + j.join(self.tr(v) for v in e.values) + ')'
        if isinstance(e, ast.UnaryOp) and isinstance(e.op, ast.Not):
            return f'(negb {self.tr(e.operand)})'
        if isinstance(e, ast.IfExp):
            return f'(if {self.tr(e.test)} then {self.tr(e.body)} else {self.tr(e.orelse)})'
        if isinstance(e, ast.Constant) and isinstance(e.value, float) and e.value == 0.0:
            return '0%float'
        if u in ("float('inf')", 'float("inf")'):
            return 'infinity'
        if u in ("float('-inf')", 'float("-inf")'):
            return 'neg_infinity'
        raise TranslationError(f'unsupported expression {u}')


SNAPSHOT = {'best_metric': 'current_metric', 'best_alphas': 'self.tensor_copy(self.weights)', 'best_iter': 'current_iter',
            'best_bandwidth': 'self.kernel_obj.bandwidth + 0', 'best_M': 'self.tensor_copy(self.M)', 'best_sqrtM': 'self.tensor_copy(self.sqrtM)'}


def _assign_table(body, where):
    tbl = {}
    for st in body:
        if not (isinstance(st, ast.Assign) and len(st.targets) == 1 and isinstance(st.targets[0], ast.Name)):
            raise TranslationError(f'{where}: unrecognised statement {ast.unparse(st)}')
        tbl[st.targets[0].id] = ast.unparse(st.value)
    return tbl


def translate_update_best(fn):
    stmts = [s for s in fn.body if not (isinstance(s, ast.Expr) and isinstance(s.value, ast.Constant))]
    if len(stmts) != 3:
        raise TranslationError(f'update_best_params: expected 3 statements (direction, if/elif, return), found {len(stmts)}')
    d, iff, ret = stmts
    if ast.unparse(d) != 'maximize_metric = Metric.from_name(self.tuning_metric).should_maximize':
        raise TranslationError('update_best_params: direction is not read from the metric in force: ' + ast.unparse(d))
    if not (isinstance(iff, ast.If) and len(iff.orelse) == 1 and isinstance(iff.orelse[0], ast.If) and not iff.orelse[0].orelse):
        raise TranslationError('update_best_params: expected if / elif without else')
    f = F({'maximize_metric': 'maximize', 'current_metric': 'cur', 'best_metric': 'best'})
    c1, c2 = f.tr(iff.test), f.tr(iff.orelse[0].test)
    for br, nm in ((iff.body, 'maximising branch'), (iff.orelse[0].body, 'minimising branch')):
        tbl = _assign_table(br, 'update_best_params ' + nm)
        if tbl != SNAPSHOT:
            raise TranslationError(f'update_best_params {nm}: the snapshot is not the six pieces of the current iterate: {tbl}')
    if ast.unparse(ret) != 'return (best_metric, best_alphas, best_M, best_sqrtM, best_iter, best_bandwidth)':
        raise TranslationError('update_best_params: unexpected return ' + ast.unparse(ret))
    return f'({c1} || {c2})'


def translate_early_stop(fn):
    stmts = [s for s in fn.body if not (isinstance(s, ast.Expr) and isinstance(s.value, ast.Constant))]
    if len(stmts) != 2 or ast.unparse(stmts[0]) != 'if es_multiplier is None:\n    es_multiplier = self.early_stop_multiplier':
        raise TranslationError('_should_early_stop: unexpected prologue')
    iff = stmts[1]
    if not (isinstance(iff, ast.If) and ast.unparse(iff.test) == 'self.should_minimize' and len(iff.body) == 1 and len(iff.orelse) == 1
            and isinstance(iff.body[0], ast.Return) and isinstance(iff.orelse[0], ast.Return)):
        raise TranslationError('_should_early_stop: expected if self.should_minimize: return .. else: return ..')
    f = F({'current_metric': 'cur', 'best_metric': 'best', 'es_multiplier': 'mult'})
    return f'(if minimize then {f.tr(iff.body[0].value)} else {f.tr(iff.orelse[0].value)})'


def check_init_params(fn):
    """the direction flag must be derived from self.tuning_metric AFTER the fit-time override has been applied"""
    pos = {}
    for k, st in enumerate(fn.body):
        u = ast.unparse(st)
        if u == 'self.tuning_metric = tuning_metric if tuning_metric is not None else self.tuning_metric':
            pos['override'] = k
        if u == 'self.should_minimize = not Metric.from_name(self.tuning_metric).should_maximize':
            pos['direction'] = k
        if u == 'self.early_stop_multiplier = early_stop_multiplier':
            pos['mult'] = k
        if u == 'self.iters = iters if iters is not None else self.iters':
            pos['iters'] = k
    for k in ('override', 'direction', 'mult', 'iters'):
        if k not in pos:
            raise TranslationError(f'_initialize_fit_parameters: `{k}` assignment not found in the expected form')
    if not pos['override'] < pos['direction']:
        raise TranslationError('_initialize_fit_parameters: direction computed before the fit-time metric override')


FIT_SKELETON = ['timecheck', 'solve', 'validate', 'update?', 'earlystop?', 'fitM', 'delw']


def translate_fit(fn):
    """sentinel + the order of the pieces inside the main loop and the epilogue"""
    out = {}
    loop = None
    for st in fn.body:
        u = ast.unparse(st)
        if isinstance(st, ast.Assign) and ast.unparse(st.targets[0]) == 'best_metric':
            out['init'] = F({'self.should_minimize': 'minimize'}).tr(st.value)
        if u == 'best_alphas, best_M, best_sqrtM = (None, None, None)':
            out['snap_none'] = True
        if u == 'best_iter = None':
            out['iter_none'] = True
        if isinstance(st, ast.For) and ast.unparse(st.iter) == 'range(self.iters)' and ast.unparse(st.target) == 'i':
            loop = st
    if loop is None:
        raise TranslationError('fit: main loop `for i in range(self.iters)` not found')
    ev = []
    for st in loop.body:
        u = ast.unparse(st)
        if u.startswith('self.fit_predictor(X_train, y_train'):
            ev.append('solve')
        elif u.startswith('val_metrics = self._compute_validation_metrics(X_train, y_train, X_val, y_val, iteration_num=i'):
            ev.append('validate')
        elif isinstance(st, ast.If) and ast.unparse(st.test) == 'return_best_params' and len(st.body) == 1 and ast.unparse(st.body[0]) == (
                'best_metric, best_alphas, best_M, best_sqrtM, best_iter, best_bandwidth = self.update_best_params(best_metric, best_alphas, '
                'best_M, best_sqrtM, best_iter, best_bandwidth, val_metrics[self.tuning_metric], i)'):
            ev.append('update?')
        elif isinstance(st, ast.If) and ast.unparse(st.test) == 'self.early_stop_rfm':
            b = [ast.unparse(x) for x in st.body]
            if len(b) != 2 or b[0] != 'val_metric = val_metrics[self.tuning_metric]':
                raise TranslationError('fit: early-stop block: unexpected body')
            inner = st.body[1]
            if not (isinstance(inner, ast.If) and ast.unparse(inner.test) == 'self._should_early_stop(val_metric, best_metric)' and not inner.orelse):
                raise TranslationError('fit: early-stop test is not _should_early_stop(val_metric, best_metric)')
            ib = [ast.unparse(x) for x in inner.body if not ast.unparse(x).startswith('if self.verbose')]
            if len(ib) != 3 or not ib[0].startswith('if not return_best_params:\n    self.fit_M(X_train, self.n_classes') or ib[1] != 'early_stopped = True' or ib[2] != 'break':
                raise TranslationError(f'fit: early-stop action differs from (fit_M unless returning best; early_stopped; break): {ib}')
            ev.append('earlystop?')
        elif u.startswith('self.fit_M(X_train, self.n_classes, M_batch_size=M_batch_size'):
            ev.append('fitM')
        elif u == 'del self.weights':
            ev.append('delw')
        elif isinstance(st, ast.If) and ast.unparse(st.test).startswith('i > 0 and self.time_limit_s is not None'):
            # the wall-clock test (SelectT.loop_t): first thing in the round, needs i > 0, a plain `break` (early_stopped is NOT set: the final solve still happens)
            want_t = 'i > 0 and self.time_limit_s is not None and ((i + 1) / i * (time.time() - start_time) > self.time_limit_s)'
            if ast.unparse(st.test) != want_t or st.orelse or [ast.unparse(x) for x in st.body] != ['break']:
                raise TranslationError(f'fit: the time-limit test is not `if {want_t}: break`: {u[:200]}')
            ev.append('timecheck')
        elif u.startswith('if self.verbose') or u.startswith('if callback is not None') or u == 'start = time.time()' or u.startswith('if return_Ms'):
            continue
        else:
            raise TranslationError(f'fit: unrecognised statement in the main loop: {u[:120]}')
    if ev != FIT_SKELETON:
        raise TranslationError(f'fit: main loop performs {ev}, the model assumes {FIT_SKELETON}')
    # epilogue
    tail = [ast.unparse(s) for s in fn.body]
    fin = [t for t in tail if t.startswith('if not early_stopped:')]
    if len(fin) != 1 or 'self.fit_predictor(X_train, y_train' not in fin[0] or 'is_final=True' not in fin[0] or \
            "self.update_best_params(best_metric, best_alphas, best_M, best_sqrtM, best_iter, best_bandwidth, final_val_metrics[self.tuning_metric], iters)" not in fin[0]:
        raise TranslationError('fit: final solve / validation / update block not in the expected form')
    rest = [t for t in tail if t.startswith('if return_best_params:')]
    want = ('if return_best_params:\n    self.M = None if best_M is None else best_M.to(self.device)\n    self.sqrtM = None if best_sqrtM is None else best_sqrtM.to(self.device)\n'
            '    self.weights = best_alphas.to(self.device)\n    self.kernel_obj.bandwidth = best_bandwidth')
    if rest != [want]:
        raise TranslationError('fit: the restore block does not restore M, sqrtM, weights and bandwidth together')
    if 'self.best_iter = best_iter' not in tail:
        raise TranslationError('fit: best_iter not stored')
    for k in ('init', 'snap_none', 'iter_none'):
        if k not in out:
            raise TranslationError(f'fit: initialisation `{k}` not found')
    return out


def translate_fit_temperature(fn):
    out = {}
    loop = None
    for st in ast.walk(fn):
        if isinstance(st, ast.Assign) and len(st.targets) == 1:
            t = ast.unparse(st.targets[0]); v = ast.unparse(st.value)
            if t == 'maximizing' and v == 'metric.should_maximize':
                out['dir'] = True
            if t == 'best_score' and 'init' not in out:
                out['init'] = F({'maximizing': 'maximize'}).tr(st.value)
            if t == 'best_temp_attr' and 'attr0' not in out:
                if v != 'self.split_temperature if self.split_temperature is not None else None':
                    raise TranslationError('fit_temperature: initial best_temp_attr is not the temperature on entry')
                out['attr0'] = True
            if t == 'best_temp_value':
                if v != '0.0 if best_temp_attr is None else float(best_temp_attr)':
                    raise TranslationError('fit_temperature: initial best_temp_value: unexpected form')
                out['val0'] = True
        if isinstance(st, ast.For) and ast.unparse(st.target) == 'temp_candidate':
            loop = st
    if loop is None:
        raise TranslationError('fit_temperature: candidate loop not found')
    f = F({'maximizing': 'maximize', 'score': 's', 'best_score': 'best', 'temp_candidate': 'c', 'best_temp_value': 'init_val', 'is_better': 'is_better'})
    seen = []
    for st in loop.body:
        u = ast.unparse(st)
        if u == 'temp_candidate = float(temp_candidate)':
            seen.append('float')
        elif isinstance(st, ast.If) and ast.unparse(st.test).startswith('temp_candidate') and 'use_soft' in u:
            if [ast.unparse(x) for x in st.body] != ['self.split_temperature = None', 'use_soft = False'] or \
                    [ast.unparse(x) for x in st.orelse] != ['self.split_temperature = temp_candidate', 'use_soft = True']:
                raise TranslationError('fit_temperature: hard/soft switch: unexpected form')
            out['tle0'] = f.tr(st.test)
            seen.append('switch')
        elif u.startswith("if 'y_pred' in metric.required_quantities") or u.startswith("if 'y_pred_proba' in metric.required_quantities"):
            seen.append('predict')
        elif u == 'score = metric.compute(**metric_inputs)':
            seen.append('score')
        elif u == 'tuning_results.append((temp_candidate, score))':
            seen.append('record')
        elif isinstance(st, ast.Assign) and ast.unparse(st.targets[0]) == 'is_better':
            out['better'] = f.tr(st.value)
            seen.append('better')
        elif isinstance(st, ast.If) and 'best_score = score' in u:
            out['accept'] = f.tr(st.test)
            b = [ast.unparse(x) for x in st.body]
            if len(b) != 2 or b[0] != 'best_score = score' or not (isinstance(st.body[1], ast.Assign) and ast.unparse(st.body[1].targets[0]) == 'best_temp_attr'
                                                                   and isinstance(st.body[1].value, ast.IfExp) and ast.unparse(st.body[1].value.body) == 'None'
                                                                   and ast.unparse(st.body[1].value.orelse) == 'temp_candidate') or st.orelse:
                raise TranslationError(f'fit_temperature: acceptance action: unexpected form {b}')
            out['attr_none_when'] = f.tr(st.body[1].value.test)
            seen.append('accept')
        else:
            raise TranslationError(f'fit_temperature: unrecognised statement in the candidate loop: {u[:120]}')
    if seen != ['float', 'switch', 'predict', 'predict', 'score', 'record', 'better', 'accept']:
        raise TranslationError(f'fit_temperature: candidate loop performs {seen}')
    tail = [ast.unparse(s) for s in fn.body]
    for w in ('self.split_temperature = best_temp_attr', 'self.best_split_temperature_score_ = best_score', 'self.temperature_tuning_results_ = tuning_results'):
        if w not in tail:
            raise TranslationError(f'fit_temperature: `{w}` not found after the loop')
    for k in ('dir', 'init', 'attr0', 'val0', 'tle0', 'better', 'accept', 'attr_none_when'):
        if k not in out:
            raise TranslationError(f'fit_temperature: {k} not found')
    return out


def generate():
    rt = _parse('xrfm/rfm_src/recursive_feature_machine.py')
    xt = _parse('xrfm/xrfm.py')
    better = translate_update_best(_method(rt, 'RFM', 'update_best_params'))
    stop = translate_early_stop(_method(rt, 'RFM', '_should_early_stop'))
    check_init_params(_method(rt, 'RFM', '_initialize_fit_parameters'))
    ft = translate_fit(_method(rt, 'RFM', 'fit'))
    tt = translate_fit_temperature(_method(xt, 'xRFM', 'fit_temperature'))
    return f'''(* GENERATED on every run by harness/selectarith.py from /repo/xrfm/rfm_src/recursive_feature_machine.py and /repo/xrfm/xrfm.py — do not edit *)
From Coq Require Import Bool PrimFloat.
Require Import XV.Model.Select.

(* RFM.update_best_params: the snapshot is taken iff ... *)
Definition gen_better (maximize : bool) (cur best : float) : bool := {better}.
Lemma gen_better_eq_model : forall minimize cur best, gen_better (negb minimize) cur best = f_better minimize cur best.
Proof. intros [] cur best; unfold gen_better, f_better; cbn [negb andb orb]; rewrite ?orb_false_r; reflexivity. Qed.

(* RFM._should_early_stop *)
Definition gen_stop (minimize : bool) (mult cur best : float) : bool := {stop}.
Lemma gen_stop_eq_model : forall minimize mult cur best, gen_stop minimize mult cur best = f_stop minimize mult cur best.
Proof. intros [] mult cur best; reflexivity. Qed.

(* RFM.fit: sentinel *)
Definition gen_init (minimize : bool) : float := {ft['init']}.
Lemma gen_init_eq_model : forall minimize, gen_init minimize = f_init minimize.
Proof. intros []; reflexivity. Qed.

(* xRFM.fit_temperature: sentinel, acceptance rule, hard/soft switch, attribute encoding *)
Definition gen_tinit (maximize : bool) : float := {tt['init']}.
Lemma gen_tinit_eq_model : forall minimize, gen_tinit (negb minimize) = f_init minimize.
Proof. intros []; reflexivity. Qed.
Definition gen_tbetter (maximize : bool) (s best : float) : bool := {tt['better']}.
Lemma gen_tbetter_eq_model : forall minimize s best, gen_tbetter (negb minimize) s best = f_better minimize s best.
Proof. intros [] s best; reflexivity. Qed.
Definition gen_taccept (is_better : bool) (c init_val s best : float) : bool := {tt['accept']}.
Lemma gen_taccept_eq_model : forall minimize c init_val s best,
  gen_taccept (f_better minimize s best) c init_val s best =
  (f_better minimize s best || (PrimFloat.eqb c init_val && PrimFloat.eqb s best)).
Proof. intros. reflexivity. Qed.
Definition gen_tle0 (c : float) : bool := {tt['tle0']}.
Definition gen_attr_none_when (c : float) : bool := {tt['attr_none_when']}.
Lemma gen_tle0_eq_model : forall c, gen_tle0 c = PrimFloat.leb c 0%float /\\ gen_attr_none_when c = PrimFloat.leb c 0%float.
Proof. intros. split; reflexivity. Qed.

(* one step of the candidate loop, assembled from the generated operators, is the model's tstep on binary64 *)
Lemma gen_tstep_eq_model : forall minimize init_val score a c,
  tstep float (f_better minimize) PrimFloat.eqb float (fun c => PrimFloat.leb c 0%float) PrimFloat.eqb init_val score a c =
  let s := score (if gen_attr_none_when c then None else Some c) in
  let take := gen_taccept (gen_tbetter (negb minimize) s (t_best _ _ a)) c init_val s (t_best _ _ a) in
  {{| t_best := if take then s else t_best _ _ a;
     t_attr := if take then (if gen_attr_none_when c then None else Some c) else t_attr _ _ a;
     t_results := app (t_results _ _ a) (cons (c, s) nil) |}}.
Proof. intros [] init_val score a c; reflexivity. Qed.
'''


def check_translation(ck):
    from harness.common import coqc
    try:
        txt = generate()
        p = os.path.join(ck.bdir, 'SelectArith_gen.v')
        open(p, 'w').write(txt)
        rc, out, dt = coqc(p)
        ck.checker_cmds.append(f'coqc build/{ck.pid}/run_<pid>/SelectArith_gen.v')
        ck.obligation('SelectArith_gen.v: improvement test, snapshot table, early-stop test, sentinels, direction-after-override, loop skeleton of RFM.fit and the '
                      'acceptance rule / encoding of fit_temperature, re-translated from the source, equal the hand model (reflexivity)', 'translation', rc == 0, out)
        return rc == 0
    except TranslationError as e:
        ck.obligation('selectarith translator recognises the source', 'translation', False, str(e))
        return False
