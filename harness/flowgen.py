"""Generated Coq obligations for pattern D (shared by C11, C17, C18)."""
import ast, os, re
from harness import attrflow as af
from harness.common import REPO

# reads that the path-insensitive analysis flags but that cannot carry history within the properties' scope;
# every entry is justified here and covered by a differential test in the harness
EXEMPT_X_FIT = {
    'tuning_metric': 'written only when None, with a value that is a function of the task type (brier / mse); refits are of the same task type',
    'class_converter_': 'read in fit_temperature / score only under a classification metric, for which fit has just written it (the write is in the is_class branch)',
    'class_converter_._C': 'same as class_converter_ (sub-attribute of the object written in the is_class branch)',
    'class_converter_._invA': 'same as class_converter_',
    'class_converter_._numerical_type': 'same as class_converter_',
    'class_converter_._prior': 'same as class_converter_',
    'class_converter_.mode': 'same as class_converter_',
    'class_converter_.n_classes': 'same as class_converter_',
}
EXEMPT_LEAF_PRED = {
    'kernel_obj.is_adaptive_bandwidth': 'True after construction and after every completed kernel call; False only between the reset in fit_predictor and the Gram call that follows it',
    'class_converter': 'the leaf converter is the xRFM-level converter handed over through extra_rfm_params_ (restored by load); RFM.fit replaces it only when it is None and there are several outputs (regression), where predict_proba is not used',
    'class_converter._invA': 'same as class_converter', 'class_converter.mode': 'same as class_converter',
    'class_converter._numerical_type': 'the leaf converter is the model-level converter object, whose _numerical_type is exported and restored at model level',
    'class_converter.n_classes': 'same as class_converter', 'class_converter._C': 'same as class_converter', 'class_converter._prior': 'same as class_converter',
}


def _dict_items(d):
    return {k.value: v for k, v in zip(d.keys, d.values) if isinstance(k, ast.Constant)}


def export_tables():
    """key -> unparsed value expression for get_state_dict (model level) and get_param_tree (leaf / node level)"""
    xsrc = ast.parse(open(os.path.join(REPO, 'xrfm/xrfm.py')).read())
    tsrc = ast.parse(open(os.path.join(REPO, 'xrfm/tree_utils.py')).read())
    model = {}
    fn = None
    for c in xsrc.body:
        if isinstance(c, ast.ClassDef) and c.name == 'xRFM':
            for it in c.body:
                if isinstance(it, ast.FunctionDef) and it.name == 'get_state_dict':
                    fn = it
    if fn is None:
        raise af.TranslationError('get_state_dict not found')
    for n in ast.walk(fn):
        if isinstance(n, ast.Assign) and len(n.targets) == 1:
            t = n.targets[0]
            if isinstance(t, ast.Name) and t.id == 'state_dict' and isinstance(n.value, ast.Dict):
                for k, v in _dict_items(n.value).items():
                    model[k] = ast.unparse(v)
            if isinstance(t, ast.Subscript) and isinstance(t.value, ast.Name) and t.value.id == 'state_dict' and isinstance(t.slice, ast.Constant):
                if isinstance(n.value, ast.Dict):
                    for k, v in _dict_items(n.value).items():
                        model[f'{t.slice.value}.{k}'] = ast.unparse(v)
                    model[t.slice.value] = '<dict>'
                else:
                    model.setdefault(t.slice.value, ast.unparse(n.value))
    leaf, node = {}, {}
    for f in tsrc.body:
        if isinstance(f, ast.FunctionDef) and f.name == 'get_param_tree':
            for n in ast.walk(f):
                if isinstance(n, ast.Dict):
                    items = _dict_items(n)
                    if items.get('type') is not None and isinstance(items['type'], ast.Constant):
                        (leaf if items['type'].value == 'leaf' else node).update({k: ast.unparse(v) for k, v in items.items()})
    if not leaf or not node:
        raise af.TranslationError('get_param_tree: leaf / node dict literals not found')
    return model, leaf, node


def conditional_exports():
    """key -> sorted list of the conditions under which get_state_dict writes it (keys written unconditionally are absent).
    A key that is exported only under a condition must be restored to the value a FRESH model has when the condition is false;
    the accepted table is CONDITIONAL_EXPORTS_OK (each entry justified there)."""
    xsrc = ast.parse(open(os.path.join(REPO, 'xrfm/xrfm.py')).read())
    fn = None
    for c in xsrc.body:
        if isinstance(c, ast.ClassDef) and c.name == 'xRFM':
            for it in c.body:
                if isinstance(it, ast.FunctionDef) and it.name == 'get_state_dict':
                    fn = it
    if fn is None:
        raise af.TranslationError('get_state_dict not found')
    out = {}
    def walk(stmts, conds):
        for st in stmts:
            if isinstance(st, ast.If):
                walk(st.body, conds + [ast.unparse(st.test)])
                walk(st.orelse, conds + ['not (' + ast.unparse(st.test) + ')'])
            elif isinstance(st, (ast.For, ast.While, ast.With, ast.Try)):
                for n in ast.walk(st):
                    if isinstance(n, ast.Subscript) and isinstance(n.value, ast.Name) and n.value.id == 'state_dict' and isinstance(n.ctx, ast.Store):
                        raise af.TranslationError(f'get_state_dict: state_dict written inside a compound statement at line {st.lineno}')
            elif conds:
                for n in ast.walk(st):
                    if isinstance(n, ast.Subscript) and isinstance(n.value, ast.Name) and n.value.id == 'state_dict' and isinstance(n.ctx, (ast.Store, ast.Del)) \
                            and isinstance(n.slice, ast.Constant):
                        out.setdefault(n.slice.value, []).append(' and '.join(conds))
                    if isinstance(n, ast.Call) and isinstance(n.func, ast.Attribute) and isinstance(n.func.value, ast.Name) and n.func.value.id == 'state_dict' \
                            and n.func.attr in ('pop', 'update', 'setdefault', '__setitem__', '__delitem__', 'clear'):
                        raise af.TranslationError(f'get_state_dict: state_dict.{n.func.attr}(...) under a condition at line {st.lineno}')
            else:
                for n in ast.walk(st):
                    if isinstance(n, ast.Call) and isinstance(n.func, ast.Attribute) and isinstance(n.func.value, ast.Name) and n.func.value.id == 'state_dict' \
                            and n.func.attr in ('pop', '__delitem__', 'clear'):
                        raise af.TranslationError(f'get_state_dict: state_dict.{n.func.attr}(...) at line {st.lineno}')
                    if isinstance(n, ast.IfExp) or isinstance(n, ast.DictComp):
                        if any(isinstance(m, ast.Name) and m.id == 'state_dict' for m in ast.walk(st)):
                            raise af.TranslationError(f'get_state_dict: conditional expression in a state_dict statement at line {st.lineno}')
                if isinstance(st, ast.Delete) and any(isinstance(m, ast.Name) and m.id == 'state_dict' for m in ast.walk(st)):
                    raise af.TranslationError(f'get_state_dict: del on state_dict at line {st.lineno}')
    walk(fn.body, [])
    return {k: sorted(v) for k, v in out.items()}


# conditionally exported keys and why the fresh model's value is right when the key is absent:
#  solver            absent <=> no solver in rfm_params (constructor-only, identical in the fresh model); load uses .get('solver', None)
#  classification_*  absent <=> regression (n_classes_ == 0, itself exported unconditionally); load reads them under the same condition
CONDITIONAL_EXPORTS_OK = {'solver': ["'solver' in self.rfm_params['fit']", "'solver' in self.rfm_params['model']"],
                          'classification_mode': ['self.n_classes_ > 0'], 'class_converter': ['self.n_classes_ > 0']}


def load_tables():
    """attribute path written <- state-dict key, for the model level and the leaf level"""
    xsrc = ast.parse(open(os.path.join(REPO, 'xrfm/xrfm.py')).read())
    model, leaf = {}, {}
    for c in xsrc.body:
        if isinstance(c, ast.ClassDef) and c.name == 'xRFM':
            for it in c.body:
                if isinstance(it, ast.FunctionDef) and it.name in ('load_state_dict', '_build_leaf_models_from_param_trees'):
                    for n in ast.walk(it):
                        if isinstance(n, ast.Assign) and len(n.targets) == 1 and isinstance(n.targets[0], ast.Attribute):
                            tgt = ast.unparse(n.targets[0]); val = ast.unparse(n.value)
                            m = re.fullmatch(r"state_dict\['(\w+)'\](?:\['(\w+)'\])?", val) or re.fullmatch(r"state_dict\.get\('(\w+)', .*\)", val)
                            if tgt.startswith('self.') and m:
                                key = m.group(1) + ('.' + m.group(2) if m.lastindex and m.lastindex >= 2 and m.group(2) else '')
                                model[tgt[5:]] = key
                            m2 = re.fullmatch(r"tree\['(\w+)'\]", val)
                            if tgt.startswith('leaf_model.') and m2:
                                leaf[tgt[len('leaf_model.'):]] = m2.group(1)
                            if tgt == 'leaf_model.centers' and val == 'X_train[leaf_center_indices]':
                                leaf['centers'] = 'train_indices'
                            if tgt == 'leaf_model.solver' and val == 'self.solver':
                                leaf['solver'] = '@model.solver'       # handed down from the model-level key 'solver'
    return model, leaf


def roundtrip_rows():
    """rows (level, attribute, key, exported expression, consistent?)"""
    em, el, en = export_tables()
    lm, ll = load_tables()
    rows = []
    for attr, key in sorted(lm.items()):
        exp = em.get(key)
        ok = exp is not None and (exp == 'self.' + attr or (key == 'rfm_params' and exp == 'self.rfm_params')
                                  or (key == 'solver' and exp is not None)
                                  or (key == 'extra_rfm_params_' and exp == 'clean_extra_rfm_params'))
        rows.append(('model', attr, key, exp, bool(ok)))
    for attr, key in sorted(ll.items()):
        if key == '@model.solver':
            exp = em.get('solver')
            ok = exp is not None and lm.get('solver') == 'solver'
            rows.append(('leaf', attr, 'solver (model level)', exp, bool(ok)))
            continue
        exp = el.get(key)
        ok = exp is not None and (exp == 'leaf_model.' + attr or (attr == 'centers' and exp == "tree['train_indices']"))
        rows.append(('leaf', attr, key, exp, bool(ok)))
    return rows, em, el, en


def node_keys_read():
    """literal keys read on tree-node dicts by the prediction code"""
    xsrc = ast.parse(open(os.path.join(REPO, 'xrfm/xrfm.py')).read())
    keys = set()
    meths = {'_predict_tree_hard', '_predict_tree_soft', '_get_leaf_groups_and_models_on_samples', '_build_tree_cache', '_ensure_tree_cache',
             '_collect_leaf_nodes', '_get_tree_grads_hard', '_predict_tree'}
    names = {'tree', 'node', 'current_node', 'leaf_node'}
    for c in xsrc.body:
        if isinstance(c, ast.ClassDef) and c.name == 'xRFM':
            for it in c.body:
                if isinstance(it, ast.FunctionDef) and it.name in meths:
                    for n in ast.walk(it):
                        if isinstance(n, ast.Subscript) and isinstance(n.value, ast.Name) and n.value.id in names and isinstance(n.slice, ast.Constant) \
                                and isinstance(n.ctx, ast.Load):
                            keys.add(n.slice.value)
                        if isinstance(n, ast.Call) and isinstance(n.func, ast.Attribute) and n.func.attr == 'get' and isinstance(n.func.value, ast.Name) \
                                and n.func.value.id in names and n.args and isinstance(n.args[0], ast.Constant):
                            keys.add(n.args[0].value)
    return keys


RNG_CALLS = ('torch.randperm', 'torch.randn', 'torch.rand', 'torch.normal', 'torch.randint', 'torch.manual_seed', 'torch.cuda.manual_seed',
             'np.random.', 'numpy.random.', 'random.')


def rng_sites():
    """(file, line, call) of every random draw in the library; raises when a private generator could be involved"""
    sites = []
    for rel in ['xrfm/xrfm.py', 'xrfm/tree_utils.py', 'xrfm/rfm_src/recursive_feature_machine.py', 'xrfm/rfm_src/kernels.py',
                'xrfm/rfm_src/utils.py', 'xrfm/rfm_src/class_conversion.py', 'xrfm/rfm_src/metrics.py', 'xrfm/rfm_src/gpu_utils.py', 'xrfm/rfm_src/svd.py']:
        tree = ast.parse(open(os.path.join(REPO, rel)).read())
        for n in ast.walk(tree):
            if isinstance(n, ast.Call):
                f = ast.unparse(n.func)
                if 'Generator' in f or 'default_rng' in f or 'RandomState' in f or 'get_rng_state' in f or 'set_rng_state' in f or 'fork_rng' in f:
                    raise af.TranslationError(f'{rel}:{n.lineno}: private / saved random generator `{f}` (the seeded-global-generator assumption no longer holds)')
                if any(k.arg == 'generator' for k in n.keywords):
                    raise af.TranslationError(f'{rel}:{n.lineno}: `{f}` is called with generator=...')
                if f.startswith(RNG_CALLS) and not f.startswith('random.seed') and not f.startswith('np.random.seed'):
                    sites.append((rel, n.lineno, f))
                elif f in ('random.seed', 'np.random.seed'):
                    sites.append((rel, n.lineno, f))
    ext = external_numeric_calls()
    bad = [e for e in ext if not e[3]]
    if bad:
        raise af.TranslationError('calls into external numerical libraries that are not known to be deterministic functions of their arguments '
                                  '(they may draw a start vector from a generator the estimator does not seed): '
                                  + '; '.join(f'{a}:{b} {c}' for a, b, c, _ in bad))
    return sites


# calls into scipy / sklearn: only the listed ones are known to be deterministic functions of their arguments; svd.py's Nystrom routine is reached only from the
# EigenPro solver (CUDA only: it moves its operands with .cuda()), which is outside every property's scope (DESIGN.md section 5)
DETERMINISTIC_EXTERNAL = {'roc_auc_score', 'mean_squared_error', 'log_loss', 'f1_score'}
EXTERNAL_ROOTS = ('scipy', 'sklearn')


def external_numeric_calls():
    out = []
    for rel in ['xrfm/xrfm.py', 'xrfm/tree_utils.py', 'xrfm/rfm_src/recursive_feature_machine.py', 'xrfm/rfm_src/kernels.py',
                'xrfm/rfm_src/utils.py', 'xrfm/rfm_src/class_conversion.py', 'xrfm/rfm_src/metrics.py', 'xrfm/rfm_src/gpu_utils.py', 'xrfm/rfm_src/svd.py']:
        tree = ast.parse(open(os.path.join(REPO, rel)).read())
        alias = {}                                   # local name -> dotted origin
        for n in ast.walk(tree):
            if isinstance(n, ast.Import):
                for a in n.names:
                    if a.name.split('.')[0] in EXTERNAL_ROOTS:
                        alias[(a.asname or a.name.split('.')[0])] = a.name if a.asname else a.name.split('.')[0]
            if isinstance(n, ast.ImportFrom) and n.module and n.module.split('.')[0] in EXTERNAL_ROOTS:
                for a in n.names:
                    alias[a.asname or a.name] = n.module + '.' + a.name
        for n in ast.walk(tree):
            if isinstance(n, ast.Call):
                f = ast.unparse(n.func)
                root = f.split('.')[0]
                if root in alias:
                    origin = alias[root] + f[len(root):]
                    last = origin.split('.')[-1]
                    ok = last in DETERMINISTIC_EXTERNAL or rel == 'xrfm/rfm_src/svd.py'
                    out.append((rel, n.lineno, origin, ok))
    return out


def gen_file(progs, lists, lemmas):
    """progs: name -> python prog ; lists: name -> list of attr names ; lemmas: list of (name, coq bool expr) each proved by vm_compute"""
    names = set()
    for p in progs.values():
        af.names_of(p, names)
    for l in lists.values():
        names |= set(l)
    ids = {n: i for i, n in enumerate(sorted(names))}
    out = ['(* GENERATED on every run by harness/attrflow.py + flowgen.py from the current /repo sources — do not edit *)',
           'From Coq Require Import List Bool Arith String.', 'Require Import XV.Model.AttrFlow.', 'Import ListNotations.', 'Open Scope nat_scope.',
           'Definition attr_names : list string := [' + '; '.join(f'"{n}"%string' for n in sorted(names)) + '].']
    for n, p in progs.items():
        out.append(f'Definition {n} : prog := {af.coq_prog(af.simplify(p), ids)}.')
    for n, l in lists.items():
        out.append(f'Definition {n} : list nat := [' + '; '.join(str(ids[a]) for a in sorted(l)) + '].')
    for n, expr in lemmas:
        out.append(f'Lemma {n} : {expr} = true.\nProof. vm_compute. reflexivity. Qed.')
    return '\n'.join(out) + '\n', ids


# ---------- side condition of the exemptions: inside the method itself, every direct read of an exempt attribute is
# dominated by a write of it in the same call (definite assignment over if/else; loops and try bodies are conservative) ----------
def _direct_accesses(node, attr):
    """yields ('load'|'store', lineno) for self.<attr>, hasattr(self,'<attr>'), getattr(self,'<attr>',..) inside an expression/statement"""
    out = []
    for n in ast.walk(node):
        if isinstance(n, ast.Attribute) and isinstance(n.value, ast.Name) and n.value.id == 'self' and n.attr == attr:
            out.append(('store' if isinstance(n.ctx, ast.Store) else 'load', n.lineno))
        if isinstance(n, ast.Call) and isinstance(n.func, ast.Name) and n.func.id in ('hasattr', 'getattr') and len(n.args) >= 2 \
                and isinstance(n.args[0], ast.Name) and n.args[0].id == 'self' and isinstance(n.args[1], ast.Constant) and n.args[1].value == attr:
            out.append(('load', n.lineno))
        if isinstance(n, ast.Call) and isinstance(n.func, ast.Name) and n.func.id == 'setattr' and len(n.args) >= 2 \
                and isinstance(n.args[1], ast.Constant) and n.args[1].value == attr:
            out.append(('store', n.lineno))
    return out


def _definite(stmts, attr, assigned, bad):
    for st in stmts:
        if isinstance(st, ast.If):
            for kind, ln in _direct_accesses(st.test, attr):
                if kind == 'load' and not assigned:
                    bad.append(ln)
            a1 = _definite(st.body, attr, assigned, bad)
            a2 = _definite(st.orelse, attr, assigned, bad)
            assigned = assigned or (a1 and a2)
        elif isinstance(st, (ast.For, ast.While, ast.With, ast.Try)):
            # reads inside are checked with the current flag; writes inside do not count afterwards (conservative)
            for field in ('body', 'orelse', 'finalbody'):
                _definite(getattr(st, field, []) or [], attr, assigned, bad)
            for h in getattr(st, 'handlers', []) or []:
                _definite(h.body, attr, assigned, bad)
            hdr = [getattr(st, 'iter', None), getattr(st, 'test', None)] + [i.context_expr for i in getattr(st, 'items', [])]
            for e in hdr:
                if e is not None:
                    for kind, ln in _direct_accesses(e, attr):
                        if kind == 'load' and not assigned:
                            bad.append(ln)
        elif isinstance(st, (ast.FunctionDef, ast.ClassDef)):
            continue
        else:
            acc = _direct_accesses(st, attr)
            # within one simple statement the right-hand side is evaluated before the store
            for kind, ln in acc:
                if kind == 'load' and not assigned:
                    bad.append(ln)
            if any(k == 'store' for k, _ in acc):
                assigned = True
    return assigned


def exemption_side_condition(cls, method, attrs):
    """returns list of (attr, line) direct reads of an exempt attribute in cls.method that are not dominated by a write in the same call"""
    import os
    from harness.common import REPO
    rel = 'xrfm/xrfm.py' if cls == 'xRFM' else 'xrfm/rfm_src/recursive_feature_machine.py'
    tree = ast.parse(open(os.path.join(REPO, *rel.split('/'))).read())
    for node in tree.body:
        if isinstance(node, ast.ClassDef) and node.name == cls:
            for it in node.body:
                if isinstance(it, ast.FunctionDef) and it.name == method:
                    out = []
                    for a in attrs:
                        bad = []
                        _definite(it.body, a, False, bad)
                        out += [(a, ln) for ln in bad]
                    return out
    raise ValueError(f'{cls}.{method} not found')


def tuning_metric_shape():
    """None when xRFM.fit touches self.tuning_metric only as `if self.tuning_metric is not None: <reads> else: is_class = ...; self.tuning_metric = 'brier' if is_class else 'mse'`
    (plus later reads); otherwise a description of what differs"""
    import os
    from harness.common import REPO
    tree = ast.parse(open(os.path.join(REPO, 'xrfm', 'xrfm.py')).read())
    fn = None
    for node in tree.body:
        if isinstance(node, ast.ClassDef) and node.name == 'xRFM':
            for it in node.body:
                if isinstance(it, ast.FunctionDef) and it.name == 'fit':
                    fn = it
    if fn is None:
        return 'xRFM.fit not found'
    stores = [n for n in ast.walk(fn) if isinstance(n, ast.Attribute) and isinstance(n.value, ast.Name) and n.value.id == 'self'
              and n.attr == 'tuning_metric' and isinstance(n.ctx, ast.Store)]
    if len(stores) != 1:
        return f'{len(stores)} writes of self.tuning_metric in fit (expected 1)'
    for st in fn.body:
        if isinstance(st, ast.If) and ast.unparse(st.test) == 'self.tuning_metric is not None':
            els = [ast.unparse(x) for x in st.orelse]
            if els != ['is_class = not y.is_floating_point()', "self.tuning_metric = 'brier' if is_class else 'mse'"]:
                return f'else-branch of the tuning_metric test is {els}'
            return None
    return '`if self.tuning_metric is not None` not found at the top level of fit'
