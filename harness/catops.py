"""Fail-closed translator for the categorical fast path (C15): `_get_kernel_matrix_categorical_impl` of LaplaceKernel, ProductLaplaceKernel and LpqLaplaceKernel are
re-read from the current source with `ast` on every run and executed symbolically for one generic pair of rows (x: numerical part xn + one hot index a_g per group;
z: zn + b_g), producing Coq real terms that are proved equal to the models `fast_l2` / `fast_product` / `fast_lpq` of coq/Real/CatFast.v — which that file proves equal
to the DENSE kernels on the one-hot expanded rows for any number of columns, groups and levels.

Symbolic values: ('rows', side, term) numerical rows after the block transform; ('entry', term) an (n_x, n_z) tensor's generic entry;
('table', term-in-g) a per-group (levels x levels) table, indexed with the hot indices of x (rows) and z (columns) -> its (a_g, b_g) entry.
The arg-max over a one-hot block is the hot index; `get_sub_matrix(mat, idx)` is the block of the transform (the transform does not mix groups);
`_transform_m(cat_vecs, mat_cat)` with identity code vectors is the list of rows of that block (`g_rows`).  Internal row batching (`[i:i+bs]`) keeps the generic row.
Anything outside the recognised subset raises TranslationError."""
import ast, os
from harness.common import REPO
from harness.splitarith import TranslationError
from harness.kernelops import _cls_method


def _kw(c):
    return {k.arg: ast.unparse(k.value) for k in c.keywords}


class CSym:
    def __init__(self, cls):
        self.cls = cls
        self.env = {}
        self.dist_fn = None          # name -> (param names, body)
        self.groups_added = False

    def scal(self, e):
        u = ast.unparse(e)
        t = {'self.exponent': 'q', 'self.p': 'p', 'self.bandwidth': 'L'}
        if u in t:
            return t[u]
        if isinstance(e, ast.Constant) and float(e.value) == int(e.value):
            return str(int(e.value))
        if isinstance(e, ast.UnaryOp) and isinstance(e.op, ast.USub):
            return f'(- {self.scal(e.operand)})'
        if isinstance(e, ast.BinOp):
            if isinstance(e.op, ast.Pow) and ast.unparse(e.left) == 'self.bandwidth' and ast.unparse(e.right) == 'self.exponent':
                return '(Rpower L q)'
            for k, s in {ast.Div: '/', ast.Mult: '*'}.items():
                if isinstance(e.op, k):
                    return f'({self.scal(e.left)} {s} {self.scal(e.right)})'
        raise TranslationError(f'{self.cls} (categorical): unsupported scalar {u}')

    # ---- distance helper functions defined inside the method ----
    def call_dist(self, name, a, b):
        params, body = self.dist_fn[name]
        s = CSym(self.cls); s.env = {params[0]: a, params[1]: b}
        for st in body[:-1]:
            s.stmt(st)
        if not isinstance(body[-1], ast.Return):
            raise TranslationError(f'{self.cls}: helper {name} does not end in return')
        return s.val(body[-1].value)

    def cdist(self, e):
        a, b = self.val(e.args[0]), self.val(e.args[1])
        kws = _kw(e)
        if a[0] not in ('rows', 'grows') or b[0] != a[0]:
            raise TranslationError(f'{self.cls}: cdist of {a[0]} and {b[0]}')
        if a[0] == 'rows':
            A, B = a[2], b[2]
            mk = lambda t: ('entry', t)
        else:                                   # the transformed code vectors against themselves: a table over (row index, column index)
            A, B = '(row_of g (g_a g))', '(row_of g (g_b g))'
            mk = lambda t: ('table', t)
        if not kws:
            return mk(f'(cdist2 {A} {B})')
        if set(kws) == {'p'} and kws['p'] in ('self.exponent', 'self.p'):
            return mk(f"(cdistp {'q' if kws['p'] == 'self.exponent' else 'p'} {A} {B})")
        raise TranslationError(f'{self.cls}: cdist keywords {kws}')

    def val(self, e):
        u = ast.unparse(e)
        if isinstance(e, ast.Name):
            if e.id in self.env:
                return self.env[e.id]
            raise TranslationError(f'{self.cls} (categorical): unknown name {e.id}')
        if isinstance(e, ast.Call):
            f = ast.unparse(e.func)
            if f == 'torch.cdist' and len(e.args) == 2:
                return self.cdist(e)
            if f in (self.dist_fn or {}) and len(e.args) == 2:
                return self.call_dist(f, self.val(e.args[0]), self.val(e.args[1]))
            if f == 'get_sub_matrix' and len(e.args) == 2 and ast.unparse(e.args[0]) == 'mat':
                w = ast.unparse(e.args[1])
                if w == 'numerical_indices':
                    return ('tmat', 'tn')
                if w == 'cat_idx':
                    return ('tmat', 'tg')
            if f == 'self._transform_m' and len(e.args) == 2:
                m = self.val(e.args[1])
                inner = e.args[0]
                ui = ast.unparse(inner)
                if m == ('tmat', 'tn') and ui in ('x[:, numerical_indices]', 'z[:, numerical_indices]'):
                    side = ui[0]
                    return ('rows', side, f'(transform tn {side}n)')
                if m == ('tmat', 'tg') and ui == 'cat_vecs':
                    return ('grows',)
            if f in ('torch.zeros', 'torch.zeros_like', 'torch.empty'):
                return ('entry', '0')
            if isinstance(e.func, ast.Attribute) and e.func.attr == 'argmax' and _kw(e) == {'dim': '-1'}:
                ui = ast.unparse(e.func.value)
                if ui == 'x[:, cat_idx]':
                    return ('hot', 'x')
                if ui == 'z[:, cat_idx]':
                    return ('hot', 'z')
        if isinstance(e, ast.BinOp) and isinstance(e.op, ast.Pow):
            a = self.val(e.left)
            if a[0] in ('entry', 'table') and ast.unparse(e.right) == '2':
                return (a[0], f'({a[1]} * {a[1]})')
        if isinstance(e, ast.Subscript):
            s = ast.unparse(e.slice)
            v = self.val(e.value)
            # row slices keep the generic row
            if isinstance(e.slice, ast.Slice) and v[0] in ('rows', 'entry', 'hot'):
                return v
            if s in ('i:i + num_batch_size, :',) and v[0] == 'entry':
                return v
            # table[x_cat[rows, None], z_cat[None, :]]
            if v[0] == 'table' and isinstance(e.slice, ast.Tuple) and len(e.slice.elts) == 2:
                r, c = e.slice.elts
                ur, uc = ast.unparse(r), ast.unparse(c)
                okr = ur in ('x_cat[i:i + batch_size, None]', 'x_cat[:, None]')
                okc = uc in ('z_cat[None, :]',)
                if okr and okc and self.env.get('x_cat') == ('hot', 'x') and self.env.get('z_cat') == ('hot', 'z'):
                    return ('gentry', v[1])
        raise TranslationError(f'{self.cls} (categorical): unsupported expression {u[:120]}')

    def inplace(self, name, op, call):
        v = self.env.get(name)
        if v is None or v[0] not in ('entry', 'table'):
            raise TranslationError(f'{self.cls} (categorical): in-place {op} on {name}')
        cur = v[1]; args = call.args; kws = _kw(call)
        if op == 'clamp_' and not args and kws == {'min': '0'}:
            new = f'(Rmax 0 {cur})'
        elif op == 'sqrt_' and not args and not kws:
            new = f'(sqrt {cur})'
        elif op == 'exp_' and not args and not kws:
            new = f'(exp {cur})'
        elif op == 'pow_' and len(args) == 1 and not kws:
            a = ast.unparse(args[0])
            ex = {'self.exponent': 'q', 'self.p': 'p', '1.0 / self.p': '(/ p)'}.get(a)
            if ex is None:
                raise TranslationError(f'{self.cls} (categorical): pow_({a})')
            new = f'(pw {cur} {ex})'
        elif op == 'mul_' and len(args) == 1 and not kws:
            new = f'({cur} * {self.scal(args[0])})'
        elif op == 'add_' and len(args) == 1 and not kws:
            b = self.val(args[0])
            if b[0] == 'gentry' and v[0] == 'entry':
                if getattr(self, 'in_group_loop', False):
                    self.group_term = b[1]
                    return
                raise TranslationError(f'{self.cls}: group table added outside the loop over groups')
            if b[0] == 'entry' and v[0] == 'entry':
                new = f'({cur} + {b[1]})' if cur != '0' else b[1]
            else:
                raise TranslationError(f'{self.cls} (categorical): add_ of {b[0]}')
        else:
            raise TranslationError(f'{self.cls} (categorical): unsupported in-place {name}.{op}')
        self.env[name] = (v[0], new)

    def cond_inplace(self, st, test, var):
        """if <test>: X.pow_(..)  -> (if Req_EM_T var 1 then before else after)"""
        if not (len(st.body) == 1 and not st.orelse and isinstance(st.body[0], ast.Expr) and isinstance(st.body[0].value, ast.Call)):
            raise TranslationError(f'{self.cls}: conditional statement {ast.unparse(st)[:100]}')
        c = st.body[0].value
        nm = c.func.value.id
        before = self.env[nm]
        self.inplace(nm, c.func.attr, c)
        after = self.env[nm]
        self.env[nm] = (before[0], f'(if Req_EM_T {var} 1 then {before[1]} else {after[1]})')

    def stmt(self, st):
        u = ast.unparse(st)
        if isinstance(st, ast.Expr) and isinstance(st.value, ast.Constant):
            return
        if isinstance(st, ast.Assert):
            return
        if u in ('numerical_indices = self.numerical_indices', 'categorical_indices = self.categorical_indices', 'categorical_vectors = self.categorical_vectors',
                 'batch_size = self.get_sample_batch_size(znum.shape[0], znum.shape[1])', 'num_batch_size = 2 * batch_size'):
            return
        if isinstance(st, ast.FunctionDef):
            if len(st.args.args) != 2:
                raise TranslationError(f'{self.cls}: helper {st.name} arity')
            self.dist_fn = dict(self.dist_fn or {}); self.dist_fn[st.name] = ([a.arg for a in st.args.args], st.body)
            return
        if u == 'if not self.is_adaptive_bandwidth:\n    self._adapt_bandwidth(dist_mat)' or u == 'if not self.is_adaptive_bandwidth:\n    self._adapt_bandwidth(kernel_mat)':
            return
        if isinstance(st, ast.If) and ast.unparse(st.test) == 'self.exponent != 1.0':
            return self.cond_inplace(st, st.test, 'q')
        if isinstance(st, ast.If) and ast.unparse(st.test) == 'self.p != 1.0':
            return self.cond_inplace(st, st.test, 'p')
        if isinstance(st, ast.If) and ast.unparse(st.test) == 'numerical_indices.numel() > 0' and not st.orelse:
            for b in st.body:                                   # with no numerical column the block contributes the zero it was initialised with
                self.stmt(b)
            return
        if isinstance(st, ast.Assign) and len(st.targets) == 1 and isinstance(st.targets[0], ast.Name):
            self.env[st.targets[0].id] = self.val(st.value)
            return
        if isinstance(st, ast.Expr) and isinstance(st.value, ast.Call) and isinstance(st.value.func, ast.Attribute) and isinstance(st.value.func.value, ast.Name):
            return self.inplace(st.value.func.value.id, st.value.func.attr, st.value)
        # X[i:i + batch_size].add_(...) : a block of rows of the accumulator, the generic row stays
        if isinstance(st, ast.Expr) and isinstance(st.value, ast.Call) and isinstance(st.value.func, ast.Attribute) and isinstance(st.value.func.value, ast.Subscript) \
                and isinstance(st.value.func.value.value, ast.Name) and isinstance(st.value.func.value.slice, ast.Slice) \
                and ast.unparse(st.value.func.value.slice) == 'i:i + batch_size':
            return self.inplace(st.value.func.value.value.id, st.value.func.attr, st.value)
        # row-batched fill of the numerical block
        if isinstance(st, ast.For) and ast.unparse(st.iter) == 'range(0, xnum.shape[0], num_batch_size)' and len(st.body) == 1:
            a = st.body[0]
            if isinstance(a, ast.Assign) and ast.unparse(a.targets[0]) == 'kernel_mat[i:i + num_batch_size, :]':
                self.env['kernel_mat'] = self.val(a.value)
                return
        # the loop over the categorical groups
        if isinstance(st, ast.For) and ast.unparse(st.iter) in ('zip(categorical_indices, categorical_vectors)', 'enumerate(zip(categorical_indices, categorical_vectors))'):
            if self.groups_added:
                raise TranslationError(f'{self.cls}: two loops over the groups')
            self.groups_added = True
            self.in_group_loop = True; self.group_term = None
            for b in st.body:
                if isinstance(b, ast.For) and ast.unparse(b.iter) == 'range(0, x.shape[0], batch_size)' and len(b.body) == 1:
                    self.stmt(b.body[0])
                else:
                    self.stmt(b)
            self.in_group_loop = False
            if self.group_term is None:
                raise TranslationError(f'{self.cls}: the loop over the groups adds nothing')
            acc = [k for k, v in self.env.items() if k in ('dist_mat', 'kernel_mat') and v[0] == 'entry']
            if len(acc) != 1:
                raise TranslationError(f'{self.cls}: accumulator of the group loop not identified')
            cur = self.env[acc[0]][1]
            self.env[acc[0]] = ('entry', f'({cur} + rsumR (map (fun g => {self.group_term}) gs))')
            return
        raise TranslationError(f'{self.cls} (categorical): unrecognised statement {u[:140]}')

    def run(self, fn):
        for st in fn.body:
            if isinstance(st, ast.Return):
                v = self.val(st.value)
                if v[0] != 'entry':
                    raise TranslationError(f'{self.cls}: returns a non-entry value')
                if not self.groups_added:
                    raise TranslationError(f'{self.cls}: no loop over the categorical groups')
                return v[1]
            self.stmt(st)
        raise TranslationError(f'{self.cls}: no return')


def generate():
    tree = ast.parse(open(os.path.join(REPO, 'xrfm', 'rfm_src', 'kernels.py')).read())
    g = {c: CSym(c).run(_cls_method(tree, c, '_get_kernel_matrix_categorical_impl')) for c in ('LaplaceKernel', 'ProductLaplaceKernel', 'LpqLaplaceKernel')}
    # dispatch: the categorical implementation is used exactly when set_categorical_indices was called
    gk = _cls_method(tree, 'Kernel', 'get_kernel_matrix')
    body = [ast.unparse(s) for s in gk.body if not (isinstance(s, ast.Expr) and isinstance(s.value, ast.Constant))]
    if body != ['if self.handle_categorical:\n    return self._get_kernel_matrix_categorical_impl(x, z, mat)\nelse:\n    return self._get_kernel_matrix_impl(x, z, mat)']:
        raise TranslationError(f'Kernel.get_kernel_matrix dispatch changed: {body}')
    gs = _cls_method(tree, 'get_sub_matrix', None) if False else None
    fn = [f for f in tree.body if isinstance(f, ast.FunctionDef) and f.name == 'get_sub_matrix'][0]
    b = [ast.unparse(s) for s in fn.body if not (isinstance(s, ast.Expr) and isinstance(s.value, ast.Constant))]
    if b != ['if mat is None:\n    return None', 'if len(mat.shape) == 1:\n    return mat[indices]\nelse:\n    return mat[indices][:, indices]']:
        raise TranslationError(f'get_sub_matrix is not (None | vector block | square block): {b}')
    # block-restricted AGOP: gradients, optional centring, zero matrix, the numerical block and each categorical block filled with G[:, idx]^T G[:, idx]
    fa = _cls_method(tree, 'Kernel', 'get_agop_categorical')
    ba = [ast.unparse(s) for s in fa.body if not (isinstance(s, ast.Expr) and isinstance(s.value, ast.Constant))]
    want_a = ['numerical_indices = self.numerical_indices', 'categorical_indices = self.categorical_indices', 'f_grads = self.get_function_grads(x, z, coefs, mat)',
              'f_grads = f_grads.reshape(-1, f_grads.shape[-1])', 'if center_grads:\n    f_grads = f_grads - f_grads.mean(dim=0, keepdim=True)', 'd = x.shape[1]',
              'agop = torch.zeros((d, d), device=x.device, dtype=x.dtype)',
              'if numerical_indices is not None and len(numerical_indices) > 0:\n    agop[numerical_indices[:, None], numerical_indices] = f_grads[:, numerical_indices].T @ f_grads[:, numerical_indices]',
              'if categorical_indices is not None:\n    for cat_idx in categorical_indices:\n        agop[cat_idx[:, None], cat_idx] = f_grads[:, cat_idx].T @ f_grads[:, cat_idx]', 'return agop']
    if ba != want_a:
        k = next((i for i in range(min(len(ba), len(want_a))) if ba[i] != want_a[i]), min(len(ba), len(want_a)))
        raise TranslationError(f'Kernel.get_agop_categorical changed at statement {k}: {(ba[k] if k < len(ba) else "<missing>")[:160]!r}')
    return f'''(* GENERATED on every run by harness/catops.py from /repo/xrfm/rfm_src/kernels.py — do not edit *)
From Coq Require Import Reals List Lra.
Require Import XV.Real.Kernels XV.Real.Grads XV.Real.Categorical XV.Real.CatFast.
Import ListNotations.
Local Open Scope R_scope.
Definition gen_fast_l2 (tn : tmat) (L q : R) (xn zn : list R) (gs : list group) : R := {g['LaplaceKernel']}.
Definition gen_fast_product (tn : tmat) (L q : R) (xn zn : list R) (gs : list group) : R := {g['ProductLaplaceKernel']}.
Definition gen_fast_lpq (tn : tmat) (L p q : R) (xn zn : list R) (gs : list group) : R := {g['LpqLaplaceKernel']}.
'''


LEMMAS = r'''
(* ---- generated = model ---- *)
Lemma sq_cdist2 A B : Rmax 0 (cdist2 A B * cdist2 A B) = sumsq (vsubR A B).
Proof. unfold cdist2. rewrite sqrt_sqrt by apply sumsq_nonneg. apply Rmax_right, sumsq_nonneg. Qed.
Lemma pow_cdistp r A B : 0 < r ->
  (if Req_EM_T r 1 then Rmax 0 (cdistp r A B) else pw (Rmax 0 (cdistp r A B)) r) = sum_abs_pow r (vsubR A B).
Proof.
  intros Hr. unfold cdistp. rewrite Rmax_right by (apply pw_nonneg, sum_abs_pow_nonneg).
  destruct (Req_EM_T r 1) as [->|_]; [|apply pw_root_pow; [apply sum_abs_pow_nonneg|exact Hr]].
  rewrite Rinv_1. apply pw_one, sum_abs_pow_nonneg.
Qed.
Lemma rsumR_map_nonneg {A} (f : A -> R) l : (forall a, 0 <= f a) -> 0 <= rsumR (map f l).
Proof. intros H. apply rsumR_nonneg. apply Forall_forall. intros y Hy. apply in_map_iff in Hy. destruct Hy as [a [<- _]]. apply H. Qed.

Lemma gen_fast_l2_eq_model : forall tn L q xn zn gs, gen_fast_l2 tn L q xn zn gs = fast_l2 tn L q xn zn gs.
Proof.
  intros. unfold gen_fast_l2, fast_l2. rewrite sq_cdist2.
  rewrite (map_ext (fun g => Rmax 0 (cdist2 (row_of g (g_a g)) (row_of g (g_b g)) * cdist2 (row_of g (g_a g)) (row_of g (g_b g)))) table2)
    by (intros g; apply sq_cdist2). reflexivity.
Qed.
Lemma gen_fast_product_eq_model : forall tn L q xn zn gs, 0 < q -> gen_fast_product tn L q xn zn gs = fast_product tn L q xn zn gs.
Proof.
  intros tn L q xn zn gs Hq. unfold gen_fast_product, fast_product. rewrite pow_cdistp by exact Hq.
  rewrite (map_ext (fun g => if Req_EM_T q 1 then Rmax 0 (cdistp q (row_of g (g_a g)) (row_of g (g_b g))) else pw (Rmax 0 (cdistp q (row_of g (g_a g)) (row_of g (g_b g)))) q) (tablep q))
    by (intros g; apply pow_cdistp; exact Hq). reflexivity.
Qed.
Lemma gen_fast_lpq_eq_model : forall tn L p q xn zn gs, 0 < p -> gen_fast_lpq tn L p q xn zn gs = fast_lpq tn L p q xn zn gs.
Proof.
  intros tn L p q xn zn gs Hp. unfold gen_fast_lpq, fast_lpq. rewrite !pow_cdistp by exact Hp.
  rewrite !(map_ext (fun g => if Req_EM_T p 1 then Rmax 0 (cdistp p (row_of g (g_a g)) (row_of g (g_b g))) else pw (Rmax 0 (cdistp p (row_of g (g_a g)) (row_of g (g_b g)))) p) (tablep p))
    by (intros g; apply pow_cdistp; exact Hp).
  set (S := sum_abs_pow p (vsubR (transform tn xn) (transform tn zn)) + rsumR (map (tablep p) gs)).
  assert (HS : 0 <= S).
  { unfold S. pose proof (sum_abs_pow_nonneg p (vsubR (transform tn xn) (transform tn zn))).
    pose proof (rsumR_map_nonneg (tablep p) gs (fun g => sum_abs_pow_nonneg p _)). lra. }
  rewrite Rmax_right by exact HS. destruct (Req_EM_T p 1) as [->|_]; [|reflexivity].
  rewrite Rinv_1, pw_one by exact HS. reflexivity.
Qed.
'''


def check_translation(ck, lemmas_text=LEMMAS):
    from harness.common import coqc
    try:
        txt = generate() + lemmas_text
        p = os.path.join(ck.bdir, 'CatOps_gen.v')
        open(p, 'w').write(txt)
        rc, out, dt = coqc(p)
        ck.checker_cmds.append(f'coqc build/{ck.pid}/run_<pid>/CatOps_gen.v')
        ck.obligation('CatOps_gen.v: the categorical fast paths of the L2 / product / Lpq kernels (block transforms, numerical distance, per-group tables of the transformed '
                      'identity codes indexed by the hot indices, root / powers / scaling), re-translated from the source for a generic pair of rows, equal the Coq models fast_l2 / '
                      'fast_product / fast_lpq (proved equal to the dense kernels on the one-hot rows)', 'translation', rc == 0, out)
        return rc == 0
    except TranslationError as e:
        ck.obligation('catops translator recognises the source', 'translation', False, str(e))
        return False
