"""C14 — Learned feature matrix is the normalised AGOP with a consistent square root."""
import json, math
from fractions import Fraction
import numpy as np
import torch
from harness.common import *

HEADER = '''From Coq Require Import QArith List Bool Arith.
Require Import XV.Model.Tree XV.Model.Soft XV.Model.Agop.
Import ListNotations. Open Scope Q_scope.
'''


def _autograd_agop(kern, C, Z0, A, M, root, Lb, q, p, diag):
    """Statement-level oracle, float64, nothing of the library's gradient code: the predictor is
           f_l(z) = sum_i A[i, l] k(c_i, z),    k = exp(-dist(c_i, z)^q / Lb^q)
       with the DOCUMENTED distance of each kernel under the current feature matrix:
           l2_high_dim (consumes M itself):   dist^2 = (c - z)^T M (c - z)            (M a vector = diagonal matrix, None = identity)
           l2 (consumes the stored root R):   dist   = ||(c - z) R||_2
           lpq:                               dist   = ||(c - z) R||_p
           l1 (product kernel):               dist^q = sum_k |((c - z) R)_k|^q
       Gradients are taken by automatic differentiation at every row of Z0, each point's own kernel term (and that of an exactly
       repeated row) left out; returned: sum over points and outputs of g g^T (diagonal mode: of g*g), divided by its largest entry."""
    C = C.double(); Z0 = Z0.double(); A = A.double().reshape(C.shape[0], -1)
    Z = Z0.clone().requires_grad_(True)
    U = C[:, None, :] - Z[None, :, :]                                     # (n_centers, n_points, d)
    own = ((C[:, None, :] - Z0[None, :, :]).abs().amax(-1) == 0).double()  # own term / exactly repeated row
    if kern == 'l2_high_dim':
        Mm = None if M is None else M.double()
        if Mm is None:
            d2 = (U * U).sum(-1)
        elif Mm.dim() == 1:
            d2 = (U * U * Mm[None, None, :]).sum(-1)
        else:
            d2 = ((U @ Mm) * U).sum(-1)
        Dq = torch.sqrt(d2 + own) ** q          # the entries under `own` are dropped below; the shift keeps sqrt'(0) out of the graph
    else:
        R = None if root is None else root.double()
        V = U if R is None else (U * R[None, None, :] if R.dim() == 1 else U @ R)
        if kern == 'l2':
            Dq = torch.sqrt((V * V).sum(-1) + own) ** q
        elif kern == 'lpq':
            Dq = ((V.abs() ** p).sum(-1) + own) ** (q / p)
        elif kern == 'l1':
            Dq = (V.abs() ** q).sum(-1)
        else:
            raise ValueError(kern)
    K = torch.exp(-Dq / Lb ** q) * (1 - own)
    d = C.shape[1]
    raw = torch.zeros(d, d, dtype=torch.float64)
    for l in range(A.shape[1]):
        F = (A[:, l][:, None] * K).sum()                                   # sum_j f_l(z_j): z_j only enters column j
        (G,) = torch.autograd.grad(F, Z, retain_graph=True)
        raw += G.t() @ G
    if diag:
        dg = torch.diagonal(raw)
        return dg / dg.max()
    return raw / raw.max()


def _rounds_regime(ck, xr, rng):
    """Several rounds (iteration budgets 2..4): the feature matrix learned at EVERY round — and the AGOP reported for the selected model — is compared
    with the normalised AGOP of the predictor the object holds AT THAT MOMENT (its centers, coefficients, bandwidth and CURRENT feature matrix / root, which
    from the second round on is no longer the identity), gradients by automatic differentiation of the documented kernel.  All four kernels with a closed
    distance form, including the memory-light L2 kernel (which consumes M itself, not a root), diagonal and full mode, 1..3 outputs, accumulation batch
    sizes None / 1 / 7 / n, exponents 1 / 1.3 / 1.7, early stopping on and off."""
    T = lambda a: torch.tensor(a, dtype=torch.float64)
    K4 = ['l2_high_dim', 'l2', 'l1', 'lpq']
    worst = 0.0
    for i in range(ck.n(16, 48)):
        kern = K4[i % 4]
        diag = (i % 3 != 0)                       # two thirds diagonal: that is where vector-valued M and the root / no-root conventions can be confused
        iters = 2 + (i // 2) % 3
        nout = 1 + (i // 4 + i) % 3
        q = [1.0, 1.3, 1.7][(i // 4) % 3]
        p = [1.5, 2.0][(i // 8) % 2]
        if kern == 'lpq':
            q = min(q, p)
        n = int(rng.integers(12, 21)); d = int(rng.integers(3, 6))
        Lb = [2.0, 3.0, 5.0][i % 3]
        bsz = [None, 1, 7, n][(i // 3) % 4]
        early = (i % 5 == 4)
        reg = [1e-3, 1e-2][i % 2]
        X = rng.standard_normal((n, d)) * np.array([1.0, 0.7, 1.4, 1.0, 0.5])[:d]       # unequal feature scales: M moves away from the all-ones vector at once
        W = rng.standard_normal((d, nout)) * (rng.random((d, 1)) < 0.7)
        Y = np.sin(X @ W) + 0.3 * (X ** 2) @ np.abs(W) + 0.05 * rng.standard_normal((n, nout))
        nv = 6
        Xv = rng.standard_normal((nv, d)) * np.array([1.0, 0.7, 1.4, 1.0, 0.5])[:d]
        Yv = np.sin(Xv @ W) + 0.3 * (Xv ** 2) @ np.abs(W)
        desc = dict(kind='rounds', i=i, kernel=kern, diag=diag, iters=iters, nout=nout, exponent=q, norm_p=(p if kern == 'lpq' else None), n=n, d=d,
                    bandwidth=Lb, M_batch_size=bsz, early_stop_rfm=early, reg=reg, seed=ck.seed)
        xr.seed_all(1440 + i + ck.seed)
        m = xr.RealRFM(kernel=kern, iters=iters, bandwidth=Lb, exponent=q, device='cpu', diag=diag, verbose=False, tuning_metric='mse',
                       **(dict(norm_p=p) if kern == 'lpq' else {}))
        calls = []
        orig_fit_M = m.fit_M
        def spy(samples, *a, _m=m, _orig=orig_fit_M, _calls=calls, **kw):
            st = dict(samples=samples.detach().clone(), centers=_m.centers.detach().clone(), weights=_m.weights.detach().clone(),
                      M=None if _m.M is None else _m.M.detach().clone(), root=None if _m.sqrtM is None else _m.sqrtM.detach().clone(),
                      bandwidth=float(_m.kernel_obj.bandwidth), inplace=kw.get('inplace', True))
            r = _orig(samples, *a, **kw)
            st['result'] = (_m.M if st['inplace'] else r).detach().clone()
            _calls.append(st)
            return r
        m.fit_M = spy
        try:
            with xr.quiet():
                Ms = m.fit((T(X), T(Y)), (T(Xv), T(Yv)), iters=iters, reg=reg, verbose=False, return_Ms=True, get_agop_best_model=True,
                           M_batch_size=bsz, early_stop_rfm=early)
        except Exception as e:
            ck.violation(f'fit raised {e!r} on {desc}', dict(desc), key='fit-raise'); continue
        finally:
            m.fit_M = orig_fit_M
        ck.count(f'rounds: kernel={kern}, {"diag" if diag else "full"}'); ck.count(f'rounds: iteration budget {iters}')
        rounds_seen = 0
        for r, st in enumerate(calls):
            what_r = f'round {r + 1}' if st['inplace'] else 'the selected model (agop_best_model)'
            amax = float(st['weights'].abs().max())
            # float64 throughout.  The memory-light kernel does not mask a point's own term (computed self distance of order sqrt(ulp), see the comment in run());
            # what is left of it is proportional to the coefficients.  Everything else agrees to ~1e-12; a wrong gradient / matrix moves entries by 1e-3..1.
            tol = 1e-6 + (1e-7 * amax if kern == 'l2_high_dim' else 0.0) + (1.1e-8 if (m.use_sqrtM and not diag) else 0.0)
            want = _autograd_agop(kern, st['centers'], st['samples'], st['weights'], st['M'], st['root'], st['bandwidth'], q, p, diag)
            got = st['result'].double()
            trivial_M = st['M'] is None
            rounds_seen += 0 if trivial_M else 1
            cdesc = dict(desc, call=r, inplace=st['inplace'], current_M_is_identity=trivial_M)
            ck.case(cdesc, nontrivial=not trivial_M)
            if got.shape != want.shape or not bool(torch.isfinite(got).all()):
                ck.violation(f'feature matrix of {what_r} has shape {tuple(got.shape)} / non-finite entries on {desc}', dict(cdesc, got=got.tolist()),
                             key=json.dumps(dict(site='agop', what='rounds-shape'))); continue
            dev = float((got - want).abs().max())
            worst = max(worst, dev / tol) if dev == dev else worst
            if not (dev <= tol):
                cur = 'identity' if trivial_M else [round(v, 6) for v in (st['M'].double().flatten().tolist())]
                ck.violation(f'the feature matrix learned at {what_r} differs by {dev:.3g} (tolerance {tol:.2g}) from the normalised AGOP of the current predictor '
                             f'(automatic derivatives of the documented {kern} kernel under the current feature matrix {cur}, own terms left out): '
                             f'library {[round(v, 6) for v in got.flatten().tolist()]} vs {[round(v, 6) for v in want.flatten().tolist()]} on {desc}',
                             dict(cdesc, X=X.tolist(), Y=Y.tolist(), X_val=Xv.tolist(), Y_val=Yv.tolist(), dev=dev, tol=tol, got=got.tolist(), want=want.tolist(),
                                  current_M=None if trivial_M else st['M'].tolist(), coefficients=st['weights'].tolist(), bandwidth=st['bandwidth']),
                             key=json.dumps(dict(site='agop', what='rounds-independent-gradient', kernel=kern, diag=diag)))
        ck.count('rounds: AGOP taken under a feature matrix other than the identity', rounds_seen)
        # what fit() hands back per round is what that round learned; the reported AGOP is the last (not in place) call
        inpl = [st for st in calls if st['inplace']]
        if Ms is not None and len(Ms) <= len(inpl):
            for r, rec in enumerate(Ms):
                if rec is not None and float((rec.double() - inpl[r]['result'].double()).abs().max()) > 1e-12:
                    ck.violation(f'the matrix recorded for round {r + 1} (return_Ms) is not the one that round learned on {desc}', dict(desc, round=r),
                                 key=json.dumps(dict(site='agop', what='recorded-rounds')))
                    break
    ck.notes.append(f'rounds regime: largest deviation from the automatic-derivative AGOP = {worst:.3g} x tolerance')


def run(ck):
    from harness import xr
    ck.rule = ("small fitted leaf models (all CPU kernels, diagonal/full, 1-3 outputs, centring on/off): fit_M(inplace=False) for accumulation batch sizes "
               "1..n; the implementation's OWN get_function_grads output (exact rationals) is fed to the Coq Q model (sum of outer products, batches, "
               "centring, normalisation by the largest entry) and compared with the implementation's M; batch independence, symmetry, PSD, max entry, "
               "sqrtM^2 = M, finiteness; agop_best_model vs the returned predictor; "
               "multi-round fits (budgets 2..4, l2 / memory-light l2 / l1 / lpq, diagonal and full): every round's matrix and the reported AGOP vs automatic derivatives of the "
               "documented kernel under the CURRENT (non-identity) feature matrix. non-trivial = >= 2 batches; distinct by configuration hash")
    ck.trusted += ['Coq 8.16.1 kernel + vm_compute', 'float -> Q printing', 'the gradient values themselves are validated under C04']
    ck.assumptions += ['SVD-based matrix root: contract R R = M checked numerically', 'tolerance 1e-9 (float64); 1e-6 for the memory-light kernel (own-term cancellation noise, see comment in harness/c14.py)',
                       'n <= total_points_to_sample (20000): no truncation of the batch list']
    ck.check_theorems()
    from harness import gradops
    gradops.check_translation(ck)
    from harness import agopops
    agopops.check_translation(ck)
    rng = np.random.default_rng(ck.seed + 1414)
    kernels = [('l2', {}), ('l2_high_dim', {}), ('l1', {}), ('lpq', dict(norm_p=1.5)), ('sum_power_laplace', {})]
    cases = []; meta = {}
    nconf = ck.n(15, 90)
    T = lambda a: torch.tensor(a, dtype=torch.float64)
    for i in range(nconf):
        kern, extra = kernels[i % 5]
        diag = bool((i // 5) % 2)
        nout = [1, 2, 3][i % 3]
        centring = (i % 4 == 3)
        n = int(rng.integers(6, 12)); d = int(rng.integers(2, 4))
        X = rng.standard_normal((n, d)); Y = rng.standard_normal((n, nout))
        if i % 2 == 0:
            X[1] = X[0]; X[n - 1] = X[0]; X[3] = X[2]       # exactly repeated training rows (their targets differ): every occurrence is a training point
        iters = int(rng.integers(1, 4))
        xr.seed_all(1400 + i + ck.seed)
        m = xr.RealRFM(kernel=kern, iters=iters, bandwidth=2.0, exponent=[1.0, 1.3][i % 2], device='cpu', diag=diag, verbose=False, tuning_metric='mse', **extra)
        desc = dict(i=i, kernel=kern, diag=diag, nout=nout, centring=centring, n=n, d=d, iters=iters, repeated_rows=(i % 2 == 0), seed=ck.seed)
        try:
            with xr.quiet():
                Ms = m.fit((T(X), T(Y)), (T(X[:4]), T(Y[:4])), iters=iters, reg=1e-2, verbose=False, center_grads=centring, return_Ms=True,
                           get_agop_best_model=True, M_batch_size=[None, 1, 3, n][i % 4])
        except Exception as e:
            ck.violation(f'fit raised {e!r} on {desc}', dict(desc), key='fit-raise'); continue
        # the memory-light kernel forms distances as ||x||^2 - 2 x.z + ||z||^2: a point's own term has a computed distance of order
        # sqrt(ulp) instead of 0, is not masked, and cancels only up to ~1e-8 between the two einsums of its gradient -> 1e-9-size,
        # batch-dependent noise in the AGOP.  Tolerance for that kernel is 1e-6, for all others 1e-9.
        tolA = 1e-6 if kern == 'l2_high_dim' else 1e-9
        tolQ = '(1#1000000)' if kern == 'l2_high_dim' else '(1#100000000)'
        if kern == 'l2_high_dim':
            # ... and that noise is proportional to the coefficients: exactly repeated rows with different targets get coefficients of order 1/(2 reg) = 50
            amax = float(m.weights.abs().max())
            if amax > 10:
                tolA = 1e-7 * amax; tolQ = f'({int(amax) + 1}#10000000)'
            ck.notes.append(f'light kernel: max |coefficient| {amax:.3g}, AGOP tolerance {tolA:.2g}') if amax > 10 else None
        ck.count(f'kernel={kern}'); ck.count('diag' if diag else 'full'); ck.count(f'centring={centring}'); ck.count(f'outputs={nout}')
        mat = m.sqrtM if m.use_sqrtM else m.M
        with xr.quiet():
            Gt = m.kernel_obj.get_function_grads(m.centers, m.centers, m.weights.t(), mat).double().numpy()       # (f, n, d)
        # per point: rows of all outputs
        Gp = [[Gt[l, j].tolist() for l in range(Gt.shape[0])] for j in range(n)]
        results = {}
        for b in sorted({1, 2, 3, n - 1, n, n + 5}):
            with xr.quiet():
                Mb = m.fit_M(m.centers, nout, M_batch_size=b, inplace=False).double().numpy()
            results[b] = Mb
            probs = []
            if not np.all(np.isfinite(Mb)):
                probs.append('AGOP has non-finite entries')
            if not diag:
                if np.max(np.abs(Mb - Mb.T)) > 1e-12:
                    probs.append('AGOP not symmetric')
                if np.linalg.eigvalsh((Mb + Mb.T) / 2).min() < -1e-9:
                    probs.append('AGOP not positive semi-definite')
            # kernels that consume a root get 1e-8 added to the diagonal by the matrix-power routine, in place, so the stored / returned M carries it
            ridge = 1e-8 if (m.use_sqrtM and not diag) else 0.0
            if not centring and abs(Mb.max() - 1.0) > tolA + ridge and np.abs(Gt).max() > 1e-12:
                probs.append(f'largest entry of the normalised AGOP is {Mb.max()}, not 1')
            # independent statement-level recomputation (no centring): sum over points and outputs of g g^T, divided by its max
            if not centring:
                flat = Gt.reshape(-1, d)
                S = (flat ** 2).sum(0) if diag else flat.T @ flat
                S = S / (S.max() + 1e-30)
                # kernels that consume a root: the matrix-power routine adds 1e-8 to the diagonal in place, so the returned matrix may carry it;
                # the property does not ask for it, so both forms are accepted (an implementation detail must not raise an alarm)
                devS = float(np.max(np.abs(S - Mb)))
                if not diag and m.use_sqrtM:
                    devS = min(devS, float(np.max(np.abs(S + 1e-8 * np.eye(d) - Mb))))
                if devS > tolA:
                    probs.append(f'AGOP differs from the normalised sum of gradient outer products by {devS:.3g} at batch size {b}')
            if centring and b >= n:
                # centring with ONE accumulation batch (no batch can split the mean): the gradients of all points and outputs are centred on their common mean
                flat = Gt.reshape(-1, d); flat = flat - flat.mean(0, keepdims=True)
                S = (flat ** 2).sum(0) if diag else flat.T @ flat
                S = S / (S.max() + 1e-30)
                devS = float(np.max(np.abs(S - Mb)))
                if not diag and m.use_sqrtM:
                    devS = min(devS, float(np.max(np.abs(S + 1e-8 * np.eye(d) - Mb))))
                if devS > tolA:
                    probs.append(f'centred AGOP (one batch) differs from the normalised sum of outer products of the jointly centred gradients by {devS:.3g}')
            for p_ in probs:
                ck.violation(p_ + f' (batch size {b}) on {desc}', dict(desc, b=b, problem=p_), key=json.dumps(dict(site='agop', what=p_[:25], centring=centring)))
            ck.case(dict(desc, b=b), nontrivial=(b < n), sample=(i == 1 and b == 2))
            # Coq: model on the implementation's own gradients
            rq = coq_Q(Fraction(1, 10 ** 8)) if (m.use_sqrtM and not diag) else '0'
            if diag:
                coq = f'Qlist_close {tolQ} (normalise_vec (agop_diag {d}%nat {coq_bool(centring)} {b}%nat {coq_list([coq_Qmat(p) for p in Gp])})) {coq_Qlist(Mb.tolist())}'
            else:
                gq = coq_list([coq_Qmat(p) for p in Gp])
                coq = (f'(let A := normalise_mat (agop {d}%nat {coq_bool(centring)} {b}%nat {gq}) in let M := {coq_Qmat(Mb.tolist())} in '
                       f'mat_close {tolQ} (add_ridge {rq} A) M || mat_close {tolQ} A M)')
            cid = len(cases); cases.append((cid, coq)); meta[cid] = dict(desc, b=b)
        # diagonal mode is the diagonal of the full matrix (same gradients, same centring option, any number of outputs)
        with xr.quiet():
            cf = m.weights.t()
            Ad = m.kernel_obj.get_agop_diag(m.centers, m.centers, cf, mat, center_grads=centring).double().numpy()
            Afull = m.kernel_obj.get_agop(m.centers, m.centers, cf, mat, center_grads=centring).double().numpy()
        devd = float(np.max(np.abs(Ad - np.diag(Afull))))
        if devd > tolA * (1 + float(np.abs(Afull).max())):
            ck.violation(f'diagonal-mode AGOP is not the diagonal of the full AGOP (max dev {devd:.3g}; {nout} outputs, centring={centring}) on {desc}',
                         dict(desc, diag_mode=Ad.tolist(), diagonal_of_full=np.diag(Afull).tolist()), key=json.dumps(dict(site='diag-vs-full', centring=centring)))
        # batch-size independence
        ref = results[n]
        for b, Mb in results.items():
            dev = float(np.max(np.abs(Mb - ref)))
            if dev > tolA:
                ck.violation(f'AGOP depends on the accumulation batch size: max difference {dev:.3g} between batch sizes {b} and {n} (centring={centring}) on {desc}',
                             dict(desc, b=b, dev=dev), key=json.dumps(dict(site='batch-dependence', centring=centring)))
        # stored root squares back to the stored matrix; diagonal mode is the diagonal of the full matrix; AGOP of the returned predictor
        if m.use_sqrtM and m.sqrtM is not None and m.M is not None:
            R = m.sqrtM.double().numpy(); Mm = m.M.double().numpy()
            RR = R * R if diag else R @ R
            if np.max(np.abs(RR - Mm)) > 1e-7:
                ck.violation(f'stored root does not square back to the stored feature matrix (max dev {np.max(np.abs(RR - Mm)):.3g}) on {desc}', dict(desc), key='root')
        with xr.quiet():
            fresh = m.fit_M(m.centers, nout, M_batch_size=n, inplace=False).double().numpy()
        if np.max(np.abs(fresh - m.agop_best_model.double().numpy())) > tolA + (1.1e-8 if (m.use_sqrtM and not diag) else 0.0):
            ck.violation(f'agop_best_model is not the AGOP of the returned predictor on {desc}', dict(desc), key='agop-best')
        if not diag and not centring:
            md = xr.RealRFM(kernel=kern, iters=0, bandwidth=2.0, exponent=[1.0, 1.3][i % 2], device='cpu', diag=False, verbose=False, **extra)
    # ---- independent gradients: for the L2 and product kernels (exponents 1, 1.4 and EXACTLY 2) the matrix fit_M computes is compared with the normalised sum of outer products
    #      of the gradients of the CURRENT predictor obtained by automatic differentiation (float64) of the documented closed form, each point's own term left out —
    #      nothing of the library's gradient code is used
    for i in range(ck.n(9, 36)):
        kern = ['l2', 'l1', 'lpq'][i % 3]; qi = [2.0, 1.0, 1.4, 2][(i // 2) % 4]; diag_i = bool((i // 3) % 2); nout_i = [1, 2, 3][i % 3] if i % 3 == 2 else [1, 2][i % 2]      # lpq: norm p = 2 (the Euclidean norm through the p-norm code path), 3 outputs
        n_i, d_i = 12, 3
        Xi = rng.standard_normal((n_i, d_i)); Yi = rng.standard_normal((n_i, nout_i))
        desci = dict(kind='independent-gradient', i=i, kernel=kern, exponent=qi, diag=diag_i, nout=nout_i, n=n_i, d=d_i, seed=ck.seed)
        xr.seed_all(1470 + i + ck.seed)
        mi = xr.RealRFM(kernel=kern, iters=1, bandwidth=2.5, exponent=qi, device='cpu', diag=diag_i, verbose=False, tuning_metric='mse', **(dict(norm_p=2.0) if kern == 'lpq' else {}))
        try:
            with xr.quiet():
                mi.fit((T(Xi), T(Yi)), (T(Xi[:5]), T(Yi[:5])), iters=1, reg=1e-2, verbose=False, return_best_params=False)
                got_i = mi.fit_M(mi.centers, nout_i, M_batch_size=n_i, inplace=False).double()
        except Exception as e:
            ck.violation(f'fit raised {e!r} on {desci}', dict(desci), key='fit-raise'); continue
        C = mi.centers.double(); A = mi.weights.double().reshape(n_i, -1); Lb = float(mi.kernel_obj.bandwidth); q_ = float(qi)
        Tm = mi.sqrtM if mi.use_sqrtM else mi.M
        def tr(v):
            if Tm is None:
                return v
            return v * Tm.double() if Tm.dim() == 1 else v @ Tm.double()
        raw = torch.zeros(d_i, d_i, dtype=torch.float64)
        for k in range(n_i):
            keep = [j for j in range(n_i) if j != k and float((C[j] - C[k]).abs().max()) > 0]
            x = C[k].clone().requires_grad_(True)
            U = tr(x[None, :] - C[keep])
            if kern in ('l2', 'lpq'):
                Kv = torch.exp(-(U.pow(2).sum(1).sqrt() ** q_) / Lb ** q_)
            else:
                Kv = torch.exp(-(U.abs() ** q_).sum(1) / Lb ** q_)
            f = Kv @ A[keep]
            for l in range(f.shape[0]):
                g = torch.autograd.grad(f[l], x, retain_graph=True)[0]
                raw += torch.outer(g, g)
        want_i = raw / raw.max()
        if got_i.dim() == 1:
            want_i = torch.diagonal(raw) / torch.diagonal(raw).max()
        dev_i = float((got_i - want_i).abs().max())
        ck.case(dict(desci, dev=dev_i), nontrivial=True); ck.count(f'independent gradient, exponent {qi!r}')
        if not (dev_i <= 1e-6):
            ck.violation(f'fit_M differs by {dev_i:.3g} from the normalised AGOP of the current predictor computed from automatic derivatives of the documented kernel '
                         f'(own terms left out) on {desci}', dict(desci, dev=dev_i, got=got_i.tolist(), want=want_i.tolist()), key=json.dumps(dict(site='agop', what='independent-gradient', kernel=kern)))
    # ---- wide data (more features than samples), several rounds with return_Ms: the matrix recorded at EVERY round is the normalised AGOP of that round's predictor
    #      (recomputed independently from the gradients of a model rebuilt from that round's state is expensive; the cheap necessary condition: the recorded matrices
    #      of different rounds differ from each other as much as successive fit_M(inplace=False) calls say, and the LAST recorded matrix is the stored one)
    for i in range(ck.n(3, 9)):
        kern, extra = [('l2', {}), ('l2_high_dim', {}), ('l1', {})][i % 3]
        n, d, nout = 9, 12, 1 + i % 2
        Xw = rng.standard_normal((n, d)); Yw = rng.standard_normal((n, nout))
        xr.seed_all(1470 + i + ck.seed)
        mw = xr.RealRFM(kernel=kern, iters=3, bandwidth=4.0, exponent=1.0, device='cpu', diag=bool(i % 2), verbose=False, tuning_metric='mse', **extra)
        descw = dict(kind='wide', i=i, kernel=kern, n=n, d=d, nout=nout, diag=bool(i % 2), seed=ck.seed)
        snaps = []
        orig_fit_M = mw.fit_M
        def spy(*a, **kw):
            r = orig_fit_M(*a, **kw)
            if kw.get('inplace', True) and mw.M is not None:
                snaps.append(mw.M.detach().clone())
            return r
        mw.fit_M = spy
        try:
            with xr.quiet():
                Ms = mw.fit((T(Xw), T(Yw)), (T(Xw[:4]), T(Yw[:4])), iters=3, reg=1e-2, verbose=False, return_Ms=True, return_best_params=False)
        except Exception as e:
            ck.violation(f'fit on wide data raised {e!r} on {descw}', dict(descw), key='fit-raise'); continue
        ck.case(descw, nontrivial=True); ck.count('wide data (d > n), recorded per-round matrices')
        Ms = [m_ for m_ in (Ms or []) if m_ is not None]
        if len(Ms) >= 2 and len(snaps) >= len(Ms):
            for r, (rec_M, snap) in enumerate(zip(Ms, snaps)):
                dev = float((rec_M.double() - snap.double()).abs().max())
                if dev > 1e-9:
                    ck.violation(f'the matrix recorded for round {r} (return_Ms) differs by {dev:.3g} from the feature matrix that round actually learned (it equals a later round\'s matrix: '
                                 f'{float((rec_M.double() - snaps[-1].double()).abs().max()):.2g} from the last one) on {descw}', dict(descw, round=r, dev=dev), key=json.dumps(dict(site='agop', what='recorded-rounds')))
                    break
    # ---- fast-converging fits: noise-free linear targets, 4-5 rounds, full matrices — consecutive iterates differ by 1e-3 or less; every stored
    #      (and every per-round) matrix must still come with ITS OWN root, and stay symmetric / PSD / normalised
    for i in range(ck.n(8, 16)):
        kern, extra = [('l2', {}), ('l1', {}), ('lpq', dict(norm_p=1.5)), ('sum_power_laplace', {})][i % 4]
        n, d, nout = 80, 3, [1, 2][i % 2]
        # every other pair: targets recorded in small units (1e-4): tiny gradients, the un-normalised accumulator is of order 1e-8
        # ... and in very small units (1e-10 in float64, 1e-5 in float32): the un-normalised accumulator is below the machine epsilon of its dtype, its largest
        # entry is still what it is divided by (the normalised matrix does not depend on the units of the targets)
        yscale = [1.0, 1e-4, 1e-10, 1e-5][(i // 2) % 4]
        Tc = (lambda a: torch.tensor(a, dtype=torch.float32)) if yscale == 1e-5 else T
        X = rng.standard_normal((n, d)); W = rng.standard_normal((d, nout)); Y = X @ W * yscale
        iters = [4, 5][i % 2]
        xr.seed_all(1490 + i + ck.seed)
        m = xr.RealRFM(kernel=kern, iters=iters, bandwidth=5.0, exponent=1.0, device='cpu', diag=False, verbose=False, tuning_metric='mse', **extra)
        desc = dict(kind='converging', i=i, kernel=kern, n=n, d=d, nout=nout, iters=iters, target_scale=yscale, seed=ck.seed)
        try:
            with xr.quiet():
                m.fit((Tc(X), Tc(Y)), (Tc(X[:20]), Tc(Y[:20])), iters=iters, reg=1e-3, verbose=False, return_best_params=False)
        except Exception as e:
            ck.violation(f'fit raised {e!r} on {desc}', dict(desc), key='fit-raise'); continue
        ck.case(desc, nontrivial=True); ck.count(f'converging fit (linear target, scale {yscale})')
        if m.use_sqrtM and m.sqrtM is not None and m.M is not None:
            R = m.sqrtM.double().numpy(); Mm = m.M.double().numpy()
            dev = float(np.max(np.abs(R @ R - Mm)))
            if dev > (1e-6 if yscale != 1e-5 else 2e-5):        # float32 fits (target scale 1e-5): the root is a float32 SVD, it squares back to float32 accuracy
                ck.violation(f'stored root does not square back to the stored feature matrix (max dev {dev:.3g}) after {iters} rounds on a fast-converging fit on {desc}',
                             dict(desc, dev=dev), key='root')
            # rounding level of the dtype the fit ran in: a fast-converging fit makes the matrix (numerically) rank deficient, its smallest eigenvalue is 0 +- one ulp of the largest
            psd_tol = 1e-9 if yscale != 1e-5 else 2e-6
            if np.max(np.abs(Mm - Mm.T)) > 1e-12 or np.linalg.eigvalsh((Mm + Mm.T) / 2).min() < -psd_tol or abs(Mm.max() - 1.0) > 1e-6:
                ck.violation(f'stored feature matrix is not symmetric PSD with largest entry one on {desc}', dict(desc), key=json.dumps(dict(site='agop', what='converging-structure')))
    _rounds_regime(ck, xr, rng)
    res = ck.run_bool_cases('agop', HEADER, cases, shard=12)
    bad = [meta[k] for k, v in res.items() if v is not True]
    ck.obligation(f'correspondence: fit_M for {len(cases)} (model, batch size) pairs == Coq Q model on the gradients the implementation itself returned', 'correspondence',
                  not bad, f'first mismatches: {bad[:3]}')
