"""C14 — Learned feature matrix is the normalised AGOP with a consistent square root."""
import json, math
from fractions import Fraction
import numpy as np
import torch
from harness.common import *

HEADER = '''From Coq Require Import QArith List Bool Arith.
Require Import XV.Model.Tree XV.Model.Soft XV.Model.Agop.
Import ListNotations. Open Scope Q_scope.
'''


def run(ck):
    from harness import xr
    ck.rule = ("small fitted leaf models (all CPU kernels, diagonal/full, 1-3 outputs, centring on/off): fit_M(inplace=False) for accumulation batch sizes "
               "1..n; the implementation's OWN get_function_grads output (exact rationals) is fed to the Coq Q model (sum of outer products, batches, "
               "centring, normalisation by the largest entry) and compared with the implementation's M; batch independence, symmetry, PSD, max entry, "
               "sqrtM^2 = M, finiteness; agop_best_model vs the returned predictor. non-trivial = >= 2 batches; distinct by configuration hash")
    ck.trusted += ['Coq 8.16.1 kernel + vm_compute', 'float -> Q printing', 'the gradient values themselves are validated under C04']
    ck.assumptions += ['SVD-based matrix root: contract R R = M checked numerically', 'tolerance 1e-9 (float64); 1e-6 for the memory-light kernel (own-term cancellation noise, see comment in harness/c14.py)',
                       'n <= total_points_to_sample (20000): no truncation of the batch list']
    ck.check_theorems()
    from harness import gradops
    gradops.check_translation(ck)
    from harness import agopops
    agopops.check_translation(ck)
    rng = np.random.default_rng(ck.seed + 1414)
    kernels = [('l2', {}), ('l2_high_dim', {}), ('l1', {}), ('lpq', dict(norm_p=1.5)), ('sum_power_laplace', {})]
    cases = []; meta = {}
    nconf = ck.n(15, 90)
    T = lambda a: torch.tensor(a, dtype=torch.float64)
    for i in range(nconf):
        kern, extra = kernels[i % 5]
        diag = bool((i // 5) % 2)
        nout = [1, 2, 3][i % 3]
        centring = (i % 4 == 3)
        n = int(rng.integers(6, 12)); d = int(rng.integers(2, 4))
        X = rng.standard_normal((n, d)); Y = rng.standard_normal((n, nout))
        if i % 2 == 0:
            X[1] = X[0]; X[n - 1] = X[0]; X[3] = X[2]       # exactly repeated training rows (their targets differ): every occurrence is a training point
        iters = int(rng.integers(1, 4))
        xr.seed_all(1400 + i + ck.seed)
        m = xr.RealRFM(kernel=kern, iters=iters, bandwidth=2.0, exponent=[1.0, 1.3][i % 2], device='cpu', diag=diag, verbose=False, tuning_metric='mse', **extra)
        desc = dict(i=i, kernel=kern, diag=diag, nout=nout, centring=centring, n=n, d=d, iters=iters, repeated_rows=(i % 2 == 0), seed=ck.seed)
        try:
            with xr.quiet():
                Ms = m.fit((T(X), T(Y)), (T(X[:4]), T(Y[:4])), iters=iters, reg=1e-2, verbose=False, center_grads=centring, return_Ms=True,
                           get_agop_best_model=True, M_batch_size=[None, 1, 3, n][i % 4])
        except Exception as e:
            ck.violation(f'fit raised {e!r} on {desc}', dict(desc), key='fit-raise'); continue
        # the memory-light kernel forms distances as ||x||^2 - 2 x.z + ||z||^2: a point's own term has a computed distance of order
        # sqrt(ulp) instead of 0, is not masked, and cancels only up to ~1e-8 between the two einsums of its gradient -> 1e-9-size,
        # batch-dependent noise in the AGOP.  Tolerance for that kernel is 1e-6, for all others 1e-9.
        tolA = 1e-6 if kern == 'l2_high_dim' else 1e-9
        tolQ = '(1#1000000)' if kern == 'l2_high_dim' else '(1#100000000)'
        if kern == 'l2_high_dim':
            # ... and that noise is proportional to the coefficients: exactly repeated rows with different targets get coefficients of order 1/(2 reg) = 50
            amax = float(m.weights.abs().max())
            if amax > 10:
                tolA = 1e-7 * amax; tolQ = f'({int(amax) + 1}#10000000)'
            ck.notes.append(f'light kernel: max |coefficient| {amax:.3g}, AGOP tolerance {tolA:.2g}') if amax > 10 else None
        ck.count(f'kernel={kern}'); ck.count('diag' if diag else 'full'); ck.count(f'centring={centring}'); ck.count(f'outputs={nout}')
        mat = m.sqrtM if m.use_sqrtM else m.M
        with xr.quiet():
            Gt = m.kernel_obj.get_function_grads(m.centers, m.centers, m.weights.t(), mat).double().numpy()       # (f, n, d)
        # per point: rows of all outputs
        Gp = [[Gt[l, j].tolist() for l in range(Gt.shape[0])] for j in range(n)]
        results = {}
        for b in sorted({1, 2, 3, n - 1, n, n + 5}):
            with xr.quiet():
                Mb = m.fit_M(m.centers, nout, M_batch_size=b, inplace=False).double().numpy()
            results[b] = Mb
            probs = []
            if not np.all(np.isfinite(Mb)):
                probs.append('AGOP has non-finite entries')
            if not diag:
                if np.max(np.abs(Mb - Mb.T)) > 1e-12:
                    probs.append('AGOP not symmetric')
                if np.linalg.eigvalsh((Mb + Mb.T) / 2).min() < -1e-9:
                    probs.append('AGOP not positive semi-definite')
            # kernels that consume a root get 1e-8 added to the diagonal by the matrix-power routine, in place, so the stored / returned M carries it
            ridge = 1e-8 if (m.use_sqrtM and not diag) else 0.0
            if not centring and abs(Mb.max() - 1.0) > tolA + ridge and np.abs(Gt).max() > 1e-12:
                probs.append(f'largest entry of the normalised AGOP is {Mb.max()}, not 1')
            # independent statement-level recomputation (no centring): sum over points and outputs of g g^T, divided by its max
            if not centring:
                flat = Gt.reshape(-1, d)
                S = (flat ** 2).sum(0) if diag else flat.T @ flat
                S = S / (S.max() + 1e-30)
                # kernels that consume a root: the matrix-power routine adds 1e-8 to the diagonal in place, so the returned matrix may carry it;
                # the property does not ask for it, so both forms are accepted (an implementation detail must not raise an alarm)
                devS = float(np.max(np.abs(S - Mb)))
                if not diag and m.use_sqrtM:
                    devS = min(devS, float(np.max(np.abs(S + 1e-8 * np.eye(d) - Mb))))
                if devS > tolA:
                    probs.append(f'AGOP differs from the normalised sum of gradient outer products by {devS:.3g} at batch size {b}')
            if centring and b >= n:
                # centring with ONE accumulation batch (no batch can split the mean): the gradients of all points and outputs are centred on their common mean
                flat = Gt.reshape(-1, d); flat = flat - flat.mean(0, keepdims=True)
                S = (flat ** 2).sum(0) if diag else flat.T @ flat
                S = S / (S.max() + 1e-30)
                devS = float(np.max(np.abs(S - Mb)))
                if not diag and m.use_sqrtM:
                    devS = min(devS, float(np.max(np.abs(S + 1e-8 * np.eye(d) - Mb))))
                if devS > tolA:
                    probs.append(f'centred AGOP (one batch) differs from the normalised sum of outer products of the jointly centred gradients by {devS:.3g}')
            for p_ in probs:
                ck.violation(p_ + f' (batch size {b}) on {desc}', dict(desc, b=b, problem=p_), key=json.dumps(dict(site='agop', what=p_[:25], centring=centring)))
            ck.case(dict(desc, b=b), nontrivial=(b < n), sample=(i == 1 and b == 2))
            # Coq: model on the implementation's own gradients
            rq = coq_Q(Fraction(1, 10 ** 8)) if (m.use_sqrtM and not diag) else '0'
            if diag:
                coq = f'Qlist_close {tolQ} (normalise_vec (agop_diag {d}%nat {coq_bool(centring)} {b}%nat {coq_list([coq_Qmat(p) for p in Gp])})) {coq_Qlist(Mb.tolist())}'
            else:
                gq = coq_list([coq_Qmat(p) for p in Gp])
                coq = (f'(let A := normalise_mat (agop {d}%nat {coq_bool(centring)} {b}%nat {gq}) in let M := {coq_Qmat(Mb.tolist())} in '
                       f'mat_close {tolQ} (add_ridge {rq} A) M || mat_close {tolQ} A M)')
            cid = len(cases); cases.append((cid, coq)); meta[cid] = dict(desc, b=b)
        # diagonal mode is the diagonal of the full matrix (same gradients, same centring option, any number of outputs)
        with xr.quiet():
            cf = m.weights.t()
            Ad = m.kernel_obj.get_agop_diag(m.centers, m.centers, cf, mat, center_grads=centring).double().numpy()
            Afull = m.kernel_obj.get_agop(m.centers, m.centers, cf, mat, center_grads=centring).double().numpy()
        devd = float(np.max(np.abs(Ad - np.diag(Afull))))
        if devd > tolA * (1 + float(np.abs(Afull).max())):
            ck.violation(f'diagonal-mode AGOP is not the diagonal of the full AGOP (max dev {devd:.3g}; {nout} outputs, centring={centring}) on {desc}',
                         dict(desc, diag_mode=Ad.tolist(), diagonal_of_full=np.diag(Afull).tolist()), key=json.dumps(dict(site='diag-vs-full', centring=centring)))
        # batch-size independence
        ref = results[n]
        for b, Mb in results.items():
            dev = float(np.max(np.abs(Mb - ref)))
            if dev > tolA:
                ck.violation(f'AGOP depends on the accumulation batch size: max difference {dev:.3g} between batch sizes {b} and {n} (centring={centring}) on {desc}',
                             dict(desc, b=b, dev=dev), key=json.dumps(dict(site='batch-dependence', centring=centring)))
        # stored root squares back to the stored matrix; diagonal mode is the diagonal of the full matrix; AGOP of the returned predictor
        if m.use_sqrtM and m.sqrtM is not None and m.M is not None:
            R = m.sqrtM.double().numpy(); Mm = m.M.double().numpy()
            RR = R * R if diag else R @ R
            if np.max(np.abs(RR - Mm)) > 1e-7:
                ck.violation(f'stored root does not square back to the stored feature matrix (max dev {np.max(np.abs(RR - Mm)):.3g}) on {desc}', dict(desc), key='root')
        with xr.quiet():
            fresh = m.fit_M(m.centers, nout, M_batch_size=n, inplace=False).double().numpy()
        if np.max(np.abs(fresh - m.agop_best_model.double().numpy())) > tolA + (1.1e-8 if (m.use_sqrtM and not diag) else 0.0):
            ck.violation(f'agop_best_model is not the AGOP of the returned predictor on {desc}', dict(desc), key='agop-best')
        if not diag and not centring:
            md = xr.RealRFM(kernel=kern, iters=0, bandwidth=2.0, exponent=[1.0, 1.3][i % 2], device='cpu', diag=False, verbose=False, **extra)
    # ---- independent gradients: for the L2 and product kernels (exponents 1, 1.4 and EXACTLY 2) the matrix fit_M computes is compared with the normalised sum of outer products
    #      of the gradients of the CURRENT predictor obtained by automatic differentiation (float64) of the documented closed form, each point's own term left out —
    #      nothing of the library's gradient code is used
    for i in range(ck.n(9, 36)):
        kern = ['l2', 'l1', 'lpq'][i % 3]; qi = [2.0, 1.0, 1.4, 2][(i // 2) % 4]; diag_i = bool((i // 3) % 2); nout_i = [1, 2, 3][i % 3] if i % 3 == 2 else [1, 2][i % 2]      # lpq: norm p = 2 (the Euclidean norm through the p-norm code path), 3 outputs
        n_i, d_i = 12, 3
        Xi = rng.standard_normal((n_i, d_i)); Yi = rng.standard_normal((n_i, nout_i))
        desci = dict(kind='independent-gradient', i=i, kernel=kern, exponent=qi, diag=diag_i, nout=nout_i, n=n_i, d=d_i, seed=ck.seed)
        xr.seed_all(1470 + i + ck.seed)
        mi = xr.RealRFM(kernel=kern, iters=1, bandwidth=2.5, exponent=qi, device='cpu', diag=diag_i, verbose=False, tuning_metric='mse', **(dict(norm_p=2.0) if kern == 'lpq' else {}))
        try:
            with xr.quiet():
                mi.fit((T(Xi), T(Yi)), (T(Xi[:5]), T(Yi[:5])), iters=1, reg=1e-2, verbose=False, return_best_params=False)
                got_i = mi.fit_M(mi.centers, nout_i, M_batch_size=n_i, inplace=False).double()
        except Exception as e:
            ck.violation(f'fit raised {e!r} on {desci}', dict(desci), key='fit-raise'); continue
        C = mi.centers.double(); A = mi.weights.double().reshape(n_i, -1); Lb = float(mi.kernel_obj.bandwidth); q_ = float(qi)
        Tm = mi.sqrtM if mi.use_sqrtM else mi.M
        def tr(v):
            if Tm is None:
                return v
            return v * Tm.double() if Tm.dim() == 1 else v @ Tm.double()
        raw = torch.zeros(d_i, d_i, dtype=torch.float64)
        for k in range(n_i):
            keep = [j for j in range(n_i) if j != k and float((C[j] - C[k]).abs().max()) > 0]
            x = C[k].clone().requires_grad_(True)
            U = tr(x[None, :] - C[keep])
            if kern in ('l2', 'lpq'):
                Kv = torch.exp(-(U.pow(2).sum(1).sqrt() ** q_) / Lb ** q_)
            else:
                Kv = torch.exp(-(U.abs() ** q_).sum(1) / Lb ** q_)
            f = Kv @ A[keep]
            for l in range(f.shape[0]):
                g = torch.autograd.grad(f[l], x, retain_graph=True)[0]
                raw += torch.outer(g, g)
        want_i = raw / raw.max()
        if got_i.dim() == 1:
            want_i = torch.diagonal(raw) / torch.diagonal(raw).max()
        dev_i = float((got_i - want_i).abs().max())
        ck.case(dict(desci, dev=dev_i), nontrivial=True); ck.count(f'independent gradient, exponent {qi!r}')
        if not (dev_i <= 1e-6):
            ck.violation(f'fit_M differs by {dev_i:.3g} from the normalised AGOP of the current predictor computed from automatic derivatives of the documented kernel '
                         f'(own terms left out) on {desci}', dict(desci, dev=dev_i, got=got_i.tolist(), want=want_i.tolist()), key=json.dumps(dict(site='agop', what='independent-gradient', kernel=kern)))
    # ---- wide data (more features than samples), several rounds with return_Ms: the matrix recorded at EVERY round is the normalised AGOP of that round's predictor
    #      (recomputed independently from the gradients of a model rebuilt from that round's state is expensive; the cheap necessary condition: the recorded matrices
    #      of different rounds differ from each other as much as successive fit_M(inplace=False) calls say, and the LAST recorded matrix is the stored one)
    for i in range(ck.n(3, 9)):
        kern, extra = [('l2', {}), ('l2_high_dim', {}), ('l1', {})][i % 3]
        n, d, nout = 9, 12, 1 + i % 2
        Xw = rng.standard_normal((n, d)); Yw = rng.standard_normal((n, nout))
        xr.seed_all(1470 + i + ck.seed)
        mw = xr.RealRFM(kernel=kern, iters=3, bandwidth=4.0, exponent=1.0, device='cpu', diag=bool(i % 2), verbose=False, tuning_metric='mse', **extra)
        descw = dict(kind='wide', i=i, kernel=kern, n=n, d=d, nout=nout, diag=bool(i % 2), seed=ck.seed)
        snaps = []
        orig_fit_M = mw.fit_M
        def spy(*a, **kw):
            r = orig_fit_M(*a, **kw)
            if kw.get('inplace', True) and mw.M is not None:
                snaps.append(mw.M.detach().clone())
            return r
        mw.fit_M = spy
        try:
            with xr.quiet():
                Ms = mw.fit((T(Xw), T(Yw)), (T(Xw[:4]), T(Yw[:4])), iters=3, reg=1e-2, verbose=False, return_Ms=True, return_best_params=False)
        except Exception as e:
            ck.violation(f'fit on wide data raised {e!r} on {descw}', dict(descw), key='fit-raise'); continue
        ck.case(descw, nontrivial=True); ck.count('wide data (d > n), recorded per-round matrices')
        Ms = [m_ for m_ in (Ms or []) if m_ is not None]
        if len(Ms) >= 2 and len(snaps) >= len(Ms):
            for r, (rec_M, snap) in enumerate(zip(Ms, snaps)):
                dev = float((rec_M.double() - snap.double()).abs().max())
                if dev > 1e-9:
                    ck.violation(f'the matrix recorded for round {r} (return_Ms) differs by {dev:.3g} from the feature matrix that round actually learned (it equals a later round\'s matrix: '
                                 f'{float((rec_M.double() - snaps[-1].double()).abs().max()):.2g} from the last one) on {descw}', dict(descw, round=r, dev=dev), key=json.dumps(dict(site='agop', what='recorded-rounds')))
                    break
    # ---- fast-converging fits: noise-free linear targets, 4-5 rounds, full matrices — consecutive iterates differ by 1e-3 or less; every stored
    #      (and every per-round) matrix must still come with ITS OWN root, and stay symmetric / PSD / normalised
    for i in range(ck.n(8, 16)):
        kern, extra = [('l2', {}), ('l1', {}), ('lpq', dict(norm_p=1.5)), ('sum_power_laplace', {})][i % 4]
        n, d, nout = 80, 3, [1, 2][i % 2]
        # every other pair: targets recorded in small units (1e-4): tiny gradients, the un-normalised accumulator is of order 1e-8
        # ... and in very small units (1e-10 in float64, 1e-5 in float32): the un-normalised accumulator is below the machine epsilon of its dtype, its largest
        # entry is still what it is divided by (the normalised matrix does not depend on the units of the targets)
        yscale = [1.0, 1e-4, 1e-10, 1e-5][(i // 2) % 4]
        Tc = (lambda a: torch.tensor(a, dtype=torch.float32)) if yscale == 1e-5 else T
        X = rng.standard_normal((n, d)); W = rng.standard_normal((d, nout)); Y = X @ W * yscale
        iters = [4, 5][i % 2]
        xr.seed_all(1490 + i + ck.seed)
        m = xr.RealRFM(kernel=kern, iters=iters, bandwidth=5.0, exponent=1.0, device='cpu', diag=False, verbose=False, tuning_metric='mse', **extra)
        desc = dict(kind='converging', i=i, kernel=kern, n=n, d=d, nout=nout, iters=iters, target_scale=yscale, seed=ck.seed)
        try:
            with xr.quiet():
                m.fit((Tc(X), Tc(Y)), (Tc(X[:20]), Tc(Y[:20])), iters=iters, reg=1e-3, verbose=False, return_best_params=False)
        except Exception as e:
            ck.violation(f'fit raised {e!r} on {desc}', dict(desc), key='fit-raise'); continue
        ck.case(desc, nontrivial=True); ck.count(f'converging fit (linear target, scale {yscale})')
        if m.use_sqrtM and m.sqrtM is not None and m.M is not None:
            R = m.sqrtM.double().numpy(); Mm = m.M.double().numpy()
            dev = float(np.max(np.abs(R @ R - Mm)))
            if dev > (1e-6 if yscale != 1e-5 else 2e-5):        # float32 fits (target scale 1e-5): the root is a float32 SVD, it squares back to float32 accuracy
                ck.violation(f'stored root does not square back to the stored feature matrix (max dev {dev:.3g}) after {iters} rounds on a fast-converging fit on {desc}',
                             dict(desc, dev=dev), key='root')
            # rounding level of the dtype the fit ran in: a fast-converging fit makes the matrix (numerically) rank deficient, its smallest eigenvalue is 0 +- one ulp of the largest
            psd_tol = 1e-9 if yscale != 1e-5 else 2e-6
            if np.max(np.abs(Mm - Mm.T)) > 1e-12 or np.linalg.eigvalsh((Mm + Mm.T) / 2).min() < -psd_tol or abs(Mm.max() - 1.0) > 1e-6:
                ck.violation(f'stored feature matrix is not symmetric PSD with largest entry one on {desc}', dict(desc), key=json.dumps(dict(site='agop', what='converging-structure')))
    res = ck.run_bool_cases('agop', HEADER, cases, shard=12)
    bad = [meta[k] for k, v in res.items() if v is not True]
    ck.obligation(f'correspondence: fit_M for {len(cases)} (model, batch size) pairs == Coq Q model on the gradients the implementation itself returned', 'correspondence',
                  not bad, f'first mismatches: {bad[:3]}')
