"""Fail-closed structure translator for the hard-routing prediction pipeline (C01, C12, C20): the five routines below are re-read from the current
source with `ast` on every run; each statement is mapped to the piece of coq/Model/Tree.v it is modelled by.  The comparison operators of the routing
test itself are translated to Coq terms by harness/splitarith.py (`gen_route_left`); here the CONTROL skeleton is pinned:

 xRFM._get_leaf_groups_and_models_on_samples   explicit LIFO stack of (rows, original indices, node); leaf -> emit group; split -> projections, `<=` mask and its
                                               complement, push right then left, empty sides skipped                       -> Tree.groups_loop / groups_iter
 xRFM._predict_tree_hard                       per group: leaf model predict / predict_proba; concat; argsort of the concatenated indices restores the order
                                                                                                                            -> Tree.predict_tree_hard (sort_pairs)
 xRFM.predict / predict_proba                  coercion to float32, one _predict_tree per HELD tree, mean over the stack of per-tree outputs, decode labels
                                                                                                                            -> Tree.predict_hard (vmean over the trees)
 RFM.predict                                   slices of max_batch_size rows, K(x, centers) @ weights per slice, concatenation  -> Tree.leaf_batched (chunks)
Any other shape raises TranslationError: the obligation counts as broken (a harmless rewrite breaks it too; the differential checks then decide)."""
import ast, os
from harness.common import REPO
from harness.splitarith import TranslationError, _method, _src
from harness.kernelops import _cls_method


def _nodoc(body):
    return [s for s in body if not (isinstance(s, ast.Expr) and isinstance(s.value, ast.Constant))]


def _strip_doc(fn):
    """unparse of a function body with all docstrings (also of nested defs) removed"""
    fn = ast.parse(ast.unparse(fn)).body[0]
    for n in ast.walk(fn):
        if isinstance(n, (ast.FunctionDef,)) and n.body and isinstance(n.body[0], ast.Expr) and isinstance(n.body[0].value, ast.Constant) \
                and isinstance(n.body[0].value.value, str):
            n.body = n.body[1:] or [ast.Pass()]
    return [ast.unparse(s) for s in fn.body]


WANT = {
 ('xRFM', '_get_leaf_groups_and_models_on_samples'): [
    'X_leaf_groups = []', 'X_leaf_group_indices = []', 'leaf_nodes = []', 'sample_indices = torch.arange(X.shape[0], device=self.device)',
    'stack = [(X, sample_indices, tree)]',
    "while stack:\n    current_X, current_indices, current_node = stack.pop()\n    if current_node['type'] == 'leaf':\n        X_leaf_groups.append(current_X)\n"
    "        X_leaf_group_indices.append(current_indices)\n        leaf_nodes.append(current_node)\n        continue\n"
    "    projections = current_X @ current_node['split_direction']\n    left_mask = projections <= current_node['split_point']\n    right_mask = ~left_mask\n"
    "    if right_mask.sum() > 0:\n        stack.append((current_X[right_mask], current_indices[right_mask], current_node['right']))\n"
    "    if left_mask.sum() > 0:\n        stack.append((current_X[left_mask], current_indices[left_mask], current_node['left']))",
    'return (X_leaf_groups, X_leaf_group_indices, leaf_nodes)'],
 ('xRFM', '_predict_tree_hard'): [
    'X_leaf_groups, X_leaf_group_indices, leaf_nodes = self._get_leaf_groups_and_models_on_samples(X, tree)', 'predictions = []',
    "for X_leaf, leaf_node in zip(X_leaf_groups, leaf_nodes):\n    if proba:\n        preds = leaf_node['model'].predict_proba(X_leaf)\n    else:\n"
    "        preds = leaf_node['model'].predict(X_leaf)\n    predictions.append(preds)",
    'def reorder_tensor(original_tensor, order_tensor):\n    _, sorted_indices = torch.sort(order_tensor)\n    return original_tensor[sorted_indices]',
    'order = torch.cat(X_leaf_group_indices, dim=0)', 'return reorder_tensor(torch.cat(predictions, dim=0), order)'],
 ('xRFM', 'predict'): [
    "if self.trees is None:\n    raise ValueError('Model has not been fitted yet.')",
    'if self.n_threads is not None:\n    old_n_threads = torch.get_num_threads()\n    torch.set_num_threads(self.n_threads)',
    'if not isinstance(X, torch.Tensor):\n    X = torch.tensor(X, dtype=torch.float32, device=self.device)', 'X = X.to(self.device)', 'all_predictions = []',
    'for tree in self.trees:\n    tree_predictions = self._predict_tree(X, tree)\n    all_predictions.append(tree_predictions)',
    'pred = torch.mean(torch.stack(all_predictions), dim=0)', 'if self.n_threads is not None:\n    torch.set_num_threads(old_n_threads)',
    'if self.n_classes_ > 0:\n    return self.class_converter_.numerical_to_labels(pred).cpu().numpy()\nelse:\n    return pred.cpu().numpy()'],
 ('xRFM', 'predict_proba'): [
    "if self.trees is None:\n    raise ValueError('Model has not been fitted yet.')",
    'if self.n_threads is not None:\n    old_n_threads = torch.get_num_threads()\n    torch.set_num_threads(self.n_threads)',
    'if not isinstance(X, torch.Tensor):\n    X = torch.tensor(X, dtype=torch.float32, device=self.device)', 'all_probas = []',
    'for tree in self.trees:\n    tree_probas = self._predict_tree(X, tree, proba=True)\n    all_probas.append(tree_probas)',
    'result = torch.mean(torch.stack(all_probas), dim=0)', 'if self.n_threads is not None:\n    torch.set_num_threads(old_n_threads)', 'return result.cpu().numpy()'],
 ('RFM', 'predict'): [
    'samples, original_format = self.validate_samples(samples)', 'out = []',
    'for i in range(0, samples.shape[0], max_batch_size):\n    out_batch = self.kernel(samples[i:i + max_batch_size].to(self.device), self.centers.to(self.device)) @ self.weights.to(self.device)\n    out.append(out_batch)',
    'out = torch.cat(out, dim=0)', 'return self.convert_to_format(out, original_format)'],
}


def check():
    xt = ast.parse(_src())
    rt = ast.parse(open(os.path.join(REPO, 'xrfm', 'rfm_src', 'recursive_feature_machine.py')).read())
    for (cls, nm), want in WANT.items():
        fn = _method(xt, cls, nm) if cls == 'xRFM' else _cls_method(rt, cls, nm)
        got = [s for s in _strip_doc(fn) if s != 'pass']
        if got != want:
            k = next((i for i in range(min(len(got), len(want))) if got[i] != want[i]), min(len(got), len(want)))
            raise TranslationError(f'{cls}.{nm}: statement {k} is {(got[k] if k < len(got) else "<missing>")[:200]!r}, the model was written for {(want[k] if k < len(want) else "<end>")[:120]!r}')
    fn = _cls_method(rt, 'RFM', 'predict')
    if [a.arg for a in fn.args.args] != ['self', 'samples', 'max_batch_size'] or [ast.unparse(d) for d in fn.args.defaults] != ['50000']:
        raise TranslationError('RFM.predict signature / default batch size changed')
    # RFM.kernel: the leaf predictor's kernel is the kernel object's matrix under the stored transform (sqrtM for root-consuming kernels, M otherwise)
    fn = _cls_method(rt, 'RFM', 'kernel')
    if [ast.unparse(s) for s in _nodoc(fn.body)] != ['return self.kernel_obj.get_kernel_matrix(x, z, self.sqrtM if self.use_sqrtM else self.M)']:
        raise TranslationError('RFM.kernel is not kernel_obj.get_kernel_matrix(x, z, sqrtM if use_sqrtM else M)')


def check_translation(ck):
    try:
        check()
        ck.obligation('prediction pipeline skeleton (explicit-stack traversal with carried indices, per-group leaf prediction + argsort restore, mean over the held trees '
                      'then label decoding, leaf batching loop, RFM.kernel) has the structure the Coq model Tree.v was written for', 'translation', True)
        return True
    except TranslationError as e:
        ck.obligation('predops translator recognises the source', 'translation', False, str(e))
        return False
