"""C13 — Label encoding round-trips and decodes to valid probabilities."""
import itertools, json
from fractions import Fraction
import numpy as np
import torch
from harness.common import *

HEADER = '''From Coq Require Import QArith List Bool Arith.
Require Import XV.Model.Tree XV.Model.Soft XV.Model.Labels.
Import ListNotations. Open Scope Q_scope.
'''
EPS = 1e-3
EPSQ = '(1#1000)'


def count_vectors(K, rng, tier):
    out = []
    if K <= 4:
        for tot in range(1, 7):
            for c in itertools.product(range(tot + 1), repeat=K):
                if sum(c) == tot:
                    out.append(list(c))
        if tier == 'quick':
            idx = rng.choice(len(out), min(len(out), 40), replace=False)
            out = [out[i] for i in idx]
    for _ in range(6 if tier == 'quick' else 25):
        c = rng.integers(0, 30, size=K)
        c[rng.integers(0, K)] = 0
        if c.sum() == 0:
            c[0] = 1
        out.append([int(v) for v in c])
    c = [1] * K; c[0] = 1000; out.append(c)          # 1000:1 imbalance
    c = [0] * K; c[K - 1] = 7; out.append(c)          # a single class occurs
    out.append([3] * K)
    return out


def run(ck):
    from harness import xr
    from xrfm.rfm_src.class_conversion import ClassificationConverter
    ck.rule = ('the REAL ClassificationConverter for K in 2..12 on class-count vectors (grid incl. zeros, 1000:1; exhaustive for K<=4, total<=6), '
               'both modes, all label orders sampled: its actual _C/_invA/_prior (exact rationals of the float32 entries) are checked by the Coq '
               'checker converter_okb (decode of codes, zero -> prior, A prior = e_K, equidistance); encode / decode / argmax outputs are compared '
               'with the Q model; decoder inputs up to 1e30.  non-trivial = K >= 3 or a zero count; distinct by (K, counts, mode)')
    ck.trusted += ['Coq 8.16.1 kernel + vm_compute', 'float32 -> Q printing']
    ck.assumptions += ['torch.linalg.qr / inv are accurate to 1e-4 (checked on every instance by converter_okb)',
                       'float32 decode compared with the exact model within 2e-5 * (1 + |input|_1 * |invA|_max)']
    ck.check_theorems()
    from harness import convops
    convops.check_translation(ck)
    rng = np.random.default_rng(ck.seed + 1313)
    Ks = range(2, 8) if ck.tier == 'quick' else range(2, 13)
    cases = []; meta = {}
    alive = {}
    for K in Ks:
        for counts in count_vectors(K, rng, ck.tier):
            labels = np.repeat(np.arange(K), counts)
            rng.shuffle(labels)
            lab_t = torch.tensor(labels, dtype=torch.long)
            tot = int(sum(counts))
            for mode in ('prevalence', 'zero_one'):
                desc = dict(K=K, counts=counts, mode=mode)
                conv = ClassificationConverter(mode=mode, n_classes=K, labels=lab_t if len(labels) % 2 else lab_t.reshape(-1, 1))
                # history: every third converter has already been USED before it is examined — it encoded labels and decoded batches given in
                # float64 / float16 / bfloat16 (reduced-precision predictions, e.g. under autocast) and with a 1-D input; the statements below are
                # about the converter, whatever it did before
                used = (len(cases) % 3 == 1)
                if used:
                    w0 = conv.labels_to_numerical(torch.arange(K)).shape[1]
                    for dt in (torch.float64, torch.float16, torch.bfloat16, torch.float32):
                        zz = torch.tensor(rng.standard_normal((3, w0)), dtype=torch.float32).to(dt)
                        try:
                            conv.numerical_to_probas(zz); conv.numerical_to_labels(zz)
                            if mode == 'prevalence':
                                conv.numerical_to_probas(zz[0])
                        except Exception as e:
                            ck.violation(f'decoding a {dt} batch raised {e!r} on {desc}', dict(desc, dtype=str(dt)), key=json.dumps(dict(site='converter', mode=mode, what='raise-' + str(dt))))
                    conv.labels_to_numerical(lab_t.to(torch.int32)); conv.labels_to_numerical(lab_t)
                    ck.count('converter used before (f64/f16/bf16 decodes)')
                desc = dict(desc, used_before=used)
                ck.case(desc, nontrivial=(K >= 3 or 0 in counts), sample=(K == 3 and 0 in counts and mode == 'prevalence'))
                ck.count(f'K={K}'); ck.count(mode); ck.count('has-zero-count' if 0 in counts else 'all-present')
                probs = []
                enc = conv.labels_to_numerical(lab_t)
                all_lab = torch.arange(K)
                enc_all = conv.labels_to_numerical(all_lab)
                # ---- round trip (statement) ----
                back = conv.numerical_to_labels(enc)
                if not torch.equal(back.long(), lab_t):
                    probs.append('decode(encode(labels)) != labels')
                if not torch.equal(conv.numerical_to_labels(enc_all).long(), all_lab):
                    probs.append('round trip fails for some class (including classes that never occur)')
                # ---- valid probability rows for arbitrary finite inputs ----
                width = enc_all.shape[1]
                Z = torch.tensor(rng.standard_normal((6, width)) * rng.choice([1e-3, 1.0, 50.0, 1e30]), dtype=torch.float32)
                Z = torch.cat([Z, enc_all, torch.zeros(1, width)], 0)
                if mode == 'prevalence' and K >= 2:
                    a = 0.3
                    Z = torch.cat([Z, (a * enc_all[0] + (1 - a) * enc_all[K - 1]).reshape(1, -1)], 0)
                P = conv.numerical_to_probas(Z).double().numpy()
                if not np.all(np.isfinite(P)) or P.shape != (Z.shape[0], K) or np.any(P < 0) or np.any(np.abs(P.sum(1) - 1) > 1e-5):
                    probs.append('numerical_to_probas returned an invalid probability row')
                # other clamp levels, including the documented extreme eps = 0 for the prevalence decoder (its affine image sums to one, so a
                # positive entry always survives the clamp; the zero_one decoder with eps = 0 can clamp a whole row to 0 and is left out)
                for eps2 in ([0.0, 1e-6, 0.2] if mode == 'prevalence' else [1e-6, 0.2]):
                    if eps2 * K >= 1:
                        continue
                    P2 = conv.numerical_to_probas(Z, eps=eps2).double().numpy()
                    ck.count(f'decode eps={eps2}')
                    if not np.all(np.isfinite(P2)) or P2.shape != (Z.shape[0], K) or np.any(P2 < 0) or np.any(P2 > 1 + 1e-6) or np.any(np.abs(P2.sum(1) - 1) > 1e-5):
                        r = int(np.argmax(~np.isfinite(P2).all(1) | (P2 < 0).any(1) | (np.abs(P2.sum(1) - 1) > 1e-5)))
                        probs.append(f'numerical_to_probas(eps={eps2}) returned an invalid probability row {P2[r].tolist()} for input {Z[r].tolist()}')
                if mode == 'prevalence':
                    prior = conv._prior.double().numpy()
                    want = np.array([Fraction(c, tot) for c in counts], dtype=float)
                    if np.max(np.abs(prior - want)) > 1e-6:
                        probs.append(f'prior {prior.tolist()} is not the empirical class frequencies {want.tolist()}')
                    pz = P[-2]
                    wz = np.clip(want, EPS, 1 - EPS); wz = wz / wz.sum()
                    if np.max(np.abs(pz - wz)) > 2e-5:
                        probs.append(f'zero vector decodes to {pz.tolist()}, empirical frequencies (clamped) are {wz.tolist()}')
                    C = conv._C.double().numpy()
                    for i in range(K):
                        for j in range(i + 1, K):
                            if abs(np.sum((C[i] - C[j]) ** 2) - 2.0) > 1e-4:
                                probs.append('class codes are not mutually equidistant'); break
                    pm = P[-1]
                    wm = np.zeros(K); wm[0] += 0.3; wm[K - 1] += 0.7
                    wm = np.clip(wm, EPS, 1 - EPS); wm = wm / wm.sum()
                    if np.max(np.abs(pm - wm)) > 5e-5:
                        probs.append(f'mixture 0.3 C_0 + 0.7 C_K-1 decodes to {pm.tolist()} instead of the same mixture of classes')
                # several converters with the same number of classes are alive at once (folds, several models): the one built BEFORE this one is
                # examined again now — zero must still decode to ITS class frequencies and its labels must still round-trip
                if mode == 'prevalence':
                    prev = alive.get(K)
                    if prev is not None:
                        pconv, pcounts, plab = prev
                        ptot = float(sum(pcounts))
                        wantp = np.clip(np.array(pcounts, dtype=float) / ptot, EPS, 1 - EPS); wantp = wantp / wantp.sum()
                        pz = pconv.numerical_to_probas(torch.zeros(1, K - 1)).double().numpy()[0]
                        ck.count('earlier converter re-examined while a later one is alive')
                        if np.max(np.abs(pz - wantp)) > 2e-5:
                            probs.append(f'after a second converter with the same K was built (counts {counts}), zero decodes on the FIRST converter (counts {pcounts}) to {pz.tolist()} instead of its own frequencies {wantp.tolist()}')
                        if not torch.equal(pconv.numerical_to_labels(pconv.labels_to_numerical(plab)).long(), plab):
                            probs.append(f'after a second converter with the same K was built, decode(encode(labels)) != labels on the first converter (counts {pcounts})')
                    alive[K] = (conv, counts, lab_t)
                for p_ in dict.fromkeys(probs):
                    ck.violation(p_ + f' on {desc}', dict(desc, problem=p_), key=json.dumps(dict(site='converter', mode=mode, what=p_[:30])))
                # ---- Coq ----
                Zl = Z.double().numpy().tolist()
                if mode == 'prevalence':
                    Cq = coq_Qmat(conv._C.tolist()); Iq = coq_Qmat(conv._invA.tolist()); Pq = coq_Qlist(conv._prior.tolist())
                    conj = [f'converter_okb (1#10000) {K}%nat {Cq} {Iq} {Pq}',
                            f'Qmat_eqb {coq_Qmat(enc_all.tolist())} (map (encode_prevalence {Cq}) (seq 0 {K}))',
                            f'forallb (fun l => Nat.eqb (labels_prevalence {EPSQ} {Iq} (encode_prevalence {Cq} l)) l) (seq 0 {K})']
                    inv_max = float(conv._invA.abs().max())
                    for r, z in enumerate(Zl):
                        tol = 2e-5 * (1 + sum(abs(v) for v in z) * inv_max) if max(abs(v) for v in z) < 1e6 else 1e-4
                        conj.append(f'Qlist_close {coq_Q(tol)} (probas_prevalence {EPSQ} {Iq} {coq_Qlist(z)}) {coq_Qlist(P[r].tolist())}')
                else:
                    conj = [f'Qmat_eqb {coq_Qmat(enc_all.tolist())} (map (encode_zero_one {K}%nat) (seq 0 {K}))',
                            f'forallb (fun l => Nat.eqb (labels_zero_one {EPSQ} (encode_zero_one {K}%nat l)) l) (seq 0 {K})']
                    for r, z in enumerate(Zl):
                        tol = 2e-5 if max(abs(v) for v in z) < 1e6 else 1e-4
                        conj.append(f'Qlist_close {coq_Q(tol)} (probas_zero_one {EPSQ} {coq_Qlist(z)}) {coq_Qlist(P[r].tolist())}')
                cid = len(cases)
                cases.append((cid, ' && '.join(f'({c})' for c in conj))); meta[cid] = desc
    # ---- very large label multisets in ONE call (50,001 / 65,537 labels): round trip, validity, zero rows -> frequencies, row by row including the last ones
    for K, N in ((3, 50_001), (2, 65_537), (5, 100_003)):
        for mode in ('prevalence', 'zero_one'):
            pr = rng.random(K) + 0.05; pr = pr / pr.sum()
            lab = rng.choice(K, size=N, p=pr); lab[:K] = np.arange(K)
            lt = torch.tensor(lab, dtype=torch.long)
            conv = ClassificationConverter(mode=mode, n_classes=K, labels=lt)
            enc = conv.labels_to_numerical(lt)
            back = conv.numerical_to_labels(enc)
            Pz = conv.numerical_to_probas(torch.zeros(N, enc.shape[1])).double().numpy() if mode == 'prevalence' else None
            Pe = conv.numerical_to_probas(enc).double().numpy()
            desc = dict(K=K, N=N, mode=mode, kind='large multiset'); ck.case(desc, nontrivial=True); ck.count('large label multiset in one call')
            probs = []
            if not torch.equal(back.long(), lt):
                bad = int((back.long() != lt).nonzero()[0])
                probs.append(f'decode(encode(labels)) != labels for {N} labels (first mismatch at position {bad}: label {int(lt[bad])} decodes to {int(back[bad])})')
            if Pe.shape != (N, K) or not np.all(np.isfinite(Pe)) or np.any(Pe < 0) or np.any(np.abs(Pe.sum(1) - 1) > 1e-5):
                probs.append(f'decoding {N} rows gives an invalid probability row')
            if Pz is not None:
                want = np.clip(np.bincount(lab, minlength=K) / N, EPS, 1 - EPS); want = want / want.sum()
                dv = np.max(np.abs(Pz - want[None, :]), axis=1)
                if dv.max() > 2e-5:
                    probs.append(f'zero row {int(dv.argmax())} of {N} decodes to {Pz[int(dv.argmax())].tolist()}, the class frequencies (clamped) are {want.tolist()}')
            for p_ in probs:
                ck.violation(p_ + f' on {desc}', dict(desc, problem=p_), key=json.dumps(dict(site='converter', mode=mode, what='large-' + p_[:20])))
    # ---- the binary zero/one converter in the state the logistic leaf solver puts it in (codes are read as logits: `_numerical_type = 'logit_diff'`): the round trip
    #      decode(encode(labels)) = labels holds there too (the code of class 0 is the logit 0.0, i.e. an exact [1/2, 1/2] row: arg-max takes the first)
    for trial in range(ck.n(4, 20)):
        N = int(rng.integers(1, 40)); lab = rng.integers(0, 2, size=N); lt = torch.tensor(lab, dtype=torch.long)
        conv = ClassificationConverter(mode='zero_one', n_classes=2, labels=torch.tensor([0, 1]))
        conv._numerical_type = 'logit_diff'
        enc = conv.labels_to_numerical(lt if trial % 2 else lt.reshape(-1, 1))
        back = conv.numerical_to_labels(enc).reshape(-1).long()
        Pb = conv.numerical_to_probas(enc).double().numpy()
        desc = dict(K=2, mode='zero_one', kind='logit_diff converter', labels=lab.tolist()); ck.case(desc, nontrivial=True); ck.count('logit_diff converter round trip')
        if not torch.equal(back, lt):
            bad = int((back != lt).nonzero()[0])
            ck.violation(f'decode(encode(labels)) != labels on a binary converter whose codes are logits: label {int(lt[bad])} (code {enc.reshape(-1)[bad].item()}) decodes to {int(back[bad])} on {desc}',
                         dict(desc), key=json.dumps(dict(site='converter', mode='zero_one', what='logit-diff-roundtrip')))
        if Pb.shape != (N, 2) or not np.all(np.isfinite(Pb)) or np.any(Pb < 0) or np.any(np.abs(Pb.sum(1) - 1) > 1e-5):
            ck.violation(f'decoding the codes of a logit_diff converter gives an invalid probability row on {desc}', dict(desc), key=json.dumps(dict(site='converter', mode='zero_one', what='logit-diff-valid')))
    # ---- label tensors of narrow / boolean dtype (uint8 for any K, bool for K = 2): labels are class ids whatever they are stored in — torch would read such a tensor as a MASK
    #      if it were used as an index without a cast
    urng = np.random.default_rng(ck.seed + 1313)
    for trial in range(ck.n(8, 40)):
        K = int(urng.integers(2, 7)); mode = ['prevalence', 'zero_one'][trial % 2]
        N = [K, int(urng.integers(1, 30)), 2 * K][trial % 3]
        lab = urng.integers(0, K, size=N); 
        for dt in ([torch.uint8, torch.bool] if K == 2 else [torch.uint8]):
            conv = ClassificationConverter(mode=mode, n_classes=K, labels=torch.arange(K).repeat(2))
            lt = torch.tensor(lab).to(dt)
            desc = dict(K=K, mode=mode, kind='narrow label dtype', dtype=str(dt), labels=lab.tolist()); ck.case(desc, nontrivial=True); ck.count(f'labels stored as {dt}')
            try:
                enc = conv.labels_to_numerical(lt); back = conv.numerical_to_labels(enc).reshape(-1).long()
            except Exception as e:
                ck.violation(f'encoding labels stored as {dt} raised {e!r} on {desc}', dict(desc), key=json.dumps(dict(site='converter', mode=mode, what='narrow-dtype-raise'))); continue
            if enc.shape[0] != N or not torch.equal(back, torch.tensor(lab).long()):
                ck.violation(f'decode(encode(labels)) != labels for labels stored as {dt}: {lab.tolist()} -> codes of shape {tuple(enc.shape)} -> {back.tolist()} on {desc}', dict(desc),
                             key=json.dumps(dict(site='converter', mode=mode, what='narrow-dtype-roundtrip')))
    res = ck.run_bool_cases('conv', HEADER, cases, shard=12)
    bad = [meta[k] for k, v in res.items() if v is not True]
    ck.obligation(f'correspondence: {len(cases)} real converters: actual _C/_invA/_prior pass converter_okb, encode == model, decode within tolerance of '
                  f'the Q model, round trip in the model', 'correspondence', not bad, f'first mismatches: {bad[:4]}')
