"""C19 — Adaptive bandwidth follows the median heuristic and gives scale invariance."""
import json, math
from fractions import Fraction
import numpy as np
import torch
from harness.common import *
from harness import oracle as orc

HEADER = '''From Coq Require Import QArith List Bool Arith.
Require Import XV.Model.Split XV.Model.Tree XV.Model.Rank XV.Real.Bandwidth.
Import ListNotations. Open Scope Q_scope.
'''


def kernel_distance_matrix(m, X):
    """pairwise distances, in the kernel's own norm, between the feature-transformed training points (float64, independent of the library's kernel code)"""
    kn = orc.kname_of(m.kernel_obj)
    Xd = X.double()
    if kn == 'l2_light':
        M = m.M
        if M is None:
            Z = Xd
            D2 = ((Z[:, None, :] - Z[None, :, :]) ** 2).sum(-1)
        elif M.dim() == 1:
            D2 = (((Xd[:, None, :] - Xd[None, :, :]) ** 2) * M.double()[None, None, :]).sum(-1)
        else:
            diff = Xd[:, None, :] - Xd[None, :, :]
            D2 = torch.einsum('ijk,kl,ijl->ij', diff, M.double(), diff)
        return D2.clamp(min=0).sqrt()
    T = m.sqrtM
    Z = Xd if T is None else (Xd * T.double()[None, :] if T.dim() == 1 else Xd @ T.double())
    diff = (Z[:, None, :] - Z[None, :, :]).abs()
    if kn == 'l2':
        return (diff ** 2).sum(-1).sqrt()
    if kn == 'l1':
        q = float(m.kernel_obj.exponent)
        return (diff ** q).sum(-1) ** (1.0 / q)            # the adaptive code takes (sum |.|^q)^(1/q) as "the distance"
    p = float(m.kernel_obj.p)
    return (diff ** p).sum(-1) ** (1.0 / p)


def lower_median_offdiag(D):
    n = int(D.shape[0])
    off = D[~torch.eye(n, dtype=torch.bool)]
    return float(torch.sort(off).values[(len(off) - 1) // 2])


# how a caller may write the SAME base bandwidth (a number): the statement speaks of "the base bandwidth", not of its machine representation
BASE_CARRIERS = [('python int', int), ('numpy int64', np.int64), ('python float', float), ('numpy int32', np.int32), ('numpy float32', np.float32),
                 ('numpy float64', np.float64), ('numpy uint8', np.uint8), ('numpy int16', np.int16)]


def base_carrier_regime(ck, xr, kernels):
    """The configured base bandwidth written as an integer-typed / narrow-typed number (bandwidth=10, np.int64(5), np.float32(2), ...), on data whose unit
    makes base x median fall below 1, near 1 and far above 1.  Oracles (statement level, float64 recomputation):
      (a) stored bandwidth == float(base) x lower median of the pairwise kernel-norm distances of the transformed training points under the stored state,
          relative tolerance 1e-9 (2e-6 memory-light kernel); for a floating carrier narrower than float64 the product may legitimately be rounded to the
          carrier's precision, so its unit roundoff is added;
      (b) refits on inputs rescaled by 1e-3 / 1e3 predict the same values."""
    rng = np.random.default_rng(ck.seed + 191919)
    T = lambda a: torch.tensor(a, dtype=torch.float64)
    nconf = ck.n(16, 64)
    for i in range(nconf):
        kern, extra = kernels[i % 4]
        cname, ctor = BASE_CARRIERS[i % len(BASE_CARRIERS)]
        bval = [10, 1, 5, 2, 3, 7][(i // 2) % 6]
        base = ctor(bval)
        unit = [1.0, 1e-3, 1e3, 3e-2, 0.2][(i // 4) % 5]
        diag = bool((i // 4) % 2); iters = [2, 0, 1, 3][(i + i // 4) % 4]; q = [1.0, 1.3, 0.8][(i // 8) % 3]
        rb = (i % 7 != 6); early = bool((i // 3) % 2)
        n = int(rng.integers(8, 16)); d = int(rng.integers(2, 4))
        X = rng.standard_normal((n, d)) * unit; Y = rng.standard_normal((n, 1)); Xv = rng.standard_normal((6, d)) * unit; Yv = rng.standard_normal((6, 1))
        Q = rng.standard_normal((5, d)) * unit
        desc = dict(kind='base bandwidth carrier', i=i, kernel=kern, base=repr(base), base_type=cname, data_unit=unit, diag=diag, iters=iters, q=q,
                    return_best_params=rb, early=early, n=n, d=d, seed=ck.seed)

        def fit(c):
            xr.seed_all(1970 + i + ck.seed)
            m = xr.RealRFM(kernel=kern, iters=iters, bandwidth=ctor(bval), exponent=q, bandwidth_mode='adaptive', device='cpu', diag=diag, verbose=False,
                           tuning_metric='mse', **extra)
            with xr.quiet():
                m.fit((T(X * c), T(Y)), (T(Xv * c), T(Yv)), iters=iters, reg=1e-2, verbose=False, early_stop_rfm=early, return_best_params=rb,
                      early_stop_multiplier=1.05)
            return m
        try:
            m = fit(1.0)
        except Exception as e:
            ck.violation(f'adaptive fit with base bandwidth {base!r} ({cname}) raised {e!r} on {desc}', dict(desc, X=X.tolist()), key='fit-raise-carrier'); continue
        ck.count(f'base bandwidth given as {cname}'); ck.count(f'data unit {unit:g}')
        med = lower_median_offdiag(kernel_distance_matrix(m, m.centers))
        want = float(bval) * med
        try:
            got = float(m.kernel_obj.bandwidth)
        except Exception as e:
            ck.violation(f'stored bandwidth {m.kernel_obj.bandwidth!r} is not a number ({e!r}) on {desc}', dict(desc, X=X.tolist()), key='bandwidth-not-a-number'); continue
        u_carrier = float(np.finfo(ctor).eps) if (isinstance(base, np.floating) and np.finfo(ctor).bits < 64) else 0.0
        reltol = (2e-6 if kern == 'l2_high_dim' else 1e-9) + u_carrier
        ck.case(dict(desc, bandwidth=got, expected=want), nontrivial=True, sample=(i == 1))
        if not (abs(got - want) <= reltol * want):
            ck.violation(f'stored bandwidth {got!r} != base bandwidth {base!r} ({cname}) x lower median {med!r} of the pairwise distances of the transformed training '
                         f'points (= {want!r}; relative error {abs(got - want) / want:.3g} > {reltol:.3g}) for the returned iterate (best_iter={m.best_iter}) on {desc}',
                         dict(desc, got=got, want=want, median=med, X=X.tolist(), Y=Y.tolist(), Xv=Xv.tolist(), Yv=Yv.tolist()),
                         key=json.dumps(dict(site='bandwidth', carrier=True)))
        # (b) scale invariance of the predictions, every other configuration (all carriers and kernels are visited: 8 carriers x 4 kernels, stride 2 over i // 8)
        if (i // 8 + i) % 2:
            continue
        try:
            with xr.quiet():
                P = m.predict(T(Q)).double().numpy()
        except Exception as e:
            ck.violation(f'predict after an adaptive fit with base bandwidth {base!r} ({cname}) raised {e!r} (stored bandwidth {got!r}) on {desc}',
                         dict(desc, got=got, want=want, X=X.tolist(), Q=Q.tolist()), key=json.dumps(dict(site='predict-raise', carrier=True))); continue
        ptol = (2e-4 if kern == 'l2_high_dim' else 2e-6) + 50 * u_carrier
        for c in (1e-3, 1e3):
            try:
                mc = fit(c)
                with xr.quiet():
                    Pc = mc.predict(T(Q * c)).double().numpy()
            except Exception as ex:
                ck.violation(f'fit/predict on inputs rescaled by {c} raised {ex!r} with base bandwidth {base!r} ({cname}) on {desc}', dict(desc, c=c, X=X.tolist(), Q=Q.tolist()),
                             key=json.dumps(dict(site='scaled-fit-raise', carrier=True))); continue
            dev = float(np.max(np.abs(Pc - P)))
            ck.case(dict(desc, c=c, dev=dev), nontrivial=True)
            if not (dev <= ptol * (1 + float(np.abs(P).max()))):
                ck.violation(f'predictions change by {dev:.3g} when all inputs are rescaled by {c} (base bandwidth {base!r} ({cname}); stored bandwidth {got!r} -> '
                             f'{float(mc.kernel_obj.bandwidth)!r}, {c} x {got!r} = {c * got!r}) on {desc}', dict(desc, c=c, dev=dev, X=X.tolist(), Q=Q.tolist()),
                             key=json.dumps(dict(site='scale-invariance', carrier=True)))
    # the same through the tree-level interface: rfm_params {'model': {'bandwidth': <int>, 'bandwidth_mode': 'adaptive'}} (single leaf, float32 pipeline)
    for i in range(ck.n(4, 12)):
        kern = ['l2', 'l1', 'lpq', 'l2_high_dim'][i % 4]
        cname, ctor = BASE_CARRIERS[[0, 1, 3, 2][i % 4]]
        bval = [5, 10, 2][i % 3]; unit = [1.0, 1e-2, 1e2][(i // 2) % 3]; itl = [1, 0, 2][i % 3]
        nl = int(rng.integers(30, 60)); dl = 3
        Xl = (rng.standard_normal((nl, dl)) * unit).astype(np.float32); yl = rng.standard_normal((nl, 1)).astype(np.float32)
        Xvl = (rng.standard_normal((12, dl)) * unit).astype(np.float32); yvl = rng.standard_normal((12, 1)).astype(np.float32)
        pl = xr.default_rfm_params(kernel=kern, iters=itl, reg=1e-2, bandwidth=ctor(bval), bandwidth_mode='adaptive', diag=bool(i % 2), **(dict(norm_p=1.5) if kern == 'lpq' else {}))
        descl = dict(kind='base bandwidth carrier, rfm_params of xRFM', i=i, kernel=kern, base=repr(ctor(bval)), base_type=cname, data_unit=unit, n=nl, iters=itl, diag=bool(i % 2), seed=ck.seed)
        xr.seed_all(1980 + i + ck.seed)
        ml = xr.xRFM(rfm_params=pl, max_leaf_size=10_000, verbose=False, use_temperature_tuning=False)
        try:
            with xr.quiet():
                ml.fit(torch.tensor(Xl), torch.tensor(yl), torch.tensor(Xvl), torch.tensor(yvl))
        except Exception as e:
            ck.violation(f'xRFM fit with rfm_params bandwidth {ctor(bval)!r} ({cname}), adaptive mode, raised {e!r} on {descl}', dict(descl, X=Xl.tolist()), key='fit-raise-carrier'); continue
        lm = ml.trees[0]['model']
        medl = lower_median_offdiag(kernel_distance_matrix(lm, lm.centers)); gotl = float(lm.kernel_obj.bandwidth); wantl = float(bval) * medl
        ck.case(dict(descl, bandwidth=gotl, expected=wantl), nontrivial=True); ck.count(f'rfm_params base bandwidth given as {cname}')
        if not (abs(gotl - wantl) <= 3e-6 * wantl):
            ck.violation(f'stored bandwidth {gotl!r} != base bandwidth {ctor(bval)!r} ({cname}, given in rfm_params) x lower median {medl!r} of the pairwise distances of the '
                         f'leaf\'s training points (= {wantl!r}; relative error {abs(gotl - wantl) / wantl:.3g}) on {descl}',
                         dict(descl, got=gotl, want=wantl, X=Xl.tolist(), y=yl.tolist()), key=json.dumps(dict(site='bandwidth', carrier=True, via='xRFM')))


def run(ck):
    from harness import xr
    ck.rule = ('adaptive-bandwidth leaf fits (l2, l2_high_dim, l1, lpq; exponents; diagonal/full; iteration budgets 0-4; early stop / best-restore on/off): '
               '(a) the stored bandwidth vs base * lower median of the off-diagonal pairwise distances (kernel norm) of the feature-transformed training '
               'points under the STORED feature matrix — the order-statistic claim is checked in Coq on exact rationals; (b) predictions of fits on inputs '
               'rescaled by 1e-3..1e3 vs the unscaled fit.  non-trivial = iters >= 1; distinct by configuration hash')
    ck.trusted += ['Coq 8.16.1 kernel + vm_compute', 'real-number axioms (kernel scale-invariance theorems)', 'float64 distance recomputation in the harness']
    ck.assumptions += ['torch.median returns the lower median', 'tolerances: bandwidth 1e-9 relative (light kernel 2e-6), rescaled predictions 2e-6 relative']
    ck.check_theorems()
    from harness import bwops
    bwops.check_translation(ck)
    rng = np.random.default_rng(ck.seed + 1919)
    kernels = [('l2', {}), ('l2_high_dim', {}), ('l1', {}), ('lpq', dict(norm_p=1.5))]
    T = lambda a: torch.tensor(a, dtype=torch.float64)
    cases = []; meta = {}
    nconf = ck.n(20, 120)
    for i in range(nconf):
        kern, extra = kernels[i % 4]
        diag = bool((i // 4) % 2)
        iters = [0, 1, 2, 3, 4][i % 5]
        q = [1.0, 1.3, 0.8][(i // 4) % 3]
        if kern == 'lpq':
            q = min(q, 1.5)
        early = bool((i // 2) % 2); rb = bool((i // 3) % 2)
        base = float(rng.choice([0.5, 1.0, 10.0]))
        n = int(rng.integers(8, 16)); d = int(rng.integers(2, 4)); nout = int(rng.integers(1, 3))
        X = rng.standard_normal((n, d)); Y = rng.standard_normal((n, nout))
        Xv = rng.standard_normal((6, d)); Yv = rng.standard_normal((6, nout))
        Q = rng.standard_normal((5, d))
        if i % 5 == 3:
            # replicated design points (repeated measurements): distinct training ROWS that coincide are training points like any other, their
            # zero distances are among the pairwise distances the median is taken over
            ndist = int(rng.integers(3, 6)); reps = rng.standard_normal((ndist, d)); X = reps[np.arange(n) % ndist]
            ck.count('replicated training rows')
        # every third configuration selects its iterate with a MAXIMISED metric (accuracy on one-hot targets)
        metric = 'accuracy' if i % 3 == 2 else 'mse'
        if metric == 'accuracy':
            K = 2 + (i // 3) % 2
            Y = np.eye(K)[rng.integers(0, K, size=n)]; Yv = np.eye(K)[rng.integers(0, K, size=6)]
            Y[:K] = np.eye(K); Yv[:K] = np.eye(K)
        desc = dict(i=i, kernel=kern, diag=diag, iters=iters, q=q, early=early, rb=rb, base=base, n=n, d=d, metric=metric, replicated_rows=bool(i % 5 == 3), seed=ck.seed)

        # every third configuration hands the leaf model a kernel OBJECT (constructed by the caller with default arguments) instead of a name
        as_object = (i % 3 == 1)
        desc['kernel_object'] = as_object

        def kernel_arg():
            if not as_object:
                return kern
            from xrfm.rfm_src import kernels as KK
            return {'l2': lambda: KK.LaplaceKernel(bandwidth=base, exponent=q), 'l2_high_dim': lambda: KK.LightLaplaceKernel(bandwidth=base, exponent=q),
                    'l1': lambda: KK.ProductLaplaceKernel(bandwidth=base, exponent=q), 'lpq': lambda: KK.LpqLaplaceKernel(bandwidth=base, p=1.5, q=q)}[kern]()

        def fit(scale):
            xr.seed_all(1900 + i + ck.seed)
            m = xr.RealRFM(kernel=kernel_arg(), iters=iters, bandwidth=base, exponent=q, bandwidth_mode='adaptive', device='cpu', diag=diag, verbose=False,
                           tuning_metric=metric, **extra)
            with xr.quiet():
                m.fit((T(X * scale), T(Y)), (T(Xv * scale), T(Yv)), iters=iters, reg=1e-2, verbose=False, early_stop_rfm=early, return_best_params=rb,
                      early_stop_multiplier=1.05)
                P = m.predict(T(Q * scale)).double().numpy()
            return m, P
        try:
            m, P = fit(1.0)
        except Exception as e:
            ck.violation(f'adaptive fit raised {e!r} on {desc}', dict(desc), key='fit-raise'); continue
        ck.count(f'kernel={kern}'); ck.count(f'iters={iters}'); ck.count(f'best_iter={m.best_iter}'); ck.count(f'metric={metric}'); ck.count('kernel given as an object' if as_object else 'kernel given by name')
        # ---- (a) stored bandwidth = base * lower median of the pairwise distances under the stored state ----
        D = kernel_distance_matrix(m, m.centers)
        off = D[~torch.eye(n, dtype=torch.bool)]
        srt = torch.sort(off).values
        med = float(srt[(len(srt) - 1) // 2])
        got = float(m.kernel_obj.bandwidth)
        reltol = 2e-6 if kern == 'l2_high_dim' else 1e-9
        ck.case(dict(desc, bandwidth=got, expected=base * med), nontrivial=iters >= 1, sample=(i == 5))
        if abs(got - base * med) > reltol * max(1.0, base * med):
            ck.violation(f'stored bandwidth {got!r} != base bandwidth {base} x lower median {med!r} of the pairwise distances of the transformed training points '
                         f'(= {base * med!r}) for the returned iterate (best_iter={m.best_iter}) on {desc}', dict(desc, got=got, want=base * med),
                         key=json.dumps(dict(site='bandwidth', iters0=(iters == 0))))
        e = Fraction(reltol * max(1.0, med) * 4)
        cases.append((len(cases), f'lower_median_okb {coq_Q(e)} {coq_Q(Fraction(got) / Fraction(base))} {coq_Qlist(off.tolist())}'))
        meta[len(cases) - 1] = desc
        # ---- (b) rescaling all inputs leaves the predictions unchanged ----
        for c in ([1e-3, 7.0, 1e3] if i % 2 else [0.5, 1e2]):
            try:
                mc, Pc = fit(c)
            except Exception as ex:
                ck.violation(f'fit on inputs rescaled by {c} raised {ex!r} on {desc}', dict(desc, c=c), key='scaled-fit-raise'); continue
            dev = float(np.max(np.abs(Pc - P)))
            tol = (2e-4 if kern == 'l2_high_dim' else 2e-6) * (1 + float(np.abs(P).max()))
            ck.case(dict(desc, c=c, dev=dev), nontrivial=iters >= 1)
            if dev > tol:
                ck.violation(f'predictions change by {dev:.3g} when all inputs are rescaled by {c} (bandwidth {got!r} -> {float(mc.kernel_obj.bandwidth)!r}) on {desc}',
                             dict(desc, c=c, dev=dev), key=json.dumps(dict(site='scale-invariance', iters0=(iters == 0))))
    # ---- float32 inputs of small magnitude (features of order 1e-5, rescaled by 1e-3..1): the median pairwise distance is far below the resolution of float32 AROUND 1
    #      but is an ordinary float32 number; the stored bandwidth must still be base x median and predictions must not change under rescaling
    T32 = lambda a: torch.tensor(a, dtype=torch.float32)
    for i in range(ck.n(4, 12)):
        kern, extra = kernels[i % 4]
        n = 14; d = 3; base = [1.0, 10.0][i % 2]
        X = (rng.standard_normal((n, d)) * 1e-5); Y = rng.standard_normal((n, 1)); Xv = rng.standard_normal((6, d)) * 1e-5; Yv = rng.standard_normal((6, 1)); Q = rng.standard_normal((5, d)) * 1e-5
        desc = dict(kind='tiny-float32', i=i, kernel=kern, base=base, seed=ck.seed)
        outs = {}
        for c in (1.0, 1e-3):
            xr.seed_all(1950 + i + ck.seed)
            m = xr.RealRFM(kernel=kern, iters=1, bandwidth=base, exponent=1.0, bandwidth_mode='adaptive', device='cpu', diag=False, verbose=False, tuning_metric='mse', **extra)
            try:
                with xr.quiet():
                    m.fit((T32(X * c), T32(Y)), (T32(Xv * c), T32(Yv)), iters=1, reg=1e-2, verbose=False, return_best_params=False)
                    P = m.predict(T32(Q * c)).double().numpy()
            except Exception as e:
                ck.violation(f'adaptive fit on small-magnitude float32 inputs (scale {c}) raised {e!r} on {desc}', dict(desc, c=c), key='fit-raise'); break
            D = kernel_distance_matrix(m, m.centers)
            off = D[~torch.eye(n, dtype=torch.bool)]
            srt = torch.sort(off).values
            med = float(srt[(len(srt) - 1) // 2])
            got = float(m.kernel_obj.bandwidth)
            ck.case(dict(desc, c=c, bandwidth=got, expected=base * med), nontrivial=True); ck.count('small-magnitude float32 inputs')
            if abs(got - base * med) > 2e-3 * base * med:
                ck.violation(f'stored bandwidth {got!r} != base bandwidth {base} x lower median {med!r} of the pairwise distances (= {base * med!r}) for float32 inputs of magnitude {1e-5 * c:g} on {desc}',
                             dict(desc, c=c, got=got, want=base * med), key=json.dumps(dict(site='bandwidth', iters0=False)))
            outs[c] = P
        if len(outs) == 2:
            dev = float(np.max(np.abs(outs[1.0] - outs[1e-3])))
            if dev > 5e-3 * (1 + float(np.abs(outs[1.0]).max())):
                ck.violation(f'predictions change by {dev:.3g} when small-magnitude float32 inputs are rescaled by 1e-3 on {desc}', dict(desc, dev=dev),
                             key=json.dumps(dict(site='scale-invariance', iters0=False)))
    # ---- a leaf just below the sub-sampling limit (4096 < n <= 5000 training rows, rows ordered along the first coordinate so that a block of leading rows is
    #      not representative): the median is over the pairwise distances of ALL training points
    for kern_big in (['l2'] if ck.tier == 'quick' else ['l2', 'l2_high_dim', 'l1']):
        nb, db = 4300, 3
        Xb = rng.standard_normal((nb, db)); Xb = Xb[np.argsort(Xb[:, 0])]; Xb[:, 0] *= 4.0
        Yb = rng.standard_normal((nb, 1)); base_b = 2.0
        xr.seed_all(1990 + ck.seed)
        mb = xr.RealRFM(kernel=kern_big, iters=0, bandwidth=base_b, exponent=1.0, bandwidth_mode='adaptive', device='cpu', diag=False, verbose=False, tuning_metric='mse')
        descb = dict(kind='near-subsample-limit', kernel=kern_big, n=nb, seed=ck.seed)
        try:
            with xr.quiet():
                mb.fit((T(Xb), T(Yb)), (T(Xb[:50]), T(Yb[:50])), iters=0, reg=1e-1, verbose=False)
        except Exception as e:
            ck.violation(f'adaptive fit of a {nb}-row leaf raised {e!r}', dict(descb), key='fit-raise'); continue
        Db = kernel_distance_matrix(mb, mb.centers)
        offb = Db[~torch.eye(nb, dtype=torch.bool)]
        medb = float(torch.sort(offb).values[(len(offb) - 1) // 2])
        gotb = float(mb.kernel_obj.bandwidth)
        ck.case(dict(descb, bandwidth=gotb, expected=base_b * medb), nontrivial=True); ck.count('leaf just below the sub-sampling limit')
        if abs(gotb - base_b * medb) > (2e-6 if kern_big == 'l2_high_dim' else 1e-9) * base_b * medb:
            ck.violation(f'stored bandwidth {gotb!r} != base bandwidth {base_b} x lower median {medb!r} of the pairwise distances of ALL {nb} training points (= {base_b * medb!r}) on {descb}',
                         dict(descb, got=gotb, want=base_b * medb), key=json.dumps(dict(site='bandwidth', iters0=True)))
    # ---- the smallest training sets: two or three points (ONE pairwise distance is a median too): stored bandwidth = base x that distance, predictions invariant
    for i in range(ck.n(6, 18)):
        kern, extra = kernels[i % 4]
        nt = [2, 3, 2][i % 3]; dt = 3; baset = [3.0, 0.5][i % 2]; itt = [0, 1, 2][(i // 2) % 3]
        Xt_ = rng.standard_normal((nt, dt)); Yt_ = rng.standard_normal((nt, 1)); Xvt = rng.standard_normal((4, dt)); Yvt = rng.standard_normal((4, 1)); Qt_ = rng.standard_normal((5, dt))
        desct = dict(kind='tiny training set', i=i, kernel=kern, n=nt, iters=itt, base=baset, diag=bool(i % 2), seed=ck.seed)
        def fit_t(c):
            xr.seed_all(1960 + i + ck.seed)
            mt_ = xr.RealRFM(kernel=kern, iters=itt, bandwidth=baset, exponent=1.0, bandwidth_mode='adaptive', device='cpu', diag=bool(i % 2), verbose=False, tuning_metric='mse', **extra)
            with xr.quiet():
                mt_.fit((T(Xt_ * c), T(Yt_)), (T(Xvt * c), T(Yvt)), iters=itt, reg=1e-2, verbose=False, return_best_params=bool(i % 2))
                return mt_, mt_.predict(T(Qt_ * c)).double().numpy()
        try:
            mt_, Pt_ = fit_t(1.0)
        except Exception as e:
            ck.violation(f'adaptive fit on {nt} training points raised {e!r} on {desct}', dict(desct), key='fit-raise-tiny'); continue
        Dt = kernel_distance_matrix(mt_, mt_.centers); offt = Dt[~torch.eye(nt, dtype=torch.bool)]
        medt = float(torch.sort(offt).values[(len(offt) - 1) // 2]); gott = float(mt_.kernel_obj.bandwidth)
        ck.case(dict(desct, bandwidth=gott, expected=baset * medt), nontrivial=True); ck.count(f'training set of {nt} points')
        if abs(gott - baset * medt) > (2e-6 if kern == 'l2_high_dim' else 1e-9) * max(1.0, baset * medt):
            ck.violation(f'stored bandwidth {gott!r} != base bandwidth {baset} x lower median {medt!r} of the pairwise distances (= {baset * medt!r}) on a training set of {nt} points, {desct}',
                         dict(desct, got=gott, want=baset * medt, X=Xt_.tolist()), key=json.dumps(dict(site='bandwidth', tiny=True)))
        for c in (1e-3, 1e3):
            try:
                _, Pc_ = fit_t(c)
            except Exception as ex:
                ck.violation(f'fit on {nt} training points rescaled by {c} raised {ex!r} on {desct}', dict(desct, c=c), key='scaled-fit-raise'); continue
            devt = float(np.max(np.abs(Pc_ - Pt_)))
            if devt > (2e-4 if kern == 'l2_high_dim' else 2e-6) * (1 + float(np.abs(Pt_).max())):
                ck.violation(f'predictions change by {devt:.3g} when the {nt} training points and the queries are rescaled by {c} on {desct}', dict(desct, c=c, dev=devt, X=Xt_.tolist()),
                             key=json.dumps(dict(site='scale-invariance', tiny=True)))
    # ---- declared categorical columns handled by the fast path (identity embeddings), adaptive mode, exponents other than 1: the stored bandwidth is base x median of the
    #      pairwise distances between the (one-hot) training rows, exactly as for the dense evaluation
    crng = np.random.default_rng(ck.seed + 1991)
    for i in range(ck.n(4, 12)):
        kernc = ['l2', 'lpq'][i % 2]; qc = [1.4, 2.0, 0.7, 1.0][i % 4] if kernc == 'l2' else [1.4, 1.0][(i // 2) % 2]; basec = [2.0, 0.6][i % 2]
        levc = [3, 2]; nnc = 2; dc_ = nnc + sum(levc); ncat = 31
        Xc_ = np.zeros((ncat, dc_)); Xc_[:, :nnc] = crng.standard_normal((ncat, nnc)); o_ = nnc
        for lv in levc:
            Xc_[np.arange(ncat), o_ + crng.integers(0, lv, size=ncat)] = 1.0; o_ += lv
        Yc_ = crng.standard_normal((ncat, 1)); o_ = nnc; cidx = []
        for lv in levc:
            cidx.append(torch.arange(o_, o_ + lv)); o_ += lv
        cinfo = dict(numerical_indices=torch.arange(nnc), categorical_indices=cidx, categorical_vectors=[torch.eye(lv, dtype=torch.float64) for lv in levc])
        descc = dict(kind='categorical fast path, adaptive', i=i, kernel=kernc, exponent=qc, base=basec, n=ncat, seed=ck.seed)
        try:
            xr.seed_all(1990 + i + ck.seed)
            mc_ = xr.RealRFM(kernel=kernc, iters=0, bandwidth=basec, exponent=qc, bandwidth_mode='adaptive', device='cpu', diag=False, verbose=False, tuning_metric='mse',
                             categorical_info=cinfo, fast_categorical=True, **(dict(norm_p=1.5) if kernc == 'lpq' else {}))
            with xr.quiet():
                mc_.fit((T(Xc_), T(Yc_)), (T(Xc_[:6]), T(Yc_[:6])), iters=0, reg=1e-2, verbose=False)
        except Exception as e:
            ck.notes.append(f'categorical adaptive fit failed on {descc}: {e!r}'[:250]); ck.count('categorical adaptive fit failed'); continue
        Dc_ = kernel_distance_matrix(mc_, mc_.centers); offc = Dc_[~torch.eye(ncat, dtype=torch.bool)]
        medc = float(torch.sort(offc).values[(len(offc) - 1) // 2]); gotc = float(mc_.kernel_obj.bandwidth)
        ck.case(dict(descc, bandwidth=gotc, expected=basec * medc, fast=bool(mc_.kernel_obj.handle_categorical)), nontrivial=True); ck.count('categorical fast path, adaptive bandwidth')
        if abs(gotc - basec * medc) > 1e-9 * max(1.0, basec * medc):
            ck.violation(f'stored bandwidth {gotc!r} != base bandwidth {basec} x lower median {medc!r} of the pairwise distances of the one-hot training rows (= {basec * medc!r}) '
                         f'with the categorical fast path on {descc}', dict(descc, got=gotc, want=basec * medc), key=json.dumps(dict(site='bandwidth', categorical=True)))
    # ---- logistic leaf solver (binary classification, zero/one encoding) in adaptive mode: the bandwidth stored with the leaf is still base x median of the pairwise
    #      distances between ITS TRAINING POINTS (the validation points, here concentrated away from the training cloud, play no part in it)
    for i in range(ck.n(4, 12)):
        kern = ['l2', 'l1', 'l2_high_dim', 'lpq'][i % 4]
        nl = int(rng.integers(40, 90)); dl = 3; basel = [2.0, 0.7][i % 2]; itl = [0, 2, 1][i % 3]
        Xl = rng.standard_normal((nl, dl)).astype(np.float32); yl = (Xl[:, 0] > 0).astype(np.int64)
        Xvl = (0.3 * rng.standard_normal((20, dl)) + 1.0).astype(np.float32); yvl = (Xvl[:, 0] > 1.0).astype(np.int64); yvl[0] = 0; yvl[1] = 1
        pl = xr.default_rfm_params(kernel=kern, iters=itl, reg=1e-2, bandwidth=basel, bandwidth_mode='adaptive', diag=bool(i % 2), **(dict(norm_p=1.5) if kern == 'lpq' else {}))
        pl[['fit', 'model'][(i // 2) % 2]]['solver'] = 'log_reg'
        descl = dict(kind='logistic leaf', i=i, kernel=kern, n=nl, iters=itl, base=basel, diag=bool(i % 2), seed=ck.seed)
        ml = xr.xRFM(rfm_params=pl, max_leaf_size=10_000, verbose=False, classification_mode='zero_one', use_temperature_tuning=False)
        try:
            with xr.quiet():
                ml.fit(torch.tensor(Xl), torch.tensor(yl), torch.tensor(Xvl), torch.tensor(yvl))
        except Exception as e:
            ck.notes.append(f'logistic adaptive fit failed on {descl}: {e!r}'[:250]); continue
        lm = ml.trees[0]['model']; nn = int(lm.centers.shape[0])
        Dl = kernel_distance_matrix(lm, lm.centers); offl = Dl[~torch.eye(nn, dtype=torch.bool)]
        medl = float(torch.sort(offl).values[(len(offl) - 1) // 2]); gotl = float(lm.kernel_obj.bandwidth)
        ck.case(dict(descl, bandwidth=gotl, expected=basel * medl), nontrivial=True); ck.count('logistic leaf solver, adaptive bandwidth')
        if abs(gotl - basel * medl) > 3e-6 * max(1.0, basel * medl):
            ck.violation(f'stored bandwidth {gotl!r} != base bandwidth {basel} x lower median {medl!r} of the pairwise distances of the leaf\'s training points (= {basel * medl!r}) '
                         f'with the logistic leaf solver on {descl}', dict(descl, got=gotl, want=basel * medl), key=json.dumps(dict(site='bandwidth', solver='log_reg')))
    base_carrier_regime(ck, xr, kernels)
    res = ck.run_bool_cases('median', HEADER, cases, shard=40)
    bad = [meta[k] for k, v in res.items() if v is not True]
    ck.obligation(f'correspondence: stored bandwidth / base is a lower median of the recomputed distances for {len(cases)} fits (Coq lower_median_okb)',
                  'correspondence', not bad, f'first mismatches: {bad[:3]}')
