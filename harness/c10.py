"""C10 — Temperature tuning selects a best candidate and never regresses."""
import itertools, json, math
import numpy as np
import torch
from harness.common import *

HEADER = '''From Coq Require Import List Bool Arith PrimFloat.
Require Import XV.Model.Select.
Import ListNotations.
Definition ofeqb (a b : option float) : bool :=
  match a, b with Some x, Some y => PrimFloat.eqb x y | None, None => true | _, _ => false end.
Fixpoint lookup (tbl : list (option float * float)) (a : option float) : float :=
  match tbl with [] => nan | (k, v) :: t => if ofeqb k a then v else lookup t a end.
Definition ftune (minimize : bool) (init_attr : option float) (tbl : list (option float * float)) (cands : list float) :=
  tune float (f_init minimize) (f_better minimize) PrimFloat.eqb float (fun c => PrimFloat.leb c 0%float) PrimFloat.eqb 0%float
       init_attr (lookup tbl) cands.
Fixpoint res_eqb (a b : list (float * float)) : bool :=
  match a, b with
  | [], [] => true
  | (x, y) :: a', (x', y') :: b' => PrimFloat.eqb x x' && PrimFloat.eqb y y' && res_eqb a' b'
  | _, _ => false
  end.
Definition tune_eqb (r : tacc float float) (attr : option float) (best : float) (res : list (float * float)) : bool :=
  ofeqb (t_attr _ _ r) attr && PrimFloat.eqb (t_best _ _ r) best && res_eqb (t_results _ _ r) res.
'''


def cof(a):
    return 'None' if a is None else f'(Some {coq_float(a)})'


class Const:
    def __init__(self, v): self.v = float(v)
    def predict(self, X): return torch.full((X.shape[0], 1), self.v)
    def predict_proba(self, X): return torch.full((X.shape[0], 2), 0.5)


def manual_model(xr, init):
    m = xr.xRFM(verbose=False, split_temperature=init, tuning_metric='mse')
    tree = {'type': 'split', 'split_direction': torch.tensor([1.0, 0.0]), 'split_point': torch.tensor(0.0),
            'left': {'type': 'leaf', 'model': Const(1.0), 'train_indices': torch.tensor([0]), 'is_root': False},
            'right': {'type': 'leaf', 'model': Const(2.0), 'train_indices': torch.tensor([1]), 'is_root': False},
            'is_root': True, 'adaptive_temp_scaling': 1.0}
    m.trees = [tree]
    m.n_classes_ = 0
    return m


# ---------------------------------------------------------------------------------------------------------------------
# (c) WHY the trees split.  The statement speaks of every fit "with temperature tuning": whatever made the trees split
#     (training set larger than a leaf, a requested number of splits on data that fits into one leaf, both, tree
#     iterations, several trees, a refit of the same object), the returned model must sit at an optimal candidate and
#     the records must be the true scores.  The oracle below never reads the library's bookkeeping to decide whether
#     tuning "should" have run: it looks at the fitted trees (is there a split node?) and at the configuration
#     (use_temperature_tuning), puts the model at every candidate through the public attribute and recomputes the
#     validation metric in float64 from predict / predict_proba.
# ---------------------------------------------------------------------------------------------------------------------
MINIMISED = {'mse': True, 'mae': True, 'brier': True, 'accuracy': False}      # textbook directions of the metrics recomputed here

# (label, max_leaf_size as a function of n_train, number_of_splits); enumerated by index, independent of the seed
SPLIT_REASONS = [
    ('forced: n < default max_leaf_size, 1 split requested',    lambda n: None,        1),
    ('forced: n < max_leaf_size, 2 splits requested',           lambda n: n + 37,      2),
    ('forced: n == max_leaf_size, 1 split requested',           lambda n: n,           1),
    ('forced: n == max_leaf_size, 3 splits requested',          lambda n: n,           3),
    ('size: n == max_leaf_size + 1, no number of splits',       lambda n: n - 1,       None),
    ('size+forced: n == max_leaf_size + 1, 2 splits requested', lambda n: n - 1,       2),
    ('size: n > 2 max_leaf_size, no number of splits',          lambda n: n // 2 - 9,  None),
    ('size+forced: n > max_leaf_size, 1 split requested',       lambda n: n // 2 + 5,  1),
    ('size: n > max_leaf_size, 0 splits requested',             lambda n: n // 2 + 5,  0),
    ('control (single leaf): n == max_leaf_size, no number of splits', lambda n: n,    None),
    ('control (single leaf): n < max_leaf_size, 0 splits requested',   lambda n: n + 1, 0),
]
TUNING_SPACES = [[0.0, 0.05, 0.3, 1.0, 3.0], [2.0, 0.2, 0.0], [0.4, 0.0, 0.1, 1.5], [0.6, 0.15, 2.5], None, [1.0, 0.0]]   # None = the library default


def count_leaves(node):
    return 1 if node['type'] == 'leaf' else count_leaves(node['left']) + count_leaves(node['right'])


def validation_score(xr, model, task, metric, Xv, yv, attr):
    """the validation score of `model` with split_temperature = attr (None = hard routing), float64, textbook definitions"""
    model.split_temperature = attr
    with xr.quiet():
        if task == 'reg':
            pred = np.asarray(model.predict(torch.tensor(Xv)), dtype=np.float64).reshape(len(Xv), -1)
            t = np.asarray(yv, dtype=np.float64).reshape(len(Xv), -1)
            return float(np.mean((pred - t) ** 2)) if metric == 'mse' else float(np.mean(np.abs(pred - t)))
        P = np.asarray(model.predict_proba(torch.tensor(Xv)), dtype=np.float64)
    if metric == 'accuracy':
        return float(np.mean(P.argmax(1) == yv))
    if metric == 'brier':
        return float(np.mean((np.eye(P.shape[1])[yv] - P) ** 2))
    raise ValueError(metric)


def judge_tuned_fit(ck, xr, model, task, metric, Xv, yv, cands, desc):
    """oracle of the statement on a fitted model whose trees split and whose tuning is enabled; cands = the configured candidate list"""
    mini = MINIMISED[metric]
    stored = model.split_temperature
    attr_of = lambda c: None if float(c) <= 0 else float(c)
    tol = lambda v: 1e-5 * (1 + abs(v))
    worse = (lambda a, b: a > b + tol(b)) if mini else (lambda a, b: a < b - tol(b))
    ret = validation_score(xr, model, task, metric, Xv, yv, stored)
    scores = [validation_score(xr, model, task, metric, Xv, yv, attr_of(c)) for c in cands]
    model.split_temperature = stored
    opt = (min if mini else max)(scores)
    shown = {str(float(c)): round(s, 7) for c, s in zip(cands, scores)}
    for c, s in zip(cands, scores):
        ck.case(dict(desc, cand=float(c), recomputed=s))
    brief = ', '.join(f'{k}={desc[k]}' for k in ('j', 'i', 'n_train', 'max_leaf_size', 'number_of_splits', 'leaves_per_tree', 'metric', 'temp_tuning_space', 'configured_split_temperature',
                                                 'n_trees', 'n_tree_iters', 'refit_of_same_object', 'time_limit_s', 'n', 'L', 'space', 'data_seed', 'seed') if k in desc)
    probs = []
    if not any((attr_of(c) is None and stored is None) or (attr_of(c) is not None and stored is not None and attr_of(c) == float(stored)) for c in cands):
        probs.append(('not-a-candidate', f'the stored split temperature {stored} is not one of the candidates {[float(c) for c in cands]}'))
    if worse(ret, opt):
        probs.append(('not-optimal', f'the returned model (temperature {stored}) scores {metric}={ret:.7g} on the validation set but candidate '
                                     f'{float(cands[scores.index(opt)])} scores {opt:.7g}'))
    if any(float(c) <= 0 for c in cands):
        hard = scores[[float(c) <= 0 for c in cands].index(True)]
        if worse(ret, hard):
            probs.append(('worse-than-hard', f'the returned model (temperature {stored}, {metric}={ret:.7g}) is worse than hard routing ({hard:.7g}) although 0 is a candidate'))
    rec_best = getattr(model, 'best_split_temperature_score_', None)
    recs = getattr(model, 'temperature_tuning_results_', None)
    if rec_best is None:
        probs.append(('no-best-recorded', f'no best score was recorded (the returned model scores {ret:.7g})'))
    elif abs(float(rec_best) - ret) > tol(ret):
        probs.append(('best-mismatch', f'the recorded best score {float(rec_best):.7g} is not the validation score {ret:.7g} of the model as returned (temperature {stored})'))
    if recs is None:
        probs.append(('no-results-recorded', 'no per-candidate results were recorded'))
    else:
        recs = [(float(a), float(b)) for a, b in recs]
        if [a for a, _ in recs] != [float(c) for c in cands] or any(abs(b - s) > tol(s) for (_, b), s in zip(recs, scores)):
            probs.append(('results-mismatch', f'the recorded per-candidate results {[(a, round(b, 6)) for a, b in recs][:6]} are not the candidates\' true scores {list(shown.values())[:6]}'))
    for tag, p_ in probs:
        ck.violation(f'{p_}; fit: {brief}', dict(desc, stored=stored, returned_score=ret, candidate_scores=shown, recorded_best=None if rec_best is None else float(rec_best),
                                               recorded_results=recs, problem=tag),
                     key=json.dumps(dict(site='split-reason', what=tag, metric=metric)))
    return probs


def split_reason_fits(ck, xr):
    nfits = ck.n(2, 4) * len(SPLIT_REASONS)
    for j in range(nfits):
        label, leaf_of, nsplits = SPLIT_REASONS[j % len(SPLIT_REASONS)]
        rnd = j // len(SPLIT_REASONS)
        task, metric = [('reg', 'mse'), ('class', 'brier'), ('reg', 'mae'), ('class', 'accuracy')][(j + rnd) % 4]
        space = TUNING_SPACES[(j + 2 * rnd) % len(TUNING_SPACES)]
        cands = [float(c) for c in (xr.xmod.DEFAULT_TEMP_TUNING_SPACE if space is None else space)]
        positive = [c for c in cands if c > 0]
        configured = [None, 4.0, positive[-1], None, 0.03][(j // 2 + rnd) % 5]       # None / not a candidate / a candidate / tiny, not a candidate
        n_trees = 2 if j % 5 == 3 else 1
        n_tree_iters = 1 if j % 7 == 4 else 0
        refit = (j % 6 == 2)                          # the same object was fitted (and tuned) before on a training set larger than a leaf
        ds = 771000 + 131 * j + ck.seed
        nr = np.random.default_rng(ds)
        n = int(nr.integers(160, 280)); d = 3
        K = 2 + (j // 4) % 2
        Xa = xr.make_X('random', n + 90, d, nr); ya = xr.make_y(task, Xa, nr, n_classes=K)      # one target function; the last 90 rows validate
        X, y, Xv, yv = Xa[:n], ya[:n], Xa[n:], ya[n:]
        L = leaf_of(n)
        kw = dict(rfm_params=xr.default_rfm_params(iters=1, reg=1e-2), verbose=False, tuning_metric=metric, n_trees=n_trees, n_tree_iters=n_tree_iters)
        if L is not None: kw['max_leaf_size'] = L
        if nsplits is not None: kw['number_of_splits'] = nsplits
        if space is not None: kw['temp_tuning_space'] = list(space)
        if configured is not None: kw['split_temperature'] = configured
        if j % 4 == 1: kw['use_temperature_tuning'] = True       # stated explicitly; otherwise left at its default
        desc = dict(regime='split-reason', j=j, why=label, task=task, metric=metric, n_train=n, n_val=90, d=d, classes=K if task == 'class' else None,
                    max_leaf_size=L if L is not None else 'default', number_of_splits=nsplits, temp_tuning_space=space if space is not None else 'default',
                    configured_split_temperature=configured, n_trees=n_trees, n_tree_iters=n_tree_iters, refit_of_same_object=refit,
                    data=f"nr=np.random.default_rng({ds}); n=nr.integers(160,280); Xa=xr.make_X('random',n+90,3,nr); ya=xr.make_y('{task}',Xa,nr,{K}); train=first n rows, validation=last 90",
                    data_seed=ds, torch_seed=5300 + j + ck.seed, seed=ck.seed)
        xr.seed_all(5300 + j + ck.seed)
        model = xr.xRFM(**kw)
        try:
            with xr.quiet():
                if refit:
                    n0 = n + 61           # other, larger data: split by size unless max_leaf_size is the default
                    X0 = xr.make_X('random', n0, d, nr); y0 = xr.make_y(task, X0, nr, n_classes=K)
                    model.fit(torch.tensor(X0), torch.tensor(y0), torch.tensor(Xv), torch.tensor(yv))
                model.fit(torch.tensor(X), torch.tensor(y), torch.tensor(Xv), torch.tensor(yv))
        except Exception as e:
            ck.notes.append(f'fit failed {desc}: {e!r}'); ck.count('split-reason fit failed'); continue
        leaves = [count_leaves(t) for t in model.trees]
        desc['leaves_per_tree'] = leaves
        split = any(k > 1 for k in leaves)
        ck.count(f'split-reason: {label} -> ' + ('split' if split else 'single leaf'))
        if not split:
            # nothing routes: every temperature gives the same model; the statement constrains nothing observable
            ck.case(dict(desc, outcome='single leaf'), nontrivial=False)
            continue
        if not model.use_temperature_tuning:
            continue
        ck.count(f'split-reason: metric={metric}'); ck.count('split-reason: configured temperature ' + ('None' if configured is None else ('a candidate' if configured in cands else 'not a candidate')))
        judge_tuned_fit(ck, xr, model, task, metric, Xv, yv, cands, desc)


def run(ck):
    from harness import xr
    import xrfm.xrfm as xmod
    ck.rule = ('(a) the REAL xRFM.fit_temperature on a manual one-split tree with a scripted metric (Metric.from_name patched in the harness '
               'process) whose value is a function of the temperature in force: all score tables over a small alphabet x candidate lists '
               '(length 1-5, any order, with/without 0) x initial temperature (None / in list / not in list) x direction; '
               '(b) real fits with tuning: every recorded candidate score and the recorded best score recomputed from predict/predict_proba. '
               '(c) real fits enumerated by why the trees split (n_train vs max_leaf_size at and around the boundary x number_of_splits None/0/1/2/3 x configured temperature '
               'None / a candidate / not a candidate x candidate lists x trees x tree iterations x refit): whenever a fitted tree has a split node and tuning is enabled, the stored '
               'temperature is a candidate, is optimal and not worse than hard routing under scores recomputed at every candidate, and the records exist and are those scores. '
               'non-trivial = >= 2 candidates with >= 2 distinct scores; distinct by hash of the configuration')
    ck.trusted += ['Coq 8.16.1 kernel + vm_compute (PrimFloat)', 'scripted metric object (harness)', 'numpy re-implementation of mse/mae/accuracy/brier']
    ck.assumptions += ['scores finite and not NaN']
    ck.check_theorems()
    from harness import selectarith
    selectarith.check_translation(ck)
    temps = [0.0, 0.00390625, 0.5, 1.0, 2.0, 4.0]          # includes a tiny positive temperature (2^-8): soft routing, not hard
    alphabet = [0.0, 1.0, 2.0]
    rng = ck.rng
    configs = []
    # exhaustive for short lists
    for ln in (1, 2, 3):
        for cands in itertools.permutations(temps, ln):
            for sc in itertools.product(alphabet, repeat=ln):
                if rng.random() > ck.n(0.12, 0.6):
                    continue
                for init in (None, cands[0], 3.0):
                    for mini in (True, False):
                        configs.append(dict(cands=list(cands), tbl=dict(zip(cands, sc)), init=init, mini=mini))
    for _ in range(ck.n(500, 6000)):
        ln = rng.choice([2, 3, 4, 5])
        cands = rng.sample(temps, ln) if rng.random() < 0.8 else [rng.choice(temps) for _ in range(ln)]
        tbl = {c: rng.choice(alphabet + [0.5, 1.5]) for c in set(cands)}
        init = rng.choice([None, 3.0] + cands)
        if init == 0.0:
            init = None if rng.random() < 0.5 else 0.0
        configs.append(dict(cands=cands, tbl=tbl, init=init, mini=rng.random() < 0.5))
    cases = []; meta = {}
    old_from_name = xmod.Metric.from_name
    try:
        for k, c in enumerate(configs):
            model = manual_model(xr, c['init'])
            tbl = c['tbl']

            class Scripted:
                should_maximize = not c['mini']
                required_quantities = ['y_true_reg', 'y_pred']
                task_types = ['reg']
                def compute(self, **kw):
                    t = model.split_temperature
                    return tbl[0.0 if t is None else float(t)] if (t is None or float(t) in tbl) else tbl[min(tbl)]
            xmod.Metric.from_name = staticmethod(lambda name: Scripted())
            Xv = torch.tensor([[-1.0, 0.0], [1.0, 0.0], [0.25, 1.0]]); yv = torch.zeros(3, 1)
            try:
                model.fit_temperature(Xv, yv, c['cands'])
            except Exception as e:
                ck.violation(f'fit_temperature raised {e!r} on {c}', dict(c, error=repr(e)), key='raise')
                continue
            st = model.split_temperature
            best = model.best_split_temperature_score_
            res = [(float(a), float(b)) for a, b in model.temperature_tuning_results_]
            ck.case(dict(cands=c['cands'], tbl={str(a): b for a, b in tbl.items()}, init=c['init'], minimize=c['mini'], stored=st, best=best),
                    nontrivial=(len(c['cands']) >= 2 and len(set(tbl.values())) >= 2), sample=(k % 503 == 7))
            ck.count(f"len={len(c['cands'])}"); ck.count('init=None' if c['init'] is None else ('init in list' if c['init'] in c['cands'] else 'init not in list'))
            ck.count('has0' if 0.0 in c['cands'] else 'no0')
            # oracle from the statement
            score = lambda a: tbl[0.0 if a is None else a]
            attr_of = lambda cand: None if cand <= 0 else cand
            probs = []
            if not any(attr_of(x) == st for x in c['cands']):
                probs.append(f'stored temperature {st} is not a candidate')
            else:
                opt = (min if c['mini'] else max)(score(attr_of(x)) for x in c['cands'])
                if score(st) != opt:
                    probs.append(f'stored temperature {st} has score {score(st)} but the best candidate score is {opt}')
                if best != score(st):
                    probs.append(f'recorded best score {best} is not the score {score(st)} of the stored temperature {st}')
                if 0.0 in c['cands'] and ((score(st) > score(None)) if c['mini'] else (score(st) < score(None))):
                    probs.append('returned model is worse than hard routing although 0 was a candidate')
            if res != [(x, score(attr_of(x))) for x in c['cands']]:
                probs.append(f'recorded per-candidate results {res} are not the candidates\' true scores')
            for p_ in probs:
                ck.violation(p_ + f' on {c}', dict(c, stored=st, best=best, results=res),
                             key=json.dumps(dict(site='scripted', what=p_[:30], mini=c['mini'])))
            tcoq = coq_list([f'({cof(None if a <= 0 else a)}, {coq_float(b)})' for a, b in tbl.items()])
            rcoq = coq_list([f'({coq_float(a)}, {coq_float(b)})' for a, b in res])
            cases.append((k, f"tune_eqb (ftune {coq_bool(c['mini'])} {cof(c['init'])} {tcoq} {coq_list([coq_float(x) for x in c['cands']])}) {cof(st)} {coq_float(best)} {rcoq}"))
            meta[k] = c
        # ---- a SECOND tuning run on the same object (other validation data -> other score table): the statement holds for it too,
        #      whatever the first run recorded
        for k2 in range(ck.n(80, 600)):
            cands = rng.sample(temps, rng.choice([2, 3, 4]))
            mini = rng.random() < 0.5
            tblA = {c_: rng.choice([0.0, 1.0, 2.0]) for c_ in cands}
            shift = 10.0 if mini else -10.0            # every score of the second run is worse than the first run's best
            tblB = {c_: rng.choice([0.0, 1.0, 2.0]) + shift for c_ in cands}
            model = manual_model(xr, rng.choice([None, 3.0, cands[0] if cands[0] > 0 else None]))
            cur = {}

            class Scripted2:
                should_maximize = not mini
                required_quantities = ['y_true_reg', 'y_pred']
                task_types = ['reg']
                def compute(self, **kw):
                    t = model.split_temperature
                    return cur['tbl'][0.0 if t is None else float(t)] if (t is None or float(t) in cur['tbl']) else cur['tbl'][min(cur['tbl'])]
            xmod.Metric.from_name = staticmethod(lambda name: Scripted2())
            Xv = torch.tensor([[-1.0, 0.0], [1.0, 0.0], [0.25, 1.0]]); yv = torch.zeros(3, 1)
            for run_no, tbl in ((1, tblA), (2, tblB)):
                cur['tbl'] = tbl
                model.split_temperature = model._configured_split_temperature      # what xRFM.fit does before every tuning run
                try:
                    model.fit_temperature(Xv, yv, cands)
                except Exception as e:
                    ck.violation(f'fit_temperature raised {e!r} on run {run_no}', dict(cands=cands, error=repr(e)), key='raise'); break
            else:
                st = model.split_temperature; best = model.best_split_temperature_score_
                res2 = [(float(a), float(b)) for a, b in model.temperature_tuning_results_]
                score = lambda a: tblB[0.0 if a is None else a]
                attr_of = lambda cand: None if cand <= 0 else cand
                opt = (min if mini else max)(score(attr_of(x)) for x in cands)
                ck.case(dict(kind='second-tuning-run', cands=cands, tblA={str(a): b for a, b in tblA.items()}, tblB={str(a): b for a, b in tblB.items()}, mini=mini, stored=st, best=best),
                        nontrivial=True)
                ck.count('second tuning run on the same object')
                probs = []
                if not any(attr_of(x) == st for x in cands) or score(st) != opt:
                    probs.append(f'second tuning run: stored temperature {st} is not a best candidate of THIS run (its best score is {opt})')
                elif best != score(st):
                    probs.append(f'second tuning run: recorded best score {best} is not the score {score(st)} of the stored temperature')
                if res2 != [(x, score(attr_of(x))) for x in cands]:
                    probs.append('second tuning run: recorded per-candidate results are not this run\'s true scores')
                for p_ in probs:
                    ck.violation(p_ + f' (first run table {tblA}, second run table {tblB}, candidates {cands}, minimise={mini})',
                                 dict(cands=cands, tblA={str(a): b for a, b in tblA.items()}, tblB={str(a): b for a, b in tblB.items()}, mini=mini, stored=st, best=best, results=res2),
                                 key=json.dumps(dict(site='second-run', what=p_[:40])))
    finally:
        xmod.Metric.from_name = old_from_name
    res = ck.run_bool_cases('tune', HEADER, cases, shard=500)
    bad = [meta[k] for k, v in res.items() if v is not True]
    ck.obligation(f'correspondence: {len(cases)} scripted tunings through the real fit_temperature == Coq `tune` on binary64', 'correspondence',
                  not bad, f'first mismatches: {bad[:4]}')

    # ---- (b) real fits: recorded scores are the true scores of predict / predict_proba at that temperature ----
    nr = np.random.default_rng(ck.seed + 1010)
    metrics = [('reg', 'mse'), ('reg', 'mae'), ('class', 'accuracy'), ('class', 'brier'), ('class', 'logloss'), ('class', 'f1'), ('class', 'auc')]
    nfits = ck.n(7, 42)
    okb = True
    for i in range(nfits):
        task, metric = metrics[i % len(metrics)]
        n = int(nr.integers(120, 260)); d = 3; L = int(nr.integers(20, 50))
        X = xr.make_X('random', n, d, nr); y = xr.make_y(task, X, nr, n_classes=2 if metric in ('f1', 'auc') or i % 2 else 3)
        Xv = xr.make_X('random', 80, d, nr); yv = xr.make_y(task, Xv, nr, n_classes=int(y.max()) + 1 if task == 'class' else 3)
        space = [0.0, 0.05, 0.3, 1.0, 3.0] if i % 3 else ([0.3, 0.0, 2.0] if i % 2 else [0.004, 0.0, 0.3, 1.5])
        xr.seed_all(4200 + i + ck.seed)
        # every fourth fit: three trees requested but the time budget lets only the first be built (time_limit_s=0 is deterministic)
        cut = (i % 4 == 1)
        model = xr.xRFM(rfm_params=xr.default_rfm_params(iters=1, reg=1e-2), max_leaf_size=L, verbose=False, tuning_metric=metric,
                        temp_tuning_space=space, n_trees=(3 if cut else 1 + i % 2), classification_mode=['zero_one', 'prevalence'][i % 2],
                        # every third fit: non-default ensemble settings — a single leaf kept (cap 1 / keep fraction 0.2) or a cap of 2 on trees with >= 3 leaves
                        **(dict(max_leaf_count_in_ensemble=[1, 2, 12][(i // 3) % 3], keep_weight_frac_in_predict=[0.99, 0.2, 0.6][(i // 3) % 3]) if i % 3 == 2 else {}),
                        **(dict(time_limit_s=0) if cut else {}))
        desc = dict(i=i, task=task, metric=metric, n=n, L=L, space=space, n_trees=(3 if cut else 1 + i % 2), time_limit_s=(0 if cut else None), cap=model.max_leaf_count_in_ensemble, keep=model.keep_weight_frac_in_predict, seed=ck.seed)
        try:
            with xr.quiet():
                model.fit(torch.tensor(X), torch.tensor(y), torch.tensor(Xv), torch.tensor(yv))
        except Exception as e:
            ck.notes.append(f'fit failed {desc}: {e!r}'); ck.count('real-fit-failed'); continue
        if not hasattr(model, 'temperature_tuning_results_'):
            nl = [count_leaves(t) for t in model.trees]
            if any(k > 1 for k in nl):            # the trees split and tuning is enabled (the default): this IS a fit with temperature tuning
                if metric in MINIMISED:
                    judge_tuned_fit(ck, xr, model, task, metric, Xv, yv, [float(c) for c in space], dict(desc, leaves_per_tree=nl))
                else:
                    ck.violation(f'the trees split (leaves per tree {nl}) and temperature tuning is enabled, but neither per-candidate results nor a best score were recorded on {desc}',
                                 dict(desc, leaves_per_tree=nl, stored=model.split_temperature), key=json.dumps(dict(site='real-untuned', metric=metric)))
            else:
                ck.count('real fit without split (no tuning)')
            continue
        ck.count(f'real-fit metric={metric}'); ck.count(f'real-fit trees held {len(model.trees)} of {model.n_trees}')
        M = xmod.Metric.from_name(metric)
        stored = model.split_temperature

        def true_score(temp):
            model.split_temperature = None if temp is None or temp <= 0 else temp
            with xr.quiet():
                if task == 'reg':
                    pred = np.asarray(model.predict(torch.tensor(Xv)), dtype=np.float64).reshape(len(Xv), -1)
                    t = yv.reshape(len(Xv), -1).astype(np.float64)
                    return float(np.mean((pred - t) ** 2)) if metric == 'mse' else float(np.mean(np.abs(pred - t)))
                P = np.asarray(model.predict_proba(torch.tensor(Xv)), dtype=np.float64)
            if metric == 'accuracy':
                return float(np.mean(P.argmax(1) == yv))
            if metric == 'brier':
                oh = np.eye(P.shape[1])[yv]
                return float(np.mean((oh - P) ** 2))
            return float(M.compute(y_true_class=torch.tensor(yv), y_pred_proba=torch.tensor(P, dtype=torch.float32)))
        recs = list(model.temperature_tuning_results_)
        best = model.best_split_temperature_score_
        scores = {}
        for cand, s in recs:
            ts = true_score(cand)
            scores[cand] = ts
            tol = 1e-5 * (1 + abs(ts))
            ck.case(dict(desc, cand=cand, recorded=float(s), recomputed=ts))
            if abs(ts - float(s)) > tol:
                ck.violation(f'recorded score {s} of candidate {cand} differs from the score {ts} recomputed from predict at that temperature on {desc}',
                             dict(desc, cand=cand, recorded=float(s), recomputed=ts), key=json.dumps(dict(site='real-recorded', metric=metric)))
        ts = true_score(stored)
        model.split_temperature = stored
        if abs(ts - float(best)) > 1e-5 * (1 + abs(ts)):
            ck.violation(f'recorded best score {best} is not the validation score {ts} of the model as returned (temperature {stored}) on {desc}',
                         dict(desc, stored=stored, best=float(best), recomputed=ts), key=json.dumps(dict(site='real-best', metric=metric)))
        vals = list(scores.values())
        opt = max(vals) if M.should_maximize else min(vals)
        if abs(ts - opt) > 1e-5 * (1 + abs(opt)):
            ck.violation(f'returned temperature {stored} scores {ts}, best candidate scores {opt} on {desc}', dict(desc, scores={str(a): b for a, b in scores.items()}),
                         key=json.dumps(dict(site='real-opt', metric=metric)))

    # ---- (c) fits enumerated by WHY the trees split (size / requested number of splits / both / tree iterations / refit) ----
    split_reason_fits(ck, xr)
