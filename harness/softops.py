"""Fail-closed translator for soft routing (C09): `xRFM._predict_tree` / `_predict_tree_soft` are re-read from the current source with `ast` on
every run and emitted as Coq terms; lemmas `generated = model` are re-proved against coq/Real/SoftOps.v (weights, with both clamps) and
coq/Model/Soft.v (number of leaves kept).

 part 1  per-node logit           (x . v - b) / (T * scale)                                   -> gen_logit  = code_logit
 part 2  per-leaf accumulation    left fold of  log_prob + logsigmoid(-+ logit)  from 0         -> gen_step   = code_step
 part 3  stable softmax           clamp(min=-50) ; max ; subtract ; exp ; sum ; clamp(min=tiny) ; divide   -> gen_weights = code_weights
 part 4  truncation               sort descending ; cumsum ; #(cumulative < keep) ; min(cap, n) - 1 ; max(., 0) ; clamp(max=.) ;
                                  positions <= count ; scatter ; where ; renormalise             -> gen_keep_count = keep_count
 part 5  aggregation / dispatch   structural: only active rows are sent to a leaf, `aggregated[idx] += w * preds`; hard/soft switch on the
                                  temperature; positive-temperature guard
Anything outside the recognised shapes raises TranslationError (the obligation counts as broken)."""
import ast, os
from harness.common import REPO
from harness.splitarith import TranslationError, _method, _src


def _nodoc(body):
    return [s for s in body if not (isinstance(s, ast.Expr) and isinstance(s.value, ast.Constant))]


class RExpr:
    """python float expression over named scalars -> Coq R term"""
    def __init__(self, env):
        self.env = env

    def tr(self, e):
        u = ast.unparse(e)
        if u in self.env:
            return self.env[u]
        if isinstance(e, ast.UnaryOp) and isinstance(e.op, ast.USub):
            return f'(- {self.tr(e.operand)})'
        if isinstance(e, ast.BinOp):
            for k, s in {ast.Add: '+', ast.Sub: '-', ast.Mult: '*', ast.Div: '/'}.items():
                if isinstance(e.op, k):
                    return f'({self.tr(e.left)} {s} {self.tr(e.right)})'
            if isinstance(e.op, ast.MatMult) and ast.unparse(e.left) == 'X' and ast.unparse(e.right) in self.env:
                return f'(vdotR x {self.env[ast.unparse(e.right)]})'
        if isinstance(e, ast.Call) and ast.unparse(e.func) == 'F.logsigmoid' and len(e.args) == 1 and not e.keywords:
            return f'(logsigmoid {self.tr(e.args[0])})'
        raise TranslationError(f'_predict_tree_soft: unsupported expression {u}')


def translate_soft(fn):
    body = _nodoc(fn.body)
    src = [ast.unparse(s) for s in body]
    g = {}
    # ---- prologue: cache lookups, single-leaf shortcut, positive temperature ----
    want_pro = ['cache = self._ensure_tree_cache(tree)', "leaf_models = cache['leaf_models']", "leaf_paths = cache['leaf_paths']",
                "leaf_order = cache['leaf_order']", "split_directions = cache['split_directions']", "split_thresholds = cache['split_thresholds']",
                'if not leaf_order:\n    sole_leaf = next(iter(leaf_models.values()))\n    return sole_leaf.predict_proba(X) if proba else sole_leaf.predict(X)',
                'temperature_constant = self.split_temperature',
                "if temperature_constant <= 0:\n    raise ValueError('split_temperature must be positive.')",
                'node_logits = {}', "temp_scalings = cache.get('split_temp_scalings', {})"]
    if src[:len(want_pro)] != want_pro:
        k = next(i for i, (a, b) in enumerate(zip(src, want_pro + [''] * len(src))) if a != b)
        raise TranslationError(f'_predict_tree_soft: prologue statement {k} is {src[k][:120]!r}')
    i = len(want_pro)
    # ---- part 1: node loop ----
    st = body[i]
    if not (isinstance(st, ast.For) and ast.unparse(st.target) in ('(node_id, direction)', 'node_id, direction') and ast.unparse(st.iter) == 'split_directions.items()' and not st.orelse):
        raise TranslationError('_predict_tree_soft: node loop not found')
    env = {'direction': 'v', 'temperature_constant': 'T'}
    out = None
    for b in st.body:
        u = ast.unparse(b)
        if u == 'split_point = split_thresholds[node_id]':
            env['split_point'] = 'b'
        elif u == 'node_scale = temp_scalings.get(node_id, 1.0)':
            env['node_scale'] = 's'
        elif isinstance(b, ast.Assign) and len(b.targets) == 1 and isinstance(b.targets[0], ast.Name):
            env[b.targets[0].id] = RExpr(env).tr(b.value)
        elif isinstance(b, ast.Assign) and ast.unparse(b.targets[0]) == 'node_logits[node_id]':
            out = RExpr(env).tr(b.value)
        else:
            raise TranslationError(f'_predict_tree_soft: node loop statement {u[:100]}')
    if out is None:
        raise TranslationError('_predict_tree_soft: node loop stores no logit')
    g['logit'] = out
    i += 1
    # ---- part 2: leaf loop ----
    if src[i] != 'log_leaf_probs = []':
        raise TranslationError(f'_predict_tree_soft: expected log_leaf_probs = [], got {src[i][:80]}')
    st = body[i + 1]
    if not (isinstance(st, ast.For) and ast.unparse(st.target) == 'leaf_id' and ast.unparse(st.iter) == 'leaf_order' and len(st.body) == 4):
        raise TranslationError('_predict_tree_soft: leaf loop not found')
    b0, b1, b2, b3 = st.body
    if ast.unparse(b0) != 'path = leaf_paths[leaf_id]' or ast.unparse(b1) != 'log_prob = torch.zeros(X.shape[0], device=X.device)' \
            or ast.unparse(b3) != 'log_leaf_probs.append(log_prob)':
        raise TranslationError('_predict_tree_soft: leaf loop frame changed')
    if not (isinstance(b2, ast.For) and ast.unparse(b2.target) in ('(node_id, took_left)', 'node_id, took_left') and ast.unparse(b2.iter) == 'path' and len(b2.body) == 2):
        raise TranslationError('_predict_tree_soft: path loop not found')
    if ast.unparse(b2.body[0]) != 'logits = node_logits[node_id]':
        raise TranslationError('_predict_tree_soft: path loop does not read the node logit')
    cond = b2.body[1]
    if not (isinstance(cond, ast.If) and ast.unparse(cond.test) == 'took_left' and len(cond.body) == 1 and len(cond.orelse) == 1):
        raise TranslationError('_predict_tree_soft: path loop branch changed')
    ex = RExpr({'log_prob': 'acc', 'logits': '(z (fst g))'})
    br = []
    for a in (cond.body[0], cond.orelse[0]):
        if not (isinstance(a, ast.Assign) and ast.unparse(a.targets[0]) == 'log_prob'):
            raise TranslationError('_predict_tree_soft: path loop branch does not update log_prob')
        br.append(ex.tr(a.value))
    g['step'] = f'(if snd g then {br[0]} else {br[1]})'
    i += 2
    # ---- part 3: stable softmax ----
    want3 = {
        'leaf_log_prob_tensor = torch.clamp(torch.stack(log_leaf_probs, dim=1), min=-50.0)': ('leaf_log_prob_tensor', '(map (Rmax (-50)) lps)'),
        'max_log_prob = torch.max(leaf_log_prob_tensor, dim=1, keepdim=True).values': ('max_log_prob', None),
        'stable_log_probs = leaf_log_prob_tensor - max_log_prob': None, 'leaf_probs = torch.exp(stable_log_probs)': None,
        'normalizer = torch.clamp(leaf_probs.sum(dim=1, keepdim=True), min=torch.finfo(leaf_probs.dtype).tiny)': None,
        'weights = leaf_probs / normalizer': None}
    lenv = {}
    for k in range(6):
        st = body[i + k]
        if not (isinstance(st, ast.Assign) and len(st.targets) == 1 and isinstance(st.targets[0], ast.Name)):
            raise TranslationError(f'_predict_tree_soft: softmax statement {src[i + k][:100]}')
        lenv[st.targets[0].id] = _ltr(st.value, lenv)
    if 'weights' not in lenv or lenv['weights'][0] != 'list':
        raise TranslationError('_predict_tree_soft: softmax section does not define weights')
    g['weights'] = lenv['weights'][1]
    i += 6
    # ---- part 4: truncation ----
    want4 = ['sorted_weights, sorted_indices = torch.sort(weights, dim=1, descending=True)', 'n_leaves = weights.shape[1]',
             'cumulative = torch.cumsum(sorted_weights, dim=1)']
    if src[i:i + 3] != want4:
        raise TranslationError(f'_predict_tree_soft: truncation does not start with sort / cumsum: {src[i:i + 3]}')
    i += 3
    nenv = {'n_leaves': '(length sorted)', 'self.max_leaf_count_in_ensemble': 'cap'}
    st = body[i]
    if ast.unparse(st) != 'keep_counts = torch.sum(cumulative < self.keep_weight_frac_in_predict, dim=1)':
        raise TranslationError(f'_predict_tree_soft: keep count is {src[i][:120]}')
    nenv['keep_counts'] = '(length (filter (below keep) (prefix_sums sorted)))'
    i += 1
    for k in range(3):
        st = body[i + k]
        if not (isinstance(st, ast.Assign) and isinstance(st.targets[0], ast.Name)):
            raise TranslationError(f'_predict_tree_soft: truncation statement {src[i + k][:100]}')
        nenv[st.targets[0].id] = _ntr(st.value, nenv)
    i += 3
    want4b = ['position_range = torch.arange(n_leaves, device=weights.device).view(1, -1).expand_as(weights)',
              'keep_mask_sorted = position_range <= keep_counts.unsqueeze(1)',
              'active_mask = torch.zeros_like(weights, dtype=torch.bool)', 'active_mask.scatter_(1, sorted_indices, keep_mask_sorted)',
              'weights = torch.where(active_mask, weights, torch.zeros_like(weights))',
              'renorm = torch.clamp(weights.sum(dim=1, keepdim=True), min=torch.finfo(weights.dtype).tiny)', 'weights = weights / renorm']
    if src[i:i + 7] != want4b:
        k = next(j for j in range(7) if src[i + j] != want4b[j])
        raise TranslationError(f'_predict_tree_soft: mask / renormalisation statement changed: {src[i + k][:140]}')
    # positions 0..count inclusive are kept: count + 1 leaves
    g['keep_count'] = f"(S {nenv['keep_counts']})"
    i += 7
    # ---- part 5: aggregation (structural) ----
    want5 = ['aggregated = None', 'expected_dim = None', 'n_samples = X.shape[0]',
             "for leaf_idx, leaf_id in enumerate(leaf_order):\n    sample_indices = torch.nonzero(active_mask[:, leaf_idx], as_tuple=False).squeeze(1)\n"
             "    if sample_indices.numel() == 0:\n        continue\n    model = leaf_models[leaf_id]\n    X_subset = X[sample_indices]\n"
             "    preds = model.predict_proba(X_subset) if proba else model.predict(X_subset)\n    preds = torch.as_tensor(preds, device=weights.device)\n"
             "    if preds.dim() == 1:\n        preds = preds.unsqueeze(-1)\n    preds = preds.to(dtype=weights.dtype)\n    if aggregated is None:\n"
             "        expected_dim = preds.shape[1]\n        aggregated = torch.zeros((n_samples, expected_dim), device=weights.device, dtype=preds.dtype)\n"
             "    elif preds.shape[1] != expected_dim:\n        raise ValueError('Leaf predictions have inconsistent output dimensions.')\n"
             "    leaf_weights = weights[sample_indices, leaf_idx].unsqueeze(-1)\n    aggregated[sample_indices] += leaf_weights * preds",
             'return aggregated']
    if src[i:] != want5:
        got = src[i:]
        k = next((j for j in range(min(len(got), len(want5))) if got[j] != want5[j]), min(len(got), len(want5)))
        raise TranslationError(f'_predict_tree_soft: aggregation section changed at statement {k}: {(got[k] if k < len(got) else "<missing>")[:200]}')
    return g


def _ltr(e, env):
    """list-level (one row, all leaves) expressions of the softmax section"""
    u = ast.unparse(e)
    if u == 'torch.clamp(torch.stack(log_leaf_probs, dim=1), min=-50.0)':
        return ('list', '(map (Rmax (-50)) lps)')
    if isinstance(e, ast.Name) and e.id in env:
        return env[e.id]
    if isinstance(e, ast.Attribute) and e.attr == 'values' and isinstance(e.value, ast.Call) and ast.unparse(e.value.func) == 'torch.max' \
            and len(e.value.args) == 1 and {k.arg: ast.unparse(k.value) for k in e.value.keywords} == {'dim': '1', 'keepdim': 'True'}:
        a = _ltr(e.value.args[0], env)
        if a[0] == 'list':
            return ('scalar', f'(rmaxl {a[1]})')
    if isinstance(e, ast.BinOp) and isinstance(e.op, (ast.Sub, ast.Div)):
        a, b = _ltr(e.left, env), _ltr(e.right, env)
        if a[0] == 'list' and b[0] == 'scalar':
            op = '-' if isinstance(e.op, ast.Sub) else '/'
            return ('list', f'(map (fun e => e {op} {b[1]}) {a[1]})')
    if isinstance(e, ast.Call) and ast.unparse(e.func) == 'torch.exp' and len(e.args) == 1 and not e.keywords:
        a = _ltr(e.args[0], env)
        if a[0] == 'list':
            return ('list', f'(map exp {a[1]})')
    if isinstance(e, ast.Call) and ast.unparse(e.func) == 'torch.clamp' and len(e.args) == 1 and len(e.keywords) == 1 and e.keywords[0].arg == 'min':
        m = ast.unparse(e.keywords[0].value)
        inner = e.args[0]
        if m.startswith('torch.finfo(') and m.endswith('.dtype).tiny') and isinstance(inner, ast.Call) and isinstance(inner.func, ast.Attribute) \
                and inner.func.attr == 'sum' and {k.arg: ast.unparse(k.value) for k in inner.keywords} == {'dim': '1', 'keepdim': 'True'}:
            a = _ltr(inner.func.value, env)
            if a[0] == 'list':
                return ('scalar', f'(Rmax (rsum {a[1]}) tiny)')
    raise TranslationError(f'_predict_tree_soft: unsupported softmax expression {u[:140]}')


def _ntr(e, env):
    """natural-number expressions of the truncation section"""
    u = ast.unparse(e)
    if u in env:
        return env[u]
    if isinstance(e, ast.Constant) and isinstance(e.value, int) and not isinstance(e.value, bool) and e.value >= 0:
        return str(e.value)
    if isinstance(e, ast.BinOp) and isinstance(e.op, ast.Sub):
        return f'({_ntr(e.left, env)} - {_ntr(e.right, env)})'          # truncated subtraction: min(cap, n) >= 1 whenever n >= 1 and cap >= 1
    if isinstance(e, ast.Call) and isinstance(e.func, ast.Name) and e.func.id in ('min', 'max') and len(e.args) == 2 and not e.keywords:
        return f"(Nat.{e.func.id} {_ntr(e.args[0], env)} {_ntr(e.args[1], env)})"
    if isinstance(e, ast.Call) and ast.unparse(e.func) == 'torch.clamp' and len(e.args) == 1 and len(e.keywords) == 1 and e.keywords[0].arg == 'max':
        return f'(Nat.min {_ntr(e.args[0], env)} {_ntr(e.keywords[0].value, env)})'
    raise TranslationError(f'_predict_tree_soft: unsupported count expression {u[:140]}')


def check_dispatch(tree):
    fn = _method(tree, 'xRFM', '_predict_tree')
    body = [ast.unparse(s) for s in _nodoc(fn.body)]
    want = ['if not self.split_temperature:\n    return self._predict_tree_hard(X, tree, proba=proba)', 'return self._predict_tree_soft(X, tree, proba=proba)']
    if body != want:
        raise TranslationError(f'_predict_tree is not (hard routing when the temperature is None/0, soft routing otherwise): {body}')


def generate():
    tree = ast.parse(_src())
    check_dispatch(tree)
    g = translate_soft(_method(tree, 'xRFM', '_predict_tree_soft'))
    return f'''(* GENERATED on every run by harness/softops.py from /repo/xrfm/xrfm.py — do not edit *)
From Coq Require Import Reals List Lra Bool QArith Arith.
Require Import XV.Model.Tree XV.Model.Soft XV.Real.SoftReal XV.Real.Kernels XV.Real.SoftOps.
Import ListNotations.
Local Open Scope R_scope.

Definition gen_logit (T : R) (x v : list R) (b s : R) : R := {g['logit']}.
Definition gen_step (z : nat -> R) (acc : R) (g : nat * bool) : R := {g['step']}.
Definition gen_weights (tiny : R) (lps : list R) : list R := {g['weights']}.
Definition gen_keep_count (keep : Q) (cap : nat) (sorted : list Q) : nat := {g['keep_count']}.

Lemma gen_logit_eq_model : forall T x v b s, gen_logit T x v b s = code_logit T x v b s.
Proof. intros. reflexivity. Qed.
Lemma gen_step_eq_model : forall z acc g, gen_step z acc g = code_step z acc g.
Proof. intros. reflexivity. Qed.
Lemma gen_weights_eq_model : forall tiny lps, gen_weights tiny lps = code_weights tiny lps.
Proof. intros. unfold gen_weights, code_weights. cbv zeta. rewrite !map_map. reflexivity. Qed.
Lemma gen_keep_count_eq_model : forall keep cap sorted, gen_keep_count keep cap sorted = keep_count keep cap sorted.
Proof. intros. reflexivity. Qed.
'''


def check_translation(ck):
    from harness.common import coqc
    try:
        txt = generate()
        p = os.path.join(ck.bdir, 'SoftOps_gen.v')
        open(p, 'w').write(txt)
        rc, out, dt = coqc(p)
        ck.checker_cmds.append(f'coqc build/{ck.pid}/run_<pid>/SoftOps_gen.v')
        ck.obligation('SoftOps_gen.v: the soft-routing op sequence (per-node logit, log-sigmoid accumulation along each path, clamped stable softmax, '
                      'number of leaves kept, mask / renormalisation / aggregation frame, hard/soft dispatch), re-translated from the source, equals the Coq models',
                      'translation', rc == 0, out)
        return rc == 0
    except TranslationError as e:
        ck.obligation('softops translator recognises the source', 'translation', False, str(e))
        return False
