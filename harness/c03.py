"""C03 — Leaf model selection returns a best-validation iterate for every score history."""
import itertools, json, math
import numpy as np
from harness.common import *
from harness import scripted as sc


def oracle(scores, iters, minimize, early, mult):
    """straight from the statement: expected (#evaluations, index of the returned iterate)"""
    evals = iters + 1
    if early:
        for i in range(iters):
            pre = scores[: i + 1]
            best = min(pre) if minimize else max(pre)
            worse = scores[i] > best * mult if minimize else scores[i] < best / mult
            if worse:
                evals = i + 1
                break
    ev = scores[:evals]
    best = min(ev) if minimize else max(ev)
    return evals, ev.index(best)        # first optimal index (strict improvement only)


def run(ck):
    from harness import xr
    ck.rule = ('the REAL RFM.fit loop driven with a scripted score per validation call and tagged stubs for solve / AGOP update; '
               'exhaustive over a score alphabet x iteration budgets x {min,max} x early stopping x multipliers x {metric given to the constructor, overridden at fit time by one of either direction}, plus random binary64 histories '
               'with ties and plateaus; the observed (coefficient tag, M tag, sqrtM tag, bandwidth tag, best_iter, #evaluations) are compared '
               'with the Coq model evaluated on binary64 floats (vm_compute) and with a direct oracle of the statement; '
               'non-trivial = history with >= 2 distinct scores; distinct by hash of the full configuration')
    ck.trusted += ['Coq 8.16.1 kernel + vm_compute (PrimFloat primitives)', 'harness/scripted.py stubs (fit_predictor, fit_M, _compute_validation_metrics replaced on the instance)']
    ck.assumptions += ['scores are finite and not NaN (the property excludes NaN / empty validation)',
                       'time_limit_s is None']
    ck.check_theorems()
    from harness import selectarith
    selectarith.check_translation(ck)
    alphabet = [0.0, 1.0, 2.0, 3.0] if ck.tier == 'quick' else [0.5, 1.0, 1.1, 2.0, 3.0]
    budgets = range(0, 5) if ck.tier == 'quick' else range(0, 6)
    mults = [1.0, 1.1, 1.25, 1.5]
    configs = []
    for iters in budgets:
        hs = list(itertools.product(alphabet, repeat=iters + 1))
        if len(hs) > ck.n(300, 4000):
            idx = ck.rng.sample(range(len(hs)), ck.n(300, 4000))
            hs = [hs[k] for k in idx]
        for h in hs:
            for minimize in (True, False):
                for early in (False, True):
                    for mult in (mults if early else [1.1]):
                        if early and ck.rng.random() > ck.n(0.35, 0.5):
                            continue
                        configs.append(dict(iters=iters, scores=list(h), minimize=minimize, early=early, mult=mult, rb=True, arg=iters))
    rr = np.random.default_rng(ck.seed + 303)
    for k in range(ck.n(400, 6000)):
        iters = int(rr.integers(0, 7))
        base = rr.choice([rr.standard_normal() ** 2 + 0.01, 1.0, 0.3], size=iters + 1)
        h = [float(v) for v in np.round(base * rr.choice([1.0, 1.0, 1.1, 0.9], size=iters + 1), int(rr.integers(1, 4)))]
        h = [max(v, 0.01) for v in h]
        configs.append(dict(iters=iters, scores=h, minimize=bool(rr.integers(0, 2)), early=bool(rr.integers(0, 2)),
                            mult=float(rr.choice(mults + [1.01, 1.3])), rb=True, arg=iters if k % 7 else None))
    # a few return_best=False runs (coherence is C02's claim; here only correspondence)
    for k in range(ck.n(60, 300)):
        iters = int(rr.integers(0, 5))
        h = [float(v) for v in rr.integers(0, 4, size=iters + 1)]
        configs.append(dict(iters=iters, scores=h, minimize=bool(rr.integers(0, 2)), early=bool(rr.integers(0, 2)), mult=1.1, rb=False, arg=iters))
    cases = []
    meta = {}
    for k, c in enumerate(configs):
        metric = 'mse' if c['minimize'] else 'accuracy'
        c['ctor_metric'] = [None, 'mse', 'accuracy', 'auc', 'mae'][k % 5]     # None: metric given to the constructor only
        o = sc.run_real_fit(xr, c['iters'], c['arg'], c['scores'], metric, c['early'], c['mult'], c['rb'],
                            ctor_iters=c['iters'], ctor_metric=c['ctor_metric'])
        ck.case(dict(c, observed={a: b for a, b in o.items()}), nontrivial=len(set(c['scores'])) >= 2, sample=(k % 997 == 5))
        ck.count(f"iters={c['iters']}"); ck.count('early' if c['early'] else 'no-early'); ck.count('min' if c['minimize'] else 'max')
        if o['crashed'] is not None:
            ck.violation(f'RFM.fit crashed on a finite score history: {o["crashed"]} config {c}', dict(c, error=o['crashed']),
                         key=json.dumps(dict(site='crash')))
            continue
        stopped = o['evals'] != c['iters'] + 1
        ck.count('stopped-early' if stopped else 'ran-to-final')
        if c['rb']:
            e_evals, e_idx = oracle(c['scores'], c['iters'], c['minimize'], c['early'], c['mult'])
            probs = []
            if o['evals'] != e_evals:
                probs.append(f'{o["evals"]} validation evaluations, statement says {e_evals}')
            if o['w'][0] != e_idx:
                probs.append(f'returned coefficients of iterate {o["w"][0]}, the first best evaluated iterate is {e_idx}')
            if not (o['w'][1] == o['m'] == o['sqrtm'] and o['w'][2] == o['bw'] and o['w'][0] == o['w'][1] == o['w'][2]):
                probs.append(f'returned pieces come from different iterates: coefficients {o["w"]}, M {o["m"]}, sqrtM {o["sqrtm"]}, bandwidth {o["bw"]}')
            for p_ in probs:
                ck.violation(p_ + f' for {c}', dict(c, observed=o, problem=p_),
                             key=json.dumps(dict(site='selection', what=p_.split(',')[0][:40], early=c['early'], minimize=c['minimize'])))
        cases.append((k, f"outcome_eqb ({sc.coq_frun(c['minimize'], c['mult'], c['iters'], c['arg'], c['rb'], c['early'], c['scores'])}) {sc.coq_outcome(o, stopped)}"))
        meta[k] = c
    res = ck.run_bool_cases('fit', sc.FIT_HEADER, cases, shard=500)
    bad = [meta[k] for k, v in res.items() if v is not True]
    ck.obligation(f'correspondence: {len(cases)} scripted histories through the real RFM.fit == Coq `run` on binary64 scores',
                  'correspondence', not bad, f'first mismatches: {bad[:4]}')
