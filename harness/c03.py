"""C03 — Leaf model selection returns a best-validation iterate for every score history."""
import itertools, json, math
import numpy as np
import torch
from harness.common import *
from harness import scripted as sc


def oracle(scores, iters, minimize, early, mult):
    """straight from the statement: expected (#evaluations, index of the returned iterate)"""
    evals = iters + 1
    if early:
        for i in range(iters):
            pre = scores[: i + 1]
            best = min(pre) if minimize else max(pre)
            worse = scores[i] > best * mult if minimize else scores[i] < best / mult
            if worse:
                evals = i + 1
                break
    ev = scores[:evals]
    best = min(ev) if minimize else max(ev)
    return evals, ev.index(best)        # first optimal index (strict improvement only)


def run(ck):
    from harness import xr
    ck.rule = ('the REAL RFM.fit loop driven with a scripted score per validation call and tagged stubs for solve / AGOP update; '
               'exhaustive over a score alphabet x iteration budgets x {min,max} x early stopping x multipliers x {metric given to the constructor, overridden at fit time by one of either direction}, plus random binary64 histories '
               'with ties and plateaus; the observed (coefficient tag, M tag, sqrtM tag, bandwidth tag, best_iter, #evaluations) are compared '
               'with the Coq model evaluated on binary64 floats (vm_compute) and with a direct oracle of the statement; '
               'non-trivial = history with >= 2 distinct scores; distinct by hash of the full configuration')
    ck.trusted += ['Coq 8.16.1 kernel + vm_compute (PrimFloat primitives)', 'harness/scripted.py stubs (fit_predictor, fit_M, _compute_validation_metrics replaced on the instance)']
    ck.assumptions += ['scores are finite and not NaN (the property excludes NaN / empty validation)',
                       'time_limit_s is None']
    ck.check_theorems()
    from harness import selectarith
    selectarith.check_translation(ck)
    alphabet = [0.0, 1.0, 2.0, 3.0] if ck.tier == 'quick' else [0.5, 1.0, 1.1, 2.0, 3.0]
    budgets = range(0, 5) if ck.tier == 'quick' else range(0, 6)
    mults = [1.0, 1.1, 1.25, 1.5]
    configs = []
    for iters in budgets:
        hs = list(itertools.product(alphabet, repeat=iters + 1))
        if len(hs) > ck.n(300, 4000):
            idx = ck.rng.sample(range(len(hs)), ck.n(300, 4000))
            hs = [hs[k] for k in idx]
        for h in hs:
            for minimize in (True, False):
                for early in (False, True):
                    for mult in (mults if early else [1.1]):
                        if early and ck.rng.random() > ck.n(0.35, 0.5):
                            continue
                        configs.append(dict(iters=iters, scores=list(h), minimize=minimize, early=early, mult=mult, rb=True, arg=iters))
    rr = np.random.default_rng(ck.seed + 303)
    for k in range(ck.n(400, 6000)):
        iters = int(rr.integers(0, 7))
        base = rr.choice([rr.standard_normal() ** 2 + 0.01, 1.0, 0.3], size=iters + 1)
        h = [float(v) for v in np.round(base * rr.choice([1.0, 1.0, 1.1, 0.9], size=iters + 1), int(rr.integers(1, 4)))]
        h = [max(v, 0.01) for v in h]
        configs.append(dict(iters=iters, scores=h, minimize=bool(rr.integers(0, 2)), early=bool(rr.integers(0, 2)),
                            mult=float(rr.choice(mults + [1.01, 1.3])), rb=True, arg=iters if k % 7 else None))
    # near ties: scores that differ by 1e-9 .. 1e-8 relative (below float32 resolution, far above float64 resolution) — a strictly better iterate is strictly better
    nrr = np.random.default_rng(ck.seed + 3030)
    for k in range(ck.n(60, 400)):
        iters = int(nrr.integers(1, 5)); base = float(nrr.choice([0.7, 0.3, 1.25]))
        h = [base * (1.0 + float(nrr.integers(-3, 4)) * float(nrr.choice([1e-9, 3e-9, 1e-8]))) for _ in range(iters + 1)]
        configs.append(dict(iters=iters, scores=h, minimize=bool(nrr.integers(0, 2)), early=bool(nrr.integers(0, 2)), mult=float(nrr.choice([1.0, 1.1])), rb=True, arg=iters))
    # a few return_best=False runs (coherence is C02's claim; here only correspondence)
    for k in range(ck.n(60, 300)):
        iters = int(rr.integers(0, 5))
        h = [float(v) for v in rr.integers(0, 4, size=iters + 1)]
        configs.append(dict(iters=iters, scores=h, minimize=bool(rr.integers(0, 2)), early=bool(rr.integers(0, 2)), mult=1.1, rb=False, arg=iters))
    cases = []
    meta = {}
    for k, c in enumerate(configs):
        metric = 'mse' if c['minimize'] else 'accuracy'
        c['ctor_metric'] = [None, 'mse', 'accuracy', 'auc', 'mae'][k % 5]     # None: metric given to the constructor only
        # every fifth history with at least two rounds: the wall-clock test fires at the top of round r (scripted clock); by C03_time_limit_is_a_cut_iteration_budget the
        # statement is then that of a fit with budget r
        c['timeout'] = (1 + (k // 5) % (c['iters'] - 1)) if (k % 5 == 3 and c['iters'] >= 2) else None
        budget = c['iters'] if c['timeout'] is None else c['timeout']
        o = sc.run_real_fit(xr, c['iters'], c['arg'], c['scores'], metric, c['early'], c['mult'], c['rb'],
                            ctor_iters=c['iters'], ctor_metric=c['ctor_metric'], timeout_round=c['timeout'], return_Ms=bool(k % 3 == 1))          # every third history also asks for the list of per-round matrices (a pure by-product)
        if c['timeout'] is not None:
            ck.count('clock runs out at the top of a round')
        ck.case(dict(c, observed={a: b for a, b in o.items()}), nontrivial=len(set(c['scores'])) >= 2, sample=(k % 997 == 5))
        ck.count(f"iters={c['iters']}"); ck.count('early' if c['early'] else 'no-early'); ck.count('min' if c['minimize'] else 'max')
        if o['crashed'] is not None:
            ck.violation(f'RFM.fit crashed on a finite score history: {o["crashed"]} config {c}', dict(c, error=o['crashed']),
                         key=json.dumps(dict(site='crash')))
            continue
        stopped = o['evals'] != budget + 1
        ck.count('stopped-early' if stopped else 'ran-to-final')
        if c['rb']:
            e_evals, e_idx = oracle(c['scores'], budget, c['minimize'], c['early'], c['mult'])
            probs = []
            if o['evals'] != e_evals:
                probs.append(f'{o["evals"]} validation evaluations, statement says {e_evals}')
            if o['w'][0] != e_idx:
                probs.append(f'returned coefficients of iterate {o["w"][0]}, the first best evaluated iterate is {e_idx}')
            if not (o['w'][1] == o['m'] == o['sqrtm'] and o['w'][2] == o['bw'] and o['w'][0] == o['w'][1] == o['w'][2]):
                probs.append(f'returned pieces come from different iterates: coefficients {o["w"]}, M {o["m"]}, sqrtM {o["sqrtm"]}, bandwidth {o["bw"]}')
            for p_ in probs:
                ck.violation(p_ + f' for {c}', dict(c, observed=o, problem=p_),
                             key=json.dumps(dict(site='selection', what=p_.split(',')[0][:40], early=c['early'], minimize=c['minimize'])))
        cases.append((k, f"outcome_eqb ({sc.coq_frun(c['minimize'], c['mult'], c['iters'], c['arg'], c['rb'], c['early'], c['scores'], timeout_round=c['timeout'])}) {sc.coq_outcome(o, stopped)}"))
        meta[k] = c
    res = ck.run_bool_cases('fit', sc.FIT_HEADER, cases, shard=500)
    bad = [meta[k] for k, v in res.items() if v is not True]
    ck.obligation(f'correspondence: {len(cases)} scripted histories through the real RFM.fit == Coq `run` on binary64 scores',
                  'correspondence', not bad, f'first mismatches: {bad[:4]}')

    # ---------------- real fits: the returned pieces are bitwise the state of the first best evaluated iterate ----------------
    # (no stubs: the real solve / AGOP update / snapshot / restore; state is copied at every validation call)
    nr = np.random.default_rng(ck.seed + 3303)
    kernels = [('l2', {}), ('l1', {}), ('lpq', dict(norm_p=1.5)), ('l2_high_dim', {}), ('sum_power_laplace', {})]
    for i in range(ck.n(15, 90)):
        kern, extra = kernels[i % 5]
        n = int(nr.integers(14, 40)); d = int(nr.integers(2, 5)); nout = [1, 2][i % 2]
        iters = [2, 3, 4][i % 3]
        metric = ['mse', 'accuracy'][(i // 5) % 2]
        X = torch.tensor(nr.standard_normal((n, d)), dtype=torch.float32); Xv = torch.tensor(nr.standard_normal((12, d)), dtype=torch.float32)
        if metric == 'accuracy':
            K = 2 + i % 2
            Y = torch.eye(K)[torch.tensor(nr.integers(0, K, size=n))]; Yv = torch.eye(K)[torch.tensor(nr.integers(0, K, size=12))]
        else:
            Y = torch.tensor(nr.standard_normal((n, nout)), dtype=torch.float32); Yv = torch.tensor(nr.standard_normal((12, nout)), dtype=torch.float32)
        xr.seed_all(300 + i + ck.seed)
        m = xr.RealRFM(kernel=kern, iters=iters, bandwidth=2.0, exponent=[1.0, 1.2][i % 2], device='cpu', diag=bool((i // 2) % 2), verbose=False,
                       tuning_metric=metric, bandwidth_mode=['constant', 'adaptive'][(i // 3) % 2] if kern != 'sum_power_laplace' else 'constant', **extra)
        snaps = []
        orig_cvm = m._compute_validation_metrics

        # odd fits: the true validation score is replaced by a scripted one whose optimum sits at a chosen evaluation strictly inside the
        # loop (everything else — solves, AGOP updates, snapshots, restore — stays real)
        target = 1 + (i // 2) % max(1, iters - 1)
        script = None if i % 2 == 0 else [(1.0 + abs(k - target)) * (-1.0 if metric == 'accuracy' else 1.0) + (2.0 if metric == 'accuracy' else 0.0) * 0 for k in range(iters + 2)]

        def cvm(*a, _m=m, _orig=orig_cvm, _script=script, **kw):
            out = _orig(*a, **kw)
            if _script is not None:
                out = dict(out); out[_m.tuning_metric] = _script[len(snaps)]
            cp = lambda t: None if t is None else t.detach().clone()
            snaps.append(dict(score=float(out[_m.tuning_metric]), w=cp(_m.weights), M=cp(_m.M), sqrtM=cp(_m.sqrtM), bw=float(_m.kernel_obj.bandwidth)))
            return out
        m._compute_validation_metrics = cvm
        desc = dict(kind='real-fit', i=i, kernel=kern, n=n, d=d, iters=iters, metric=metric, diag=bool((i // 2) % 2), seed=ck.seed)
        try:
            with xr.quiet():
                m.fit((X, Y), (Xv, Yv), iters=iters, reg=1e-2, return_best_params=True, early_stop_rfm=(i % 4 == 2), early_stop_multiplier=1.05, verbose=False)
        except Exception as e:
            ck.violation(f'real fit raised {e!r} on {desc}', dict(desc, error=repr(e)), key=json.dumps(dict(site='real-fit-raise', kernel=kern))); continue
        scores = [s_['score'] for s_ in snaps]
        best = (max if metric == 'accuracy' else min)(scores)
        k0 = scores.index(best)
        ck.case(dict(desc, scores=scores, first_best=k0), nontrivial=len(set(scores)) >= 2, sample=(i == 3))
        ck.count(f'real fit: first best at evaluation {k0} of {len(scores)}'); ck.count(f'real fit kernel={kern}')
        eq = lambda a, b: (a is None and b is None) or (a is not None and b is not None and a.shape == b.shape and torch.equal(a, b))
        want = snaps[k0]
        bad_pieces = [nm for nm, a, b in (('weights', m.weights, want['w']), ('M', m.M, want['M']), ('sqrtM', m.sqrtM, want['sqrtM'])) if not eq(a, b)]
        if float(m.kernel_obj.bandwidth) != want['bw']:
            bad_pieces.append('bandwidth')
        if bad_pieces:
            ck.violation(f'real fit: returned {bad_pieces} are not those of the first best evaluated iterate (evaluation {k0} of {len(scores)}, scores {scores}) on {desc}',
                         dict(desc, scores=scores, first_best=k0, pieces=bad_pieces), key=json.dumps(dict(site='real-selection', pieces=bad_pieces)))
