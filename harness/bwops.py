"""Fail-closed translator for the adaptive-bandwidth update (C19): `Kernel._adapt_bandwidth`, `Kernel._reset_adaptive_bandwidth` and the reset site in
`RFM.fit_predictor` are re-read from the current source with `ast` on every run.

 * `_adapt_bandwidth`: sub-sample by a random permutation -> element-wise root `** (1 / exponent)` iff exponent != 1 -> off-diagonal mask `~eye` ->
   `torch.median` -> multiplier := 1 if below eps -> `self.bandwidth = self.base_bandwidth * multiplier` -> flag set.  Emitted as a Coq real term and proved
   equal to `BwOps.adapt_bandwidth`, about which coq/Real/BwOps.v proves: stored bandwidth = base * median of the pairwise DISTANCES (the root undoes the
   power the kernels apply before the call — that argument is checked by harness/kernelops.py: `gen_adapt_*_is_distance_pow`), homogeneous of degree one.
 * the reset (`is_adaptive_bandwidth = False`) happens before every solve in adaptive mode, unconditionally on the kernel's own configuration.
Anything outside the recognised subset raises TranslationError."""
import ast, os
from harness.common import REPO
from harness.splitarith import TranslationError
from harness.kernelops import _cls_method


def _nodoc(body):
    return [s for s in body if not (isinstance(s, ast.Expr) and isinstance(s.value, ast.Constant))]


def translate_adapt(fn):
    a = fn.args
    names = [x.arg for x in a.args]
    defaults = [ast.unparse(d) for d in a.defaults]
    if names != ['self', 'kernel_mat', 'adapt_mode', 'sub_mat_size', 'eps'] or defaults != ["'median'", '5000', '1e-14']:
        raise TranslationError(f'_adapt_bandwidth signature / defaults changed: {names} {defaults}')
    body = _nodoc(fn.body)
    src = [ast.unparse(s) for s in body]
    want_head = ['n, m = kernel_mat.shape', "assert n <= m, 'Kernel matrix must be wider than it is tall'", 'sub_mat_size = min(sub_mat_size, n)',
                 'sample_indices = torch.randperm(n)[:sub_mat_size]', 'sample_matrix = kernel_mat[sample_indices][:, sample_indices]']
    if src[:5] != want_head:
        k = next(i for i in range(5) if src[i] != want_head[i])
        raise TranslationError(f'_adapt_bandwidth: sub-sampling statement {k} is {src[k][:120]!r}')
    # element-wise root
    st = body[5]
    v = 'v'
    if not (isinstance(st, ast.If) and ast.unparse(st.test) == 'self.exponent != 1.0' and not st.orelse and len(st.body) == 1):
        raise TranslationError(f'_adapt_bandwidth: expected the conditional element-wise root, got {src[5][:120]!r}')
    asg = st.body[0]
    if not (isinstance(asg, ast.Assign) and ast.unparse(asg.targets[0]) == 'sample_matrix' and isinstance(asg.value, ast.BinOp) and isinstance(asg.value.op, ast.Pow)
            and ast.unparse(asg.value.left) == 'sample_matrix'):
        raise TranslationError(f'_adapt_bandwidth: root statement is {ast.unparse(asg)[:120]!r}')
    ex = ast.unparse(asg.value.right)
    if ex not in ('1 / self.exponent', '1.0 / self.exponent'):
        raise TranslationError(f'_adapt_bandwidth: root exponent is {ex}')
    elem = f'(if Req_EM_T q 1 then {v} else pw {v} (1 / q))'
    if src[6] != 'mask = ~torch.eye(sub_mat_size, dtype=bool, device=kernel_mat.device)':
        raise TranslationError(f'_adapt_bandwidth: off-diagonal mask is {src[6][:120]!r}')
    st = body[7]
    if not (isinstance(st, ast.If) and ast.unparse(st.test) == "adapt_mode == 'median'"
            and [ast.unparse(b) for b in st.body] == ['bandwidth_multiplier = torch.median(sample_matrix[mask]).item()']):
        raise TranslationError(f'_adapt_bandwidth: the default mode does not take torch.median of the off-diagonal entries: {src[7][:160]!r}')
    med = f'(med (map (fun v => {elem}) offdiag))'
    st = body[8]
    if not (isinstance(st, ast.Assign) and ast.unparse(st.targets[0]) == 'bandwidth_multiplier' and isinstance(st.value, ast.IfExp)
            and ast.unparse(st.value.test) == 'bandwidth_multiplier < eps' and ast.unparse(st.value.orelse) == 'bandwidth_multiplier'
            and isinstance(st.value.body, ast.Constant) and float(st.value.body.value) == 1.0):
        raise TranslationError(f'_adapt_bandwidth: degenerate-data floor is {src[8][:120]!r}')
    mult = f'(let m := {med} in if Rlt_dec m eps then 1 else m)'
    if src[9:] != ['self.bandwidth = self.base_bandwidth * bandwidth_multiplier', 'self.is_adaptive_bandwidth = True', 'return']:
        raise TranslationError(f'_adapt_bandwidth: final assignments are {src[9:]}')
    return f'(base * {mult})'


def check_reset(ktree, rtree):
    fn = _cls_method(ktree, 'Kernel', '_reset_adaptive_bandwidth')
    if [ast.unparse(s) for s in _nodoc(fn.body)] != ['self.is_adaptive_bandwidth = False', 'return']:
        raise TranslationError('Kernel._reset_adaptive_bandwidth does not unconditionally clear the flag')
    over = [n.name for n in ktree.body if isinstance(n, ast.ClassDef) and n.name != 'Kernel'
            and any(isinstance(i, ast.FunctionDef) and i.name in ('_reset_adaptive_bandwidth', '_adapt_bandwidth') for i in n.body)]
    if over:
        raise TranslationError(f'kernel classes override the bandwidth adaptation helpers: {over}')
    fn = _cls_method(rtree, 'RFM', 'reset_adaptive_bandwidth')
    if [ast.unparse(s) for s in _nodoc(fn.body)] != ['self.kernel_obj._reset_adaptive_bandwidth()', 'return']:
        raise TranslationError('RFM.reset_adaptive_bandwidth does not forward to the kernel')
    fp = _cls_method(rtree, 'RFM', 'fit_predictor')
    hits = [st for st in ast.walk(fp) if isinstance(st, ast.If) and ast.unparse(st.test) == "self.bandwidth_mode == 'adaptive'"]
    if len(hits) != 1 or 'self.reset_adaptive_bandwidth()' not in [ast.unparse(b) for b in hits[0].body]:
        raise TranslationError("RFM.fit_predictor does not reset the adaptive bandwidth under `self.bandwidth_mode == 'adaptive'` before the solve")
    # the reset must precede every kernel evaluation of fit_predictor
    body = _nodoc(fp.body)
    idx = next(i for i, st in enumerate(body) if st is hits[0]) if hits[0] in body else None
    if idx is None:
        raise TranslationError('the adaptive reset is nested inside another statement of fit_predictor')
    for st in body[:idx]:
        if 'kernel' in ast.unparse(st) and 'self.kernel(' in ast.unparse(st):
            raise TranslationError('fit_predictor evaluates the kernel before the adaptive reset')


def generate():
    ktree = ast.parse(open(os.path.join(REPO, 'xrfm', 'rfm_src', 'kernels.py')).read())
    rtree = ast.parse(open(os.path.join(REPO, 'xrfm', 'rfm_src', 'recursive_feature_machine.py')).read())
    check_reset(ktree, rtree)
    term = translate_adapt(_cls_method(ktree, 'Kernel', '_adapt_bandwidth'))
    return f'''(* GENERATED on every run by harness/bwops.py from /repo/xrfm/rfm_src/kernels.py — do not edit *)
From Coq Require Import Reals List Lra.
Require Import XV.Real.Kernels XV.Real.BwOps.
Import ListNotations.
Local Open Scope R_scope.

Definition gen_adapt_bandwidth (base q eps : R) (med : list R -> R) (offdiag : list R) : R := {term}.
Lemma gen_adapt_bandwidth_eq_model : forall base q eps med offdiag, gen_adapt_bandwidth base q eps med offdiag = adapt_bandwidth base q eps med offdiag.
Proof. intros. reflexivity. Qed.
'''


def check_translation(ck):
    from harness.common import coqc
    from harness import kernelops
    try:
        txt = generate()
        p = os.path.join(ck.bdir, 'BwOps_gen.v')
        open(p, 'w').write(txt)
        rc, out, dt = coqc(p)
        ck.checker_cmds.append(f'coqc build/{ck.pid}/run_<pid>/BwOps_gen.v')
        ck.obligation('BwOps_gen.v: Kernel._adapt_bandwidth (sub-sample, root iff exponent != 1, off-diagonal median, eps floor, base * multiplier), the '
                      'unconditional reset and its place before every solve, re-translated from the source, equal the Coq model adapt_bandwidth', 'translation', rc == 0, out)
        ok = rc == 0
    except TranslationError as e:
        ck.obligation('bwops translator recognises the source', 'translation', False, str(e))
        ok = False
    # the argument the kernels hand over is (kernel-norm distance)^q : part of the kernel op-sequence translation
    return kernelops.check_translation(ck) and ok
