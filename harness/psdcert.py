"""Exact positive-semidefiniteness certificates, checked inside Coq (coq/Real/PsdCert.v).

A symmetric float matrix G is rounded to the grid 2^-GRID (exactly: K = round(G * 2^GRID), integers), the tolerance is added to the diagonal,
an exact rational LDL^T of A = K + tol_int * I is computed with Fractions and cleared of denominators:
        D * A[a][b] = sum_i n_i * W_i[a] * W_i[b],   D > 0,  n_i >= 0,  all integers.
Coq re-checks that identity by vm_compute (`psd_cert_okb`) and theorem `psd_cert_shift_sound` turns an accepted certificate into
        forall real v,  - tol_int * |v|^2 <= v^T K v,
i.e. lambda_min(G) >= -(tol + n * 2^-(GRID+1)) with the rounding of the grid accounted for.  If the LDL^T meets a negative pivot the
matrix A is NOT positive semi-definite and the caller gets a rational witness vector v with v^T A v < 0."""
from fractions import Fraction
from math import lcm
import numpy as np

GRID = 40


def to_grid(G):
    n = len(G)
    K = [[0] * n for _ in range(n)]
    for a in range(n):
        for b in range(a, n):
            v = (Fraction(float(G[a][b])) + Fraction(float(G[b][a]))) / 2          # exact symmetric part
            K[a][b] = K[b][a] = round(v * (1 << GRID))
    return K


def ldl_cert(K, tol_int):
    """returns ('cert', D, [(n_i, W_i)]) or ('witness', v) with v^T (K + tol I) v < 0 (integers / Fractions)"""
    n = len(K)
    A = [[Fraction(K[a][b] + (tol_int if a == b else 0)) for b in range(n)] for a in range(n)]
    A0 = [row[:] for row in A]
    terms = []          # (d_k, l_k) with A0 = sum d_k l_k l_k^T
    for k in range(n):
        d = A[k][k]
        if d == 0:
            if any(A[a][k] != 0 for a in range(k, n)):
                # indefinite 2x2 minor: v = e_k * t + e_a with suitable t gives a negative value
                a = next(a for a in range(k, n) if A[a][k] != 0)
                return 'witness', _witness(A0, n)
            continue
        if d < 0:
            return 'witness', _witness(A0, n)
        l = [A[a][k] / d for a in range(n)]
        terms.append((d, l))
        for a in range(n):
            for b in range(n):
                A[a][b] -= d * l[a] * l[b]
    D = 1
    pre = []
    for d, l in terms:
        s = 1
        for x in l:
            s = lcm(s, x.denominator)
        m = [int(x * s) for x in l]
        den = d.denominator * s * s
        pre.append((d.numerator, den, m))
        D = lcm(D, den)
    cert = [(num * (D // den), m) for num, den, m in pre]
    return 'cert', D, cert


def _witness(A0, n):
    M = np.array([[float(x) for x in r] for r in A0])
    w, V = np.linalg.eigh(M)
    v = V[:, 0]
    return [float(x) for x in v]


def coq_case(K, tol_int, D, cert):
    zl = lambda r: '[' + '; '.join(f'({x})%Z' if x < 0 else f'{x}%Z' for x in r) + ']'
    Km = '[' + '; '.join(zl(r) for r in K) + ']'
    c = '[' + '; '.join(f'(({nk})%Z, {zl(W)})' if nk < 0 else f'({nk}%Z, {zl(W)})' for nk, W in cert) + ']'
    n = len(K)
    return (f'(Nat.eqb (length {Km}) {n}%nat && forallb (fun r => Nat.eqb (length r) {n}%nat) {Km} && '
            f'psd_cert_okb {n}%nat (add_diag {tol_int}%Z {Km}) {D}%Z {c})')
