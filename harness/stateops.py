"""Translator for the tree part of the state-dict round trip (C11).

Regenerates, from the current sources,
  * the export tables of `get_param_tree` (xrfm/tree_utils.py): for the leaf and the node dict literal, key -> source
    (tree[k] / tree.get(k, c) / leaf_model.<path> / literal / is_root / recursive call on tree[k]);
  * the loader tables of `xRFM._build_leaf_models_from_param_trees` and of the centre loop of `load_state_dict`
    (leaf_model.<path> = tree[k]; tree.setdefault(k, c); the keys it recurses into; the key the centres are gathered from);
  * what the prediction code reads from tree nodes (node[k] / node.get(k, c)) and which leaf-model attributes that fitting
    changes are read by leaf prediction (from the attribute-flow traces);
as a Coq instance of Model/StateDict.v, on which `tables_okb` is evaluated by vm_compute.  By StateDictProofs
(`roundtrip_view`, `roundtrip_twice`) a true result means: for every fitted tree, of any shape, whose leaves' centres are the
training rows their index lists name, loading the exported tree gives a tree on which prediction reads exactly what it read on
the source (and so does a load of a load).

Fail-closed: any statement or expression shape not listed here raises TranslationError.
"""
import ast, os
from harness.common import REPO
from harness import attrflow as af


class TranslationError(af.TranslationError):
    pass


def _src(rel):
    return ast.parse(open(os.path.join(REPO, rel)).read())


def _func(tree, name, cls=None):
    for c in tree.body:
        if cls is None and isinstance(c, ast.FunctionDef) and c.name == name:
            return c
        if cls is not None and isinstance(c, ast.ClassDef) and c.name == cls:
            for it in c.body:
                if isinstance(it, ast.FunctionDef) and it.name == name:
                    return it
    raise TranslationError(f'{cls + "." if cls else ""}{name} not found')


def _strip_doc(body):
    if body and isinstance(body[0], ast.Expr) and isinstance(body[0].value, ast.Constant) and isinstance(body[0].value.value, str):
        return body[1:]
    return body


def _const(n):
    """python literal -> ('str'|'bool'|'num', value)"""
    if isinstance(n, ast.Constant):
        v = n.value
        if isinstance(v, bool):
            return ('bool', v)
        if isinstance(v, str):
            return ('str', v)
        if isinstance(v, (int, float)):
            return ('num', repr(float(v)))
    raise TranslationError(f'line {n.lineno}: `{ast.unparse(n)}` is not a string / bool / number literal')


def _key_read(n, var):
    """tree['k'] -> ('k', None); tree.get('k', c) -> ('k', const) ; else None"""
    if isinstance(n, ast.Subscript) and isinstance(n.value, ast.Name) and n.value.id == var and isinstance(n.slice, ast.Constant) and isinstance(n.slice.value, str):
        return (n.slice.value, None)
    if isinstance(n, ast.Call) and isinstance(n.func, ast.Attribute) and n.func.attr == 'get' and isinstance(n.func.value, ast.Name) and n.func.value.id == var \
            and len(n.args) == 2 and not n.keywords and isinstance(n.args[0], ast.Constant) and isinstance(n.args[0].value, str):
        return (n.args[0].value, _const(n.args[1]))
    return None


def _attr_path(n, root):
    """leaf_model.a.b -> 'a.b' when the chain starts at Name root"""
    parts = []
    while isinstance(n, ast.Attribute):
        parts.append(n.attr); n = n.value
    if isinstance(n, ast.Name) and n.id == root and parts:
        return '.'.join(reversed(parts))
    return None


# ------------------------------------------------------------------ export
def export_tables():
    f = _func(_src('xrfm/tree_utils.py'), 'get_param_tree')
    args = [a.arg for a in f.args.args]
    if args != ['tree', 'is_root']:
        raise TranslationError(f'get_param_tree: parameters {args}, expected [tree, is_root]')
    body = _strip_doc(f.body)
    if len(body) != 1 or not isinstance(body[0], ast.If) or ast.unparse(body[0].test) != "tree['type'] == 'leaf'":
        raise TranslationError('get_param_tree: expected a single `if tree[\'type\'] == \'leaf\': ... else: ...`')

    def branch(stmts, what):
        alias = None           # local name bound to tree['model']
        lit = None
        litname = None
        for st in stmts:
            if isinstance(st, ast.Assign) and len(st.targets) == 1 and isinstance(st.targets[0], ast.Name):
                if ast.unparse(st.value) == "tree['model']" and alias is None and lit is None:
                    alias = st.targets[0].id; continue
                if isinstance(st.value, ast.Dict) and lit is None:
                    lit = st.value; litname = st.targets[0].id; continue
            if isinstance(st, ast.Return):
                if isinstance(st.value, ast.Dict) and lit is None:
                    lit = st.value
                elif not (isinstance(st.value, ast.Name) and st.value.id == litname):
                    raise TranslationError(f'get_param_tree ({what}): returns `{ast.unparse(st.value)}`')
                continue
            raise TranslationError(f'get_param_tree ({what}), line {st.lineno}: unrecognised statement `{ast.unparse(st)[:80]}`')
        if lit is None:
            raise TranslationError(f'get_param_tree ({what}): no dict literal')
        table = []
        for k, v in zip(lit.keys, lit.values):
            if not (isinstance(k, ast.Constant) and isinstance(k.value, str)):
                raise TranslationError(f'get_param_tree ({what}): non-literal key `{ast.unparse(k) if k else "**"}`')
            kr = _key_read(v, 'tree')
            if kr is not None:
                table.append((k.value, ('key', kr[0], kr[1]))); continue
            if alias is not None:
                p = _attr_path(v, alias)
                if p is not None:
                    table.append((k.value, ('attr', p))); continue
            if isinstance(v, ast.Name) and v.id == 'is_root':
                table.append((k.value, ('isroot',))); continue
            if isinstance(v, ast.Call) and isinstance(v.func, ast.Name) and v.func.id == 'get_param_tree' and len(v.args) == 1 \
                    and [(kw.arg, ast.unparse(kw.value)) for kw in v.keywords] == [('is_root', 'False')]:
                kr = _key_read(v.args[0], 'tree')
                if kr is not None and kr[1] is None:
                    table.append((k.value, ('child', kr[0]))); continue
            if isinstance(v, ast.Constant):
                table.append((k.value, ('const', _const(v)))); continue
            raise TranslationError(f"get_param_tree ({what}): the value exported under '{k.value}' is `{ast.unparse(v)[:100]}` — not a plain copy of a tree entry / "
                                   f"leaf-model attribute / literal (the round-trip theorem covers exact copies only)")
        return table
    return branch(body[0].body, 'leaf'), branch(body[0].orelse, 'node')


# ------------------------------------------------------------------ loader
def load_tables():
    x = _src('xrfm/xrfm.py')
    f = _func(x, '_build_leaf_models_from_param_trees', 'xRFM')
    inner = [st for st in _strip_doc(f.body) if isinstance(st, ast.FunctionDef)]
    if len(inner) != 1 or [a.arg for a in inner[0].args.args] != ['tree']:
        raise TranslationError('_build_leaf_models_from_param_trees: expected one inner function of `tree`')
    g = inner[0]
    rest = [st for st in _strip_doc(f.body) if st is not g]
    want_rest = ['self.trees = []', f'for param_tree in param_trees:\n    tree = {g.name}(param_tree)\n    self.trees.append(tree)\n    self._ensure_tree_cache(tree)', 'return']
    if [ast.unparse(st) for st in rest] != want_rest:
        raise TranslationError(f'_build_leaf_models_from_param_trees: driver statements changed: {[ast.unparse(st)[:60] for st in rest]}')
    gb = _strip_doc(g.body)
    if len(gb) != 1 or not isinstance(gb[0], ast.If) or ast.unparse(gb[0].test) != "tree['type'] == 'leaf'":
        raise TranslationError(f'{g.name}: expected a single `if tree[\'type\'] == \'leaf\'`')
    load_leaf, model_level = [], []
    lm = None
    for st in gb[0].body:
        s = ast.unparse(st)
        if isinstance(st, ast.Assign) and len(st.targets) == 1 and isinstance(st.targets[0], ast.Name) and isinstance(st.value, ast.Call) \
                and ast.unparse(st.value.func) == 'RFM' and lm is None:
            lm = st.targets[0].id; continue
        if lm and isinstance(st, ast.Assign) and len(st.targets) == 1:
            p = _attr_path(st.targets[0], lm)
            kr = _key_read(st.value, 'tree')
            if p is not None and kr is not None and kr[1] is None:
                load_leaf.append((p, kr[0])); continue
        if lm and isinstance(st, ast.If) and not st.orelse and len(st.body) == 1 and isinstance(st.body[0], ast.Assign):
            p = _attr_path(st.body[0].targets[0], lm)
            if p is not None and ast.unparse(st.body[0].value) == 'self.' + p and ast.unparse(st.test) == f'self.{p} is not None':
                model_level.append(p); continue       # an attribute restored at model level and handed to the fresh leaf model
        if lm and s == f"tree['model'] = {lm}":
            continue
        if s == 'return tree':
            continue
        raise TranslationError(f'{g.name} (leaf), line {st.lineno}: unrecognised statement `{s[:90]}`')
    children, defaults = [], []
    for st in gb[0].orelse:
        s = ast.unparse(st)
        if isinstance(st, ast.Assign) and len(st.targets) == 1:
            kt = _key_read(st.targets[0], 'tree')
            if kt and kt[1] is None and isinstance(st.value, ast.Call) and ast.unparse(st.value.func) == g.name and len(st.value.args) == 1:
                kv = _key_read(st.value.args[0], 'tree')
                if kv and kv[1] is None and kv[0] == kt[0]:
                    children.append(kt[0]); continue
        if isinstance(st, ast.Expr) and isinstance(st.value, ast.Call) and ast.unparse(st.value.func) == 'tree.setdefault' and len(st.value.args) == 2:
            k = st.value.args[0]
            if isinstance(k, ast.Constant) and isinstance(k.value, str):
                defaults.append((k.value, _const(st.value.args[1]))); continue
        if s == 'return tree':
            continue
        raise TranslationError(f'{g.name} (node), line {st.lineno}: unrecognised statement `{s[:90]}`')
    # centre loop + root assertion in load_state_dict
    h = _func(x, 'load_state_dict', 'xRFM')
    loops = [st for st in h.body if isinstance(st, ast.For) and ast.unparse(st.iter) == 'self.trees']
    if len(loops) != 1:
        raise TranslationError('load_state_dict: expected one loop over self.trees')
    lp = loops[0]
    got = [ast.unparse(st) for st in lp.body]
    want = ["assert tree['is_root']", 'leaf_nodes = self._collect_leaf_nodes(tree)']
    if got[:2] != want or len(lp.body) != 3 or not isinstance(lp.body[2], ast.For) or ast.unparse(lp.body[2].iter) != 'leaf_nodes':
        raise TranslationError(f'load_state_dict: centre loop changed: {got}')
    inner_stmts = [ast.unparse(st) for st in lp.body[2].body]
    var = ast.unparse(lp.body[2].target)
    centers_key = None
    if len(inner_stmts) == 3 and inner_stmts[0] == f"leaf_model = {var}['model']" and inner_stmts[2] == 'leaf_model.centers = X_train[leaf_center_indices]':
        st = lp.body[2].body[1]
        if isinstance(st, ast.Assign) and ast.unparse(st.targets[0]) == 'leaf_center_indices':
            kr = _key_read(st.value, var)
            if kr and kr[1] is None:
                centers_key = kr[0]
    if centers_key is None:
        raise TranslationError(f'load_state_dict: centre assignment changed: {inner_stmts}')
    # nothing after the loader call touches the trees except that loop
    idx = [i for i, st in enumerate(h.body) if ast.unparse(st) == "self._build_leaf_models_from_param_trees(state_dict['param_trees'])"]
    if len(idx) != 1:
        raise TranslationError("load_state_dict: the call _build_leaf_models_from_param_trees(state_dict['param_trees']) was not found exactly once")
    tail = [ast.unparse(st) for st in h.body[idx[0] + 1:] if st is not lp]
    if tail != ['return']:
        raise TranslationError(f'load_state_dict: statements after the tree loader other than the centre loop: {tail}')
    return load_leaf, defaults, children, centers_key, model_level


# ------------------------------------------------------------------ prediction reads
PRED_METHODS = {'_predict_tree_hard', '_predict_tree_soft', '_get_leaf_groups_and_models_on_samples', '_build_tree_cache', '_ensure_tree_cache',
                '_collect_leaf_nodes', '_get_tree_grads_hard', '_predict_tree'}
NODE_NAMES = {'tree', 'node', 'current_node', 'leaf_node'}
STRUCTURAL_KEYS = {'type', 'left', 'right', 'model', '_cache'}        # dispatch / children / the leaf model / the cache built from the others


def pred_node_keys():
    """[(key, default or None)] read on tree-node dicts by the prediction code, structural keys apart; a key read both with and without a default is
    listed without (the stricter read)"""
    x = _src('xrfm/xrfm.py')
    out = {}
    for c in x.body:
        if isinstance(c, ast.ClassDef) and c.name == 'xRFM':
            for it in c.body:
                if isinstance(it, ast.FunctionDef) and it.name in PRED_METHODS:
                    for n in ast.walk(it):
                        for nm in NODE_NAMES:
                            kr = _key_read(n, nm)
                            if kr is not None and not (isinstance(n, ast.Subscript) and not isinstance(n.ctx, ast.Load)):
                                if kr[0] in out and out[kr[0]] != kr[1]:
                                    out[kr[0]] = None
                                else:
                                    out[kr[0]] = kr[1]
    return sorted((k, d) for k, d in out.items() if k not in STRUCTURAL_KEYS)


def pred_leaf_attrs(exempt):
    t = af.Translator()
    pred_l = ('br', t.method('RFM', 'predict', '', []), ('br', t.method('RFM', 'predict_proba', '', []), t.method('RFM', 'get_grads', '', [])))
    fit_l = t.method('RFM', 'fit', '', [])
    return sorted((af.reads_of(pred_l) & af.writes_of(fit_l)) - set(exempt))


# ------------------------------------------------------------------ Coq text
def _cs(s):
    return '"' + s.replace('"', '""') + '"'


def _cpval(c):
    kind, v = c
    if kind == 'str':
        return f'(PStr _ {_cs(v)})'
    if kind == 'bool':
        return f'(PBool _ {"true" if v else "false"})'
    return f'(PV _ {_cs(v)})'               # numbers are opaque payloads (their decimal text)


def _copt(c):
    return 'None' if c is None else f'(Some {_cpval(c)})'


def _cesrc(e):
    if e[0] == 'key':
        return f'(EKey _ {_cs(e[1])} {_copt(e[2])})'
    if e[0] == 'attr':
        return f'(EAttr _ {_cs(e[1])})'
    if e[0] == 'const':
        return f'(EConst _ {_cpval(e[1])})'
    if e[0] == 'isroot':
        return '(EIsRoot _)'
    return f'(EChild _ {_cs(e[1])})'


def generate(exempt_leaf, model_level_ok=('solver',)):
    """Coq text of the instance + what was found (for the evidence)"""
    el, en = export_tables()
    ll, dfl, ch, ck_, model_level = load_tables()
    if sorted(model_level) != sorted(model_level_ok):
        raise TranslationError(f'leaf attributes handed down from the model level by the loader: {model_level}, expected {list(model_level_ok)}')
    pn = pred_node_keys()
    pl = [a for a in pred_leaf_attrs(exempt_leaf) if a not in model_level]
    lst = lambda xs: '[' + '; '.join(xs) + ']'
    txt = f'''(* GENERATED on every run by harness/stateops.py from xrfm/tree_utils.py and xrfm/xrfm.py — do not edit *)
From Coq Require Import List String Bool.
Require Import XV.Model.StateDict XV.Proofs.StateDictProofs.
Import ListNotations. Open Scope string_scope.
Definition V := string.
Definition gen_exp_leaf : etable V := {lst(f'({_cs(k)}, {_cesrc(e)})' for k, e in el)}.
Definition gen_exp_node : etable V := {lst(f'({_cs(k)}, {_cesrc(e)})' for k, e in en)}.
Definition gen_load_leaf : list (string * string) := {lst(f'({_cs(a)}, {_cs(k)})' for a, k in ll)}.
Definition gen_load_defaults : dict V := {lst(f'({_cs(k)}, {_cpval(c)})' for k, c in dfl)}.
Definition gen_load_children : list string := {lst(_cs(k) for k in ch)}.
Definition gen_centers_key : string := {_cs(ck_)}.
Definition gen_pred_node_keys : list (string * option (pval V)) := {lst(f'({_cs(k)}, {_copt(d)})' for k, d in pn)}.
Definition gen_pred_leaf_attrs : list string := {lst(_cs(a) for a in pl)}.
Lemma gen_tables_ok : tables_okb V String.eqb gen_exp_leaf gen_exp_node gen_load_leaf gen_load_children gen_centers_key gen_pred_node_keys gen_pred_leaf_attrs = true.
Proof. vm_compute. reflexivity. Qed.
Lemma gen_reexport_ok : reexport_okb V gen_exp_leaf gen_exp_node gen_load_leaf gen_load_defaults = true.
Proof. vm_compute. reflexivity. Qed.
(* the round-trip theorem instantiated at the tables of the current source: for EVERY fitted tree and every training matrix (gather) *)
Theorem gen_round_trip : forall (gather : list nat -> pval V) (t : ftree V) (p : ptree V),
  centers_ok V gather t -> export V gen_exp_leaf gen_exp_node true t = Some p ->
  exists lt, load_root V gen_load_leaf gen_load_defaults gen_load_children gen_centers_key gather p = Some lt
             /\ view_l V gen_pred_node_keys gen_pred_leaf_attrs lt = Some (view_f V gen_pred_node_keys gen_pred_leaf_attrs t).
Proof. intros gather. apply (roundtrip_view V String.eqb); [intros x y H; apply String.eqb_eq; exact H|exact gen_tables_ok]. Qed.
'''
    found = dict(export_leaf=el, export_node=en, load_leaf=ll, load_defaults=dfl, load_children=ch, centers_key=ck_, pred_node_keys=pn, pred_leaf_attrs=pl,
                 model_level=model_level)
    return txt, found


# ------------------------------------------------------------------ real trees -> Coq terms (correspondence)
import hashlib


def _digest(v):
    import torch, numpy as np
    if isinstance(v, torch.Tensor):
        a = v.detach().cpu().contiguous().numpy()
        return 't:' + hashlib.sha1(str(a.dtype).encode() + str(a.shape).encode() + a.tobytes()).hexdigest()[:14]
    if isinstance(v, np.ndarray):
        return 'a:' + hashlib.sha1(str(v.dtype).encode() + str(v.shape).encode() + np.ascontiguousarray(v).tobytes()).hexdigest()[:14]
    raise TranslationError(f'cannot digest a value of type {type(v).__name__}')


def coq_pval(v, as_index=False):
    import torch
    if as_index:
        return '(PIdx _ [' + '; '.join(str(int(i)) for i in torch.as_tensor(v).reshape(-1).tolist()) + ']%nat)'
    if isinstance(v, bool):
        return f'(PBool _ {"true" if v else "false"})'
    if isinstance(v, str):
        return f'(PStr _ {_cs(v)})'
    if v is None:
        return '(PV _ "none")'
    if isinstance(v, (int, float)):
        return f'(PV _ {_cs(repr(float(v)))})'
    return f'(PV _ {_cs(_digest(v))})'


SKIP_KEYS = {'model', '_cache'}
INDEX_KEYS = {'train_indices'}


def coq_dict(d):
    items = [(k, v) for k, v in d.items() if k not in SKIP_KEYS and not isinstance(v, dict)]
    return '[' + '; '.join(f'({_cs(k)}, {coq_pval(v, as_index=(k in INDEX_KEYS))})' for k, v in items) + ']'


def _attr(obj, path):
    for p in path.split('.'):
        obj = getattr(obj, p)
    return obj


def coq_attrs(model, paths):
    return '[' + '; '.join(f'({_cs(p)}, {coq_pval(_attr(model, p))})' for p in paths) + ']'


def coq_ftree(t, paths):
    if t['type'] == 'leaf':
        return f'(FLeaf _ {coq_dict(t)} {coq_attrs(t["model"], paths)})'
    return f'(FNode _ {coq_dict(t)} {coq_ftree(t["left"], paths)} {coq_ftree(t["right"], paths)})'


def _children(d):
    return [(k, v) for k, v in d.items() if isinstance(v, dict) and k not in SKIP_KEYS]


def coq_ptree(p):
    ch = _children(p)
    if not ch:
        return f'(PLeaf _ {coq_dict(p)})'
    if len(ch) != 2:
        raise TranslationError(f'exported node with {len(ch)} sub-trees')
    (kl, l), (kr, r) = ch
    return f'(PNode _ {coq_dict(p)} {_cs(kl)} {coq_ptree(l)} {_cs(kr)} {coq_ptree(r)})'


def coq_ltree(t, paths):
    ch = _children(t)
    if not ch:
        return f'(LLeaf _ {coq_dict(t)} {coq_attrs(t["model"], paths)})'
    (kl, l), (kr, r) = ch
    return f'(LNode _ {coq_dict(t)} {_cs(kl)} {coq_ltree(l, paths)} {_cs(kr)} {coq_ltree(r, paths)})'


def leaves(t):
    if t['type'] == 'leaf':
        return [t]
    return leaves(t['left']) + leaves(t['right'])


def coq_gather(X_train, trees):
    """the function `indices -> X_train[indices]` restricted to the index lists that occur, as a Coq association function on digests"""
    import torch
    rows = []
    for t in trees:
        for lf in leaves(t):
            idx = torch.as_tensor(lf['train_indices']).reshape(-1)
            rows.append(('[' + '; '.join(str(int(i)) for i in idx.tolist()) + ']%nat', _digest(X_train[idx])))
    body = ' '.join(f'if list_eq_dec Nat.eq_dec l {l} then PV _ {_cs(dg)} else' for l, dg in rows)
    return f'(fun l : list nat => {body} PV _ "?")'


# ------------------------------------------------------------------ obligations
def check_translation(ck, exempt_leaf):
    """obligation: the regenerated tables satisfy tables_okb (vm_compute), i.e. the hypotheses of StateDictProofs.roundtrip_view / roundtrip_twice hold
    for the current source.  Returns (definitions text for correspondence shards, found) or (None, None)."""
    from harness.common import coqc
    try:
        txt, found = generate(exempt_leaf)
    except af.TranslationError as e:
        ck.obligation('stateops translator recognises get_param_tree / the tree loader / the prediction reads', 'translation', False, str(e))
        return None, None
    p = os.path.join(ck.bdir, 'StateDict_gen.v')
    open(p, 'w').write(txt)
    rc, out, dt = coqc(p)
    ck.checker_cmds.append('coqc build/C11/run_<pid>/StateDict_gen.v')
    ck.obligation(f"tree round trip: the regenerated export / loader / prediction-read tables ({len(found['export_leaf'])} leaf entries, {len(found['export_node'])} node entries, "
                  f"{len(found['load_leaf'])} restored leaf attributes, prediction reads {[k for k, _ in found['pred_node_keys']]} on nodes and {found['pred_leaf_attrs']} on leaf models) "
                  f"satisfy tables_okb — by C11_tree_round_trip every exported-and-loaded tree (and a load of a load) gives prediction exactly what it read on the source",
                  'translation', rc == 0, out[-1500:])
    ck.notes.append('state-dict tables: ' + repr(found)[:1500])
    defs = txt[txt.index('Definition gen_exp_leaf'):txt.index('Lemma gen_tables_ok')]
    return defs, found


RUN_HEADER = '''From Coq Require Import List String Bool Arith.
Require Import XV.Model.StateDict XV.Model.StateDictRun.
Import ListNotations. Open Scope string_scope.
'''


def tree_cases(tag, src_trees, param_trees, loaded_trees, X_train, found):
    """three boolean cases per tree: (1) the model's export of the real fitted tree == the real param tree; (2) the model's load of the real param tree == the real
    loaded tree (node dicts, restored attributes, gathered centres); (3) the fitted tree satisfies centers_ok and the view of the loaded tree equals the view of the source"""
    paths_src = sorted(set(found['pred_leaf_attrs']) | {e[1] for _, e in found['export_leaf'] if e[0] == 'attr'})
    paths_ld = [a for a, _ in found['load_leaf']] + ['centers']
    cases = []
    G = coq_gather(X_train, src_trees)
    for ti, (ft, pt, lt) in enumerate(zip(src_trees, param_trees, loaded_trees)):
        defs = (f'Definition g_{tag}_{ti} := {G}.\nDefinition F_{tag}_{ti} := {coq_ftree(ft, paths_src)}.\nDefinition P_{tag}_{ti} := {coq_ptree(pt)}.\n'
                f'Definition L_{tag}_{ti} := {coq_ltree(lt, paths_ld)}.\n')
        n = f'{tag}_{ti}'
        cases.append((f'{n}:export', f'opt_ptree_eqb (export V gen_exp_leaf gen_exp_node true F_{n}) P_{n}', defs))
        cases.append((f'{n}:load', f'opt_ltree_eqb (load_root V gen_load_leaf gen_load_defaults gen_load_children gen_centers_key g_{n} P_{n}) L_{n}', ''))
        cases.append((f'{n}:view', f'centers_okb g_{n} F_{n} && match view_l V gen_pred_node_keys gen_pred_leaf_attrs L_{n} with '
                                   f'Some v => vtree_eqb v (view_f V gen_pred_node_keys gen_pred_leaf_attrs F_{n}) | None => false end', ''))
    return cases
