"""Drivers and observers for the real xRFM code (imported from /repo's working tree).

No source hooks: observation is by harness-side subclasses and instance-level wrappers only.
"""
import os, sys, signal, contextlib, copy, math
import numpy as np
import torch
from harness.common import import_xrfm

xrfm = import_xrfm()
import xrfm.xrfm as xmod
from xrfm.rfm_src import RFM as RealRFM
from xrfm import xRFM

torch.set_num_threads(int(os.environ.get('VERIF_TORCH_THREADS', '4')))


class FitTimeout(Exception):
    pass


@contextlib.contextmanager
def time_limit(seconds):
    def handler(signum, frame):
        raise FitTimeout(f'timed out after {seconds}s')
    old = signal.signal(signal.SIGALRM, handler)
    signal.alarm(int(seconds))
    try:
        yield
    finally:
        signal.alarm(0)
        signal.signal(signal.SIGALRM, old)


@contextlib.contextmanager
def quiet():
    """the library prints progress (e.g. 'Using SVD') unconditionally in places"""
    with open(os.devnull, 'w') as dn, contextlib.redirect_stdout(dn):
        yield


def seed_all(s):
    import random
    random.seed(s)
    np.random.seed(s)
    torch.manual_seed(s)


# ----------------------------------------------------------------------------------------------
# data
# ----------------------------------------------------------------------------------------------
def make_X(kind, n, d, rng):
    """rng: numpy Generator.  Returns float32 array (n, d).  Kinds exercise ties / duplicates / constants."""
    if kind == 'random':
        X = rng.standard_normal((n, d))
    elif kind == 'integer':          # small integers: massive ties in every projection on a coordinate
        X = rng.integers(-2, 3, size=(n, d)).astype(float)
    elif kind == 'duplicated':       # few distinct rows, many copies
        base = rng.standard_normal((max(2, n // 7), d))
        X = base[rng.integers(0, len(base), size=n)]
    elif kind == 'constant':         # all rows identical
        X = np.tile(rng.standard_normal((1, d)), (n, 1))
    elif kind == 'constcol':         # some constant columns
        X = rng.standard_normal((n, d))
        X[:, : max(1, d // 2)] = 1.5
    elif kind == 'lowrank':
        X = rng.standard_normal((n, 1)) @ rng.standard_normal((1, d))
    elif kind == 'distinct_grid':    # pairwise distinct rows, exactly representable
        X = rng.integers(-8, 9, size=(n, d)).astype(float) / 4.0
        X[:, 0] = rng.permutation(n) / 8.0      # distinct first coordinate
    else:
        raise ValueError(kind)
    return X.astype(np.float32)


def make_y(task, X, rng, n_classes=3):
    n = X.shape[0]
    s = X @ rng.standard_normal(X.shape[1]) + 0.3 * rng.standard_normal(n)
    if task == 'reg':
        return s.astype(np.float32)
    if task == 'reg2':
        return np.stack([s, np.sin(s)], 1).astype(np.float32)
    # classification: quantile bins of s -> roughly balanced classes, every class present
    qs = np.quantile(s, np.linspace(0, 1, n_classes + 1)[1:-1])
    y = np.searchsorted(qs, s).astype(np.int64)
    k = min(n, n_classes)
    y[:k] = np.arange(k)     # make sure every class occurs
    return y


# ----------------------------------------------------------------------------------------------
# recording leaf model
# ----------------------------------------------------------------------------------------------
class RecRFM(RealRFM):
    """RFM that records the arguments of fit() and then delegates to the real implementation."""
    log = None          # list collecting instances (set by the context manager)
    tolerate_empty_val = False

    def fit(self, train_data, val_data=None, **kw):
        self.rec_train = (train_data[0].detach().clone(), train_data[1].detach().clone())
        self.rec_val = (val_data[0].detach().clone(), val_data[1].detach().clone())
        self.rec_kw = {k: v for k, v in kw.items() if k != 'callback'}
        self.rec_is_leaf = 'callback' in kw
        if RecRFM.log is not None:
            RecRFM.log.append(self)
        self.rec_empty_val = val_data[0].shape[0] == 0
        if self.rec_empty_val and RecRFM.tolerate_empty_val:
            # the library cannot score on an empty validation set (torch.cat of an empty list); the properties that use
            # this switch (C06) are about tree construction only and exclude that situation, so the leaf is fitted
            # against its own training rows instead.  C07 states the non-empty-validation proviso explicitly.
            val_data = train_data
        return super().fit(train_data, val_data, **kw)


@contextlib.contextmanager
def recording_rfm():
    old = xmod.RFM
    RecRFM.log = []
    xmod.RFM = RecRFM
    try:
        yield RecRFM.log
    finally:
        xmod.RFM = old
        RecRFM.log = None


def default_rfm_params(kernel='l2', iters=1, diag=False, bandwidth=5.0, exponent=1.0, bandwidth_mode='constant',
                       reg=1e-3, early_stop=False, return_best=True, **extra_model):
    return {'model': dict(kernel=kernel, exponent=exponent, bandwidth=bandwidth, diag=diag,
                          bandwidth_mode=bandwidth_mode, **extra_model),
            'fit': dict(get_agop_best_model=True, return_best_params=return_best, reg=reg, iters=iters,
                        early_stop_rfm=early_stop, verbose=False)}


class Rec:
    """what was observed during one xRFM.fit"""
    def __init__(self):
        self.trees = []        # list of node records (root per tree)
        self.error = None


def _as_list(t):
    return [int(v) for v in t.detach().cpu().reshape(-1).tolist()]


def fit_recorded(model, X, y, Xv, yv, timeout=120, tolerate_empty_val=False):
    """Run the real xRFM.fit while recording, per tree, the recursion of _build_tree:
    node = dict(kind, n, ids, nval, val_rows, left, right, leaf(dict returned), rfm(RecRFM))."""
    rec = Rec()
    orig_build = model._build_tree          # bound method of the class
    stack = []

    def wrapped(Xn, yn, Xvn, yvn, train_indices=None, **kw):
        n = Xn.shape[0]
        ids = list(range(n)) if train_indices is None else _as_list(train_indices)
        node = dict(kind=None, n=n, ids=ids, nval=int(Xvn.shape[0]), Xval=Xvn.detach().clone(),
                    X=Xn.detach().clone(), children=[], is_root=kw.get('is_root', False))
        if stack:
            stack[-1]['children'].append(node)
        else:
            rec.trees.append(node)
        stack.append(node)
        try:
            out = orig_build(Xn, yn, Xvn, yvn, train_indices=train_indices, **kw)
        finally:
            stack.pop()
        node['kind'] = out['type']
        if out['type'] == 'leaf':
            node['leaf'] = out
            node['kept'] = _as_list(out['train_indices'])
            node['rfm'] = out['model']
        else:
            node['direction'] = out['split_direction'].detach().clone()
            node['threshold'] = out['split_point'].detach().clone() if torch.is_tensor(out['split_point']) else out['split_point']
            node['out'] = out
        return out

    model._build_tree = wrapped
    RecRFM.tolerate_empty_val = tolerate_empty_val
    try:
        with recording_rfm() as log, time_limit(timeout), quiet():
            model.fit(X, y, Xv, yv)
        rec.rfms = log
    except FitTimeout as e:
        rec.error = ('timeout', str(e))
    except AssertionError as e:
        rec.error = ('assert', repr(e))
    except Exception as e:
        rec.error = ('exception', repr(e))
    finally:
        try:
            del model._build_tree
        except AttributeError:
            pass
    return rec


def shape_of(node):
    """nested tuple ('L', n) | ('N', n, left, right)"""
    if node['kind'] == 'leaf':
        return ('L', node['n'])
    l, r = node['children']
    return ('N', node['n'], shape_of(l), shape_of(r))


def coq_shape(sh):
    if sh[0] == 'L':
        return f'(SLeaf {sh[1]})'
    return f'(SNode {sh[1]} {coq_shape(sh[2])} {coq_shape(sh[3])})'


def walk(node):
    yield node
    for c in node.get('children', []):
        yield from walk(c)


def leaves_of(node):
    return [n for n in walk(node) if n['kind'] == 'leaf']


def same_structure(node, tree):
    """recorded build node vs a held tree dict: same shape, split directions and thresholds (bitwise)"""
    if node['kind'] == 'leaf' or tree['type'] == 'leaf':
        return node['kind'] == 'leaf' and tree['type'] == 'leaf' and node['kept'] == _as_list(tree['train_indices'])
    if not torch.equal(node['direction'].cpu(), tree['split_direction'].detach().cpu()):
        return False
    if float(node['threshold']) != float(tree['split_point']):
        return False
    l, r = node['children']
    return same_structure(l, tree['left']) and same_structure(r, tree['right'])


def match_build(rec, tree):
    """the recorded build that the held tree is (a copy of): with tree iterations each tree is built 1 + n_tree_iters times and
    the best build is deep-copied.  Returns the LAST matching recorded root (None when there is none)."""
    hit = None
    for root in rec.trees:
        if same_structure(root, tree):
            hit = root
    return hit


def leaf_pairs(node, tree):
    """(recorded leaf node, held leaf dict) pairs, by position"""
    if node['kind'] == 'leaf':
        return [(node, tree)]
    l, r = node['children']
    return leaf_pairs(l, tree['left']) + leaf_pairs(r, tree['right'])
