"""C01 — Hard-routed prediction equals the documented per-leaf kernel formula; batch independence."""
import json, itertools
import numpy as np
import torch
import mpmath as mp
from harness.common import *
from harness import oracle as orc

HEADER = '''From Coq Require Import QArith List Bool ZArith.
Require Import XV.Model.Tree.
Import ListNotations. Open Scope Q_scope.
Definition probe (m : nat) (x : list Q) : list Q := [inject_Z (Z.of_nat m); hd 0 x].
'''


def make_probe(xr, leaf_id, d, bs):
    """a REAL RFM object (real predict / validate_samples / batching loop) whose kernel is stubbed to the exact
    row-wise function k(x, .) = [1, x_0] and whose weights make  predict(x) = [leaf_id, x_0]  exactly in float32"""
    class Probe(xr.RealRFM):
        def kernel(self, x, z):
            return torch.cat([torch.ones(x.shape[0], 1, dtype=x.dtype), x[:, :1]], dim=1)

        def predict(self, samples, max_batch_size=None):
            self.calls.append(int(samples.shape[0]))
            return xr.RealRFM.predict(self, samples, max_batch_size=self.probe_bs)

        def predict_proba(self, samples, eps=1e-3):
            return self.predict(samples)
    p = Probe(kernel='l2', bandwidth=1.0, exponent=1.0, device='cpu', verbose=False)
    p.centers = torch.zeros(2, d)
    p.weights = torch.tensor([[float(leaf_id), 0.0], [0.0, 1.0]])
    p.probe_bs = bs
    p.calls = []
    return p



def light_slack(model, rows, kern):
    """extra tolerance for the memory-light kernel in float32: its distances come from ||x||^2 - 2 x.z + ||z||^2, so a query row that coincides with (or is very close to)
    a center gets a distance of order sqrt(u)|x| instead of 0 — and which value it gets depends on the matmul blocking, i.e. on the batch (the property's
    'up to the rounding error of the distance computation'); bounded per center by |alpha|_max (sqrt(u) |x| sqrt(d) / L)^min(1,q)"""
    if kern != 'l2_high_dim':
        return 0.0
    import math
    worst = 0.0
    for t in model.trees:
        for l in orc.tree_leaves(t):
            m = l['model']
            amax = float(m.weights.abs().max())
            L = float(m.kernel_obj.bandwidth); q = float(m.kernel_obj.exponent)
            nrm = max(float(np.abs(rows).max()), float(m.centers.abs().max()))
            Mmax = 1.0 if m.M is None else float(m.M.abs().max()) ** 0.5 + 1.0
            worst = max(worst, 8 * amax * (math.sqrt(2.0 ** -23) * nrm * Mmax * math.sqrt(rows.shape[1]) / L) ** min(1.0, q))
    return worst

def class_formula(ck, xr, orc, model, qc, kern, desc, cmode, n_trees):
    """predict_proba == mean over the held trees of the DECODED expansion of the leaf reached (decode per tree, then average: the decoder clamps, so the
    order matters for rows on which some tree is confident and another is not); returns the number of rows checked"""
    with xr.quiet():
        gotp = np.asarray(model.predict_proba(torch.tensor(qc)), dtype=np.float64)
    conv = model.class_converter_
    W = max(float(l['model'].weights.abs().sum()) for t in model.trees for l in orc.tree_leaves(t))
    checked = 0; sat_mixed = 0
    for r, row in enumerate(qc):
        acc = None; near_any = False; sat = []
        for t in model.trees:
            lids = orc.assign_leaf_ids(t)
            lid, near = orc.exact_route(t, row, lids)
            near_any |= near
            leaf = orc.tree_leaves(t)[lid]
            val = torch.tensor([[float(v) for v in orc.leaf_expansion(leaf['model'], row)]], dtype=torch.float32)
            pr = np.asarray(conv.numerical_to_probas(val, eps=1e-3), dtype=np.float64).reshape(-1)
            sat.append(bool(pr.max() >= 0.998))
            acc = pr if acc is None else acc + pr
        if near_any:
            ck.skip('formula rows near a threshold'); continue
        sat_mixed += int(any(sat) and not all(sat))
        exp = acc / len(model.trees)
        tol = 2e-4 + 4 * (2e-6 * (W + 1.0) + light_slack(model, qc[r:r + 1], kern))
        err = float(np.max(np.abs(exp - gotp[r])))
        checked += 1
        ck.case(dict(desc, kind='formula-proba', row=r), nontrivial=True); ck.count('class-probability formula rows')
        if not (err <= tol):
            ck.violation(f'predict_proba != mean over held trees of the decoded expansion of the leaf reached: err={err:.3g} tol={tol:.3g} on {desc} row {r}',
                         dict(desc, row=row.tolist(), got=gotp[r].tolist(), expected=exp.tolist()),
                         key=json.dumps(dict(site='formula-proba', cmode=cmode, trees=f'{len(model.trees)}/{n_trees}')))
    ck.count('class-probability rows on which some trees saturate the clamp and others do not', sat_mixed)
    return checked



def kernel_option_regimes(ck, xr, rng):
    """(ii-opt) NON-DEFAULT kernel options passed through rfm_params['model'] — the options that change the documented closed form of K itself and that the
    main sweep leaves at their defaults: the sum-power kernel's `const_mix` (0 / small / 0.5 / close to 1) x `power` (1, 2, 3, 4) x exponent, and the Lpq kernel's
    norm p (1, 1.2, 1.8, 2 with q <= p); crossed with diagonal / full / NO feature matrix (iters=0), depth 0..2, 1-2 trees, regression / two outputs / both class
    encodings.  Oracle = the statement: public predict / predict_proba vs the mpmath expansion  sum_i alpha_i K(x, c_i)  of the leaf reached by exact routing, K in
    its documented form ((1-c) mean_j k_j + c)^power resp. exp(-||T(x-c)||_p^q / L^q), evaluated from the STORED centers / weights / matrix / bandwidth / options;
    plus row-order and batch-composition independence of the same rows.  The combination is enumerated by index (the seed changes the numbers only)."""
    checked = 0
    cmixes = [0.3, 0.0, 0.5, 0.05, 0.9, 0.15, 0.7, 0.25]
    powers = [2, 3, 4, 1, 2, 5, 3, 2]
    sp_exps = [1.0, 1.3, 0.7, 2.0, 1.0, 1.6]
    lpq_pq = [(1.0, 1.0), (1.2, 0.9), (2.0, 1.0), (1.8, 1.8), (1.5, 0.6), (2.0, 2.0)]
    for j in range(ck.n(8, 32)):
        fam = 'lpq' if j % 4 == 3 else 'sum_power_laplace'
        s = 3 * (j // 4) + j % 4 if fam == 'sum_power_laplace' else j // 4           # running index inside the family
        if fam == 'sum_power_laplace':
            opts = dict(const_mix=cmixes[s % len(cmixes)], power=powers[s % len(powers)])
            exponent = sp_exps[s % len(sp_exps)]
        else:
            p, exponent = lpq_pq[s % len(lpq_pq)]
            opts = dict(norm_p=p)
        task = ['reg', 'class', 'reg2', 'reg'][j % 4] if j % 8 != 5 else 'class'
        cmode = ['zero_one', 'prevalence'][(j // 2) % 2]
        iters = [1, 0, 2, 1][s % 4]                   # 0 rounds: no learned feature matrix at all
        diag = bool((s // 2) % 2)
        n_trees = 2 if j % 5 == 2 else 1
        n = int(rng.integers(70, 150)); d = int(rng.integers(2, 6))
        L = [30, 10_000, 50, 22][j % 4]              # depth 0 (a single root leaf) every fourth fit
        X = xr.make_X('random', n, d, rng); y = xr.make_y(task, X, rng)
        Xv = xr.make_X('random', 30, d, rng); yv = xr.make_y(task, Xv, rng)
        params = xr.default_rfm_params(kernel=fam, iters=iters, diag=diag, bandwidth=[3.0, 1.5, 6.0][j % 3], exponent=exponent,
                                       bandwidth_mode='constant', reg=1e-2, return_best=(j % 2 == 0), **opts)
        desc = dict(kind='kernel-options', j=j, kernel=fam, task=task, cmode=cmode, n_trees=n_trees, n=n, L=L, d=d, diag=diag, iters=iters,
                    exponent=exponent, bandwidth=params['model']['bandwidth'], seed=ck.seed, **opts)
        xr.seed_all(2300 + j + ck.seed)
        model = xr.xRFM(rfm_params=params, max_leaf_size=L, n_trees=n_trees, verbose=False, split_method=['random_pca', 'top_vector_agop_on_subset', 'pca', 'linear'][j % 4],
                        use_temperature_tuning=False, classification_mode=cmode, refill_size=15)
        try:
            with xr.quiet():
                model.fit(torch.tensor(X), torch.tensor(y), torch.tensor(Xv), torch.tensor(yv))
        except Exception as e:
            ck.notes.append(f'kernel-options fit failed {desc}: {e!r}'[:300]); ck.count('kernel-options fit-failed')
            continue
        model.split_temperature = None
        leaves = [l for t in model.trees for l in orc.tree_leaves(t)]
        # the options must have ARRIVED in every leaf's kernel object (otherwise the regime would silently test the defaults)
        for l in leaves:
            ko = l['model'].kernel_obj
            have = dict(const_mix=float(getattr(ko, 'const_mix', 0.0)), power=getattr(ko, 'power', None)) if fam == 'sum_power_laplace' else dict(norm_p=float(getattr(ko, 'p', float('nan'))))
            if orc.kname_of(ko) != {'sum_power_laplace': 'sum_power', 'lpq': 'lpq'}[fam] or any(have[k] != opts[k] for k in opts):
                ck.violation(f'the configured kernel options {opts} did not reach the leaf kernel ({type(ko).__name__} holds {have}) on {desc}',
                             dict(desc, held=have), key=json.dumps(dict(site='kernel-options-arrive', kernel=fam)))
                break
        tag = (f'sum_power const_mix{"=0" if opts["const_mix"] == 0 else ">0"} power{"=1" if opts["power"] == 1 else "!=1"}' if fam == 'sum_power_laplace' else f'lpq p={opts["norm_p"]}')
        ck.count(f'kernel options: {tag}'); ck.count(f'kernel options: depth={max(orc.tree_depth(t) for t in model.trees)} iters={iters}')
        W = max(float(l['model'].weights.abs().sum()) for l in leaves)
        # rows inside the range, training rows (= centers of some leaf: distance 0 in every coordinate), an axis-aligned neighbour of a training row
        # (distance 0 in all coordinates but one), far outside (every Laplace factor underflows: K -> const_mix^power, not 0)
        nb = X[3].copy(); nb[0] += 0.25
        qrows = np.concatenate([xr.make_X('random', 4, d, rng), X[:3], nb[None, :], 50.0 * (np.abs(xr.make_X('random', 1, d, rng)) + 1.0),
                                -1e4 * (np.abs(xr.make_X('random', 1, d, rng)) + 1.0)]).astype(np.float32)
        if task == 'class':
            checked += class_formula(ck, xr, orc, model, qrows, fam, desc, cmode, n_trees)
            with xr.quiet():
                got = np.asarray(model.predict_proba(torch.tensor(qrows)), dtype=np.float64).reshape(len(qrows), -1)
                fn = model.predict_proba
            tol_ind = 2e-4 + 8e-6 * (W + 1.0)
        else:
            with xr.quiet():
                got = np.asarray(model.predict(torch.tensor(qrows)), dtype=np.float64).reshape(len(qrows), -1)
                fn = model.predict
            bad = []
            for r, row in enumerate(qrows):
                acc = None; near_any = False
                for t in model.trees:
                    lid, near = orc.exact_route(t, row, orc.assign_leaf_ids(t))
                    near_any |= near
                    val = orc.leaf_expansion(orc.tree_leaves(t)[lid]['model'], row)
                    acc = val if acc is None else [a + b for a, b in zip(acc, val)]
                if near_any:
                    ck.skip('formula rows near a threshold'); continue
                exp = [float(a) / len(model.trees) for a in acc]
                tol = 2e-5 * (W + max(1.0, max(abs(v) for v in exp)))
                err = max(abs(e - g) for e, g in zip(exp, got[r]))
                checked += 1
                ck.case(dict(desc, kind='kernel-options-formula', row=r), nontrivial=True); ck.count('kernel-options formula rows')
                if not (err <= tol):
                    bad.append((err / tol if err == err else float('inf'), r, err, tol, exp))
            if bad:        # report the row that is furthest outside its tolerance (and how many rows are outside)
                _, r, err, tol, exp = max(bad, key=lambda b: b[0])
                ck.violation(f'predict != mean over held trees of sum_i alpha_i K(x,c_i) of the leaf reached, K in its documented form with the configured options {opts}: '
                             f'row {r} x={qrows[r].tolist()} predict={got[r].tolist()} formula={exp} err={err:.3g} tol={tol:.3g} ({len(bad)} of {len(qrows)} rows outside tolerance) on {desc}',
                             dict(desc, row=qrows[r].tolist(), got=got[r].tolist(), expected=exp, rows_outside_tolerance=[b[1] for b in bad], batch=qrows.tolist(),
                                  X_train=X.tolist(), y_train=np.asarray(y).tolist()),
                             key=json.dumps(dict(site='kernel-options-formula', kernel=fam, options=tag)))
            tol_ind = 4e-5 * (W + max(1.0, float(np.abs(got).max())))
        # batch independence in the same regime: reversed order, row-by-row, and the rows embedded among fresh rows
        pad = xr.make_X('random', 5, d, rng).astype(np.float32)
        with xr.quiet():
            rev = np.asarray(fn(torch.tensor(qrows[::-1].copy())), dtype=np.float64).reshape(len(qrows), -1)[::-1]
            one = np.concatenate([np.asarray(fn(torch.tensor(qrows[r:r + 1])), dtype=np.float64).reshape(1, -1) for r in range(len(qrows))])
            emb = np.asarray(fn(torch.tensor(np.concatenate([pad, qrows, pad[:2]]))), dtype=np.float64).reshape(len(qrows) + 7, -1)[5:5 + len(qrows)]
        nearrow = [any(orc.exact_route(t, row, orc.assign_leaf_ids(t))[1] for t in model.trees) for row in qrows]
        for how, other in (('reversed', rev), ('row-by-row', one), ('embedded among 7 other rows', emb)):
            errs = np.abs(other - got).max(axis=1); errs[np.array(nearrow)] = 0.0
            ck.case(dict(desc, kind='kernel-options-batch', how=how), nontrivial=True)
            if not np.all(errs <= tol_ind):
                r = int(errs.argmax())
                ck.violation(f'the value of row {r} x={qrows[r].tolist()} depends on the batch: {got[r].tolist()} in the {len(qrows)}-row batch, {other[r].tolist()} when {how} '
                             f'(err {errs[r]:.3g} > {tol_ind:.3g}) on {desc}', dict(desc, row=qrows[r].tolist(), batch=qrows.tolist(), how=how, got=got[r].tolist(), other=other[r].tolist()),
                             key=json.dumps(dict(site='kernel-options-batch', kernel=fam, how=how)))
    return checked


def run(ck):
    from harness import xr
    ck.rule = ('real xRFM fits (depth 0-4, 1-3 trees, overlap 0/0.1, several kernels/tasks); (i) leaves replaced by exact probe '
               'leaves (real RFM.predict loop, stubbed kernel) and _predict_tree_hard / predict compared bit-for-bit with the Coq model on '
               'random batches, permutations, splits, singletons, far rows; (ii) real leaves: predict vs mpmath kernel expansion of the '
               'leaf reached by exact routing; (ii-opt) the same oracle + batch independence under non-default kernel options (sum-power const_mix x power, Lpq norm p; no / diagonal / full feature matrix); (iib) the same rows inside a 50,025-row batch (crossing the 20k kernel and 50k leaf batching thresholds) vs a 7-row batch.  non-trivial = tree has >= 1 split and batch has >= 2 rows; distinct by hash of tree+batch')
    ck.trusted += ['Coq 8.16.1 kernel + vm_compute', 'harness probe leaf (stubbed kernel only)', 'exact Fraction routing + mpmath expansion oracle',
                   'float32->Q printing']
    ck.assumptions += ['rows whose exact projection is within d*2^-20*(sum|x_i v_i|+|b|) of a threshold are excluded (counted in `skipped`)',
                       'torch.sort over distinct int64 keys sorts']
    ck.check_theorems()
    from harness import splitarith
    splitarith.check_translation(ck)
    from harness import predops
    predops.check_translation(ck)

    rng = np.random.default_rng(ck.seed + 101)
    nfits = ck.n(8, 60)
    kernels = ['l2', 'l2_high_dim', 'l1', 'lpq', 'sum_power_laplace']
    cases = []
    meta = {}
    cid = 0
    formula_checked = 0
    for i in range(nfits):
        kern = kernels[i % len(kernels)]
        task = ['reg', 'reg2', 'class'][i % 3]
        cmode = ['zero_one', 'prevalence'][(i // 3) % 2]
        n_trees = [1, 2, 3, 1][i % 4]
        depth0 = (i % 7 == 6)
        n = int(rng.integers(40, 240))
        L = 10_000 if depth0 else int(rng.integers(8, 40))
        d = int(rng.integers(2, 5))
        f = 0.1 if (i % 5 == 4 and L >= 5) else 0.0
        diag = bool(i % 2)
        bwmode = 'adaptive' if (i % 4 == 1 and kern != 'sum_power_laplace') else 'constant'
        X = xr.make_X('random', n, d, rng); y = xr.make_y(task, X, rng)
        Xv = xr.make_X('random', 40, d, rng); yv = xr.make_y(task, Xv, rng)
        extra = {}
        if kern == 'lpq':
            extra = dict(norm_p=1.5)
        if kern == 'sum_power_laplace':
            # the sum-power kernel's own options vary with the fit index (defaults const_mix=0, power=2 every third such fit)
            extra = dict(const_mix=[0.25, 0.0, 0.6][(i // 5) % 3], power=[2, 2, 3][(i // 5) % 3])
        exponent = [1.0, 1.2, 0.8][i % 3]
        if i % 4 == 2 or (kern == 'l2_high_dim' and i % 10 == 1):
            exponent = 2.0 if kern != 'lpq' else 1.5          # the Gaussian end of the range (Lpq: q <= p = 1.5)
        # odd fits keep the LAST iterate (learned, non-identity feature matrix guaranteed); even fits return the best one
        params = xr.default_rfm_params(kernel=kern, iters=1 + (i % 2), diag=diag, bandwidth=3.0, exponent=exponent,
                                       bandwidth_mode=bwmode, reg=1e-2, return_best=(i % 2 == 0), **extra)
        if i % 8 == 6:
            params = None              # the library's default leaf model (what `xRFM()` without arguments uses): l2_high_dim, 5 rounds, best iterate
            kern = 'l2_high_dim'
        xr.seed_all(1000 + i + ck.seed)
        # every eighth fit (i % 8 == 3): all splits along ONE axis with a negative, non-unit coefficient (an axis-aligned direction whose sign and scale matter)
        axis_kw = {}
        if i % 8 == 3:
            fv = np.zeros(d, dtype=np.float32); fv[d - 1] = -1.5
            axis_kw = dict(split_method='fixed_vector', fixed_vector=torch.tensor(fv))
        # every ninth fit: a forced number of splits (the largest leaf is split again and again): a lopsided tree whose depth exceeds log2(#leaves)
        chain_kw = dict(number_of_splits=[3, 4, 5][(i // 9) % 3]) if (i % 9 == 4 and not depth0) else {}
        if chain_kw:
            L = 10_000; n_trees = 1
        model = xr.xRFM(rfm_params=params, max_leaf_size=L, n_trees=n_trees, overlap_fraction=f, verbose=False, **chain_kw,
                        **(axis_kw or dict(split_method=('random_global_agop' if i % 8 == 5 else ['top_vector_agop_on_subset', 'random_pca', 'linear', 'pca'][i % 4]))),
                        use_temperature_tuning=False, classification_mode=cmode, refill_size=20,
                        n_tree_iters=(1 if i % 8 == 5 else 0))
        desc = dict(i=i, kernel=kern, task=task, cmode=cmode, n_trees=n_trees, n=n, L=L, d=d, f=f, diag=diag, bw=bwmode,
                    exponent=exponent, kernel_options=extra, default_params=(params is None), axis_aligned_negative_split=bool(i % 8 == 3), forced_splits=chain_kw.get('number_of_splits'), seed=ck.seed)
        try:
            with xr.quiet():
                model.fit(torch.tensor(X), torch.tensor(y), torch.tensor(Xv), torch.tensor(yv))
        except Exception as e:
            ck.notes.append(f'fit failed {desc}: {e!r}')
            ck.count('fit-failed')
            continue
        model.split_temperature = None
        depths = [orc.tree_depth(t) for t in model.trees]
        ck.count(f'kernel={kern}'); ck.count(f'task={task}'); ck.count(f'trees_held={len(model.trees)}/{n_trees}')
        ck.count(f'depth={max(depths)}')
        ck.count('leaf feature matrix ' + ('identity/None' if all(l['model'].M is None or bool((l['model'].M == (torch.ones_like(l['model'].M) if l['model'].M.dim() == 1 else torch.eye(l['model'].M.shape[0]))).all())
                                                                    for t in model.trees for l in orc.tree_leaves(t)) else 'learned'))

        # ---------- (ii) real leaves: predict == mean over trees of the expansion of the leaf reached (regression) ----------
        qrows = np.concatenate([X[:3], xr.make_X('random', 3, d, rng), 1e3 * xr.make_X('random', 1, d, rng), 1e5 * (np.abs(xr.make_X('random', 1, d, rng)) + 1.0)]).astype(np.float32)      # ordinary rows share the batch (and possibly the leaf group) with rows far outside the training range
        if task in ('reg', 'reg2'):
            with xr.quiet():
                if i % 2 == 1:
                    # history: the model first predicts OTHER rows held in a staging buffer, the buffer is refilled in place and wrapped again
                    # (same address / shape / dtype): the value of a row depends on the row, not on what the object saw before
                    buf = np.ascontiguousarray(xr.make_X('random', len(qrows), d, rng).astype(np.float32))
                    model.predict(torch.from_numpy(buf)); buf[:] = qrows
                    got = np.asarray(model.predict(torch.from_numpy(buf)), dtype=np.float64)
                    ck.count('formula rows predicted from a refilled buffer')
                else:
                    got = np.asarray(model.predict(torch.tensor(qrows)), dtype=np.float64)
            for r, row in enumerate(qrows):
                acc = None
                near_any = False
                for t in model.trees:
                    lids = orc.assign_leaf_ids(t)
                    lid, near = orc.exact_route(t, row, lids)
                    near_any |= near
                    leaf = orc.tree_leaves(t)[lid]
                    val = orc.leaf_expansion(leaf['model'], row)
                    acc = val if acc is None else [a + b for a, b in zip(acc, val)]
                if near_any:
                    ck.skip('formula rows near a threshold')
                    continue
                exp = [a / len(model.trees) for a in acc]
                scale = max(1.0, max(abs(float(v)) for v in exp))
                W = max(float(l['model'].weights.abs().sum()) for t in model.trees for l in orc.tree_leaves(t))
                tol = 2e-5 * (W + scale) + light_slack(model, qrows[r:r + 1], kern)       # the slack scales with THIS row's magnitude, not with the batch's
                err = max(abs(float(e) - g) for e, g in zip(exp, got[r].reshape(-1)))
                formula_checked += 1
                ck.case(dict(desc, kind='formula', row=r), nontrivial=True)
                if not (err <= tol):
                    ck.violation(f'predict != mean over held trees of sum_i alpha_i K(x,c_i) of the leaf reached: err={err:.3g} tol={tol:.3g} on {desc} row {r} x={row.tolist()} predict={got[r].tolist()} formula={[float(e) for e in exp]}',
                                 dict(desc, row=row.tolist(), got=got[r].tolist(), expected=[float(e) for e in exp]),
                                 key=json.dumps(dict(site='formula', kernel=kern, trees=f'{len(model.trees)}/{n_trees}')))

        # ---------- (ii-class) class probabilities: the DECODED expansion of the leaf reached, averaged over the held trees (decode per tree, then average:
        #      the decoder clamps, so the order matters for confident rows) ----------
        if task == 'class':
            qc = np.concatenate([X[:14], qrows[:7]]).astype(np.float32)          # training rows: confident, some trees saturate the clamp
            formula_checked += class_formula(ck, xr, orc, model, qc, kern, desc, cmode, n_trees)

        # ---------- (ii-sq) a query batch with exactly as many rows as the leaf has centers (square kernel block, rows are NOT the centers) ----------
        if task in ('reg', 'reg2') and len(model.trees) == 1 and model.trees[0]['type'] == 'leaf':
            leaf = model.trees[0]
            nc = int(leaf['model'].centers.shape[0])
            Qn = xr.make_X('random', nc, d, rng)
            with xr.quiet():
                gn = np.asarray(model.predict(torch.tensor(Qn)), dtype=np.float64).reshape(nc, -1)
            W = float(leaf['model'].weights.abs().sum())
            for r in (0, nc // 2, nc - 1):
                exp = [float(v) for v in orc.leaf_expansion(leaf['model'], Qn[r])]
                err = max(abs(a - b) for a, b in zip(exp, gn[r]))
                ck.case(dict(desc, kind='square-block', row=r), nontrivial=True); ck.count('square query block (rows = #centers)')
                if not (err <= 2e-5 * (W + max(1.0, max(abs(v) for v in exp))) + light_slack(model, Qn, kern)):
                    ck.violation(f'predict on a batch of {nc} fresh rows (as many as the leaf has centers) gives {gn[r].tolist()} for row {r}, the kernel expansion gives {exp} on {desc}',
                                 dict(desc, row=Qn[r].tolist(), got=gn[r].tolist(), expected=exp, rows=nc), key=json.dumps(dict(site='square-block', kernel=kern)))
                    break

        # ---------- (ii') batch-size independence across every internal batching threshold (kernel 20k, leaf predict 50k) ----------
        if task in ('reg', 'reg2'):
            nearrow = [any(orc.exact_route(t, row, orc.assign_leaf_ids(t))[1] for t in model.trees) for row in qrows]
            far = [r for r in range(len(qrows)) if not nearrow[r]]
        if task in ('reg', 'reg2') and far:
            r0 = far[0]
            qrows = np.concatenate([qrows[r0:r0 + 1], qrows[[r for r in far if r != r0]]]); got = np.concatenate([got[r0:r0 + 1], got[[r for r in far if r != r0]]])
            ck.skip('big-batch rows near a threshold', sum(nearrow))
            big = np.concatenate([qrows, np.repeat(qrows[:1], 50_011, axis=0), qrows[::-1]]).astype(np.float32)
            with xr.quiet():
                gbig = np.asarray(model.predict(torch.tensor(big)), dtype=np.float64).reshape(len(big), -1)
            ref = np.concatenate([got.reshape(len(qrows), -1), np.repeat(got.reshape(len(qrows), -1)[:1], 50_011, axis=0),
                                  got.reshape(len(qrows), -1)[::-1]])
            W = max(float(l['model'].weights.abs().sum()) for t in model.trees for l in orc.tree_leaves(t))
            tol_rows = np.array([2e-5 * (W + max(1.0, float(np.abs(ref).max()))) + light_slack(model, big[k:k + 1], kern) for k in range(len(qrows))])
            tolb_vec = np.concatenate([tol_rows, np.repeat(tol_rows[:1], 50_011), tol_rows[::-1]])
            errs = np.abs(gbig - ref).max(axis=1)
            ck.case(dict(desc, kind='big-batch'), nontrivial=True)
            if not np.all(errs <= tolb_vec):
                r = int((errs - tolb_vec).argmax()); tolb = float(tolb_vec[r])
                ck.violation(f'prediction of a row depends on the batch it is in: row {r} of a {len(big)}-row batch = {gbig[r].tolist()} but the same row '
                             f'predicted in a {len(qrows)}-row batch = {ref[r].tolist()} (err {errs[r]:.3g} > {tolb:.3g}) on {desc}',
                             dict(desc, row=big[r].tolist(), index=r, batch_rows=len(big), got=gbig[r].tolist(), want=ref[r].tolist(),
                                  how='batch = the query rows away from thresholds + 50011 copies of the first + the same rows reversed'),
                             key=json.dumps(dict(site='big-batch', kernel=kern)))

        # ---------- (i) exact probes ----------
        bs = int(rng.choice([1, 2, 3, 7, 50]))
        tcoq = []
        for t in model.trees:
            lids = orc.assign_leaf_ids(t)
            for lf in orc.tree_leaves(t):
                lf['model'] = make_probe(xr, lids[id(lf)], d, bs)
            t.pop('_cache', None)
            tcoq.append(orc.coq_tree(t, lids))
        model.n_classes_ = 0       # probes return raw vectors; the ensemble mean path of `predict` for regression
        base = np.concatenate([X[rng.choice(n, 4, replace=False)], xr.make_X('random', 4, d, rng),
                               (1e6 * xr.make_X('random', 1, d, rng)).astype(np.float32)]).astype(np.float32)
        batches = [('random', base)]
        perm = rng.permutation(len(base))
        batches.append(('permuted', base[perm]))
        k = int(rng.integers(1, len(base)))
        batches.append(('split-a', base[:k])); batches.append(('split-b', base[k:]))
        batches.append(('singleton', base[3:4]))
        batches.append(('train-rows', X[: min(n, 12)]))
        if ck.tier == 'thorough':
            small = base[:4]
            for pm in itertools.permutations(range(4)):
                batches.append(('perm4', small[list(pm)]))
        for bname, B in batches:
            Bt = torch.tensor(B)
            keep = list(range(len(B)))
            for ti, t in enumerate(model.trees):
                lids = orc.assign_leaf_ids(t)
                keep_t = [r for r in range(len(B)) if not orc.exact_route(t, B[r], lids)[1]]
                ck.skip('probe rows near a threshold', len(B) - len(keep_t))
                keep = [r for r in keep if r in keep_t]
                for proba in (False, True):
                    out = model._predict_tree_hard(Bt, t, proba=proba)
                    exp_rows = out.detach().cpu().numpy().tolist()
                    # oracle (statement): row r gets [leaf id reached, x_0]
                    for r in keep_t:
                        lid, _ = orc.exact_route(t, B[r], lids)
                        if [float(v) for v in exp_rows[r]] != [float(lid), float(B[r][0])]:
                            ck.violation(f'hard routing: row {r} of batch {bname} returned {exp_rows[r]} but the leaf reached by <= routing is {lid} (x0={B[r][0]}) on {desc}',
                                         dict(desc, batch=B.tolist(), tree=ti, row=r, got=exp_rows[r], leaf=lid),
                                         key=json.dumps(dict(site='probe-tree', batch=bname)))
                    coq = (f'rows_eqb_at {coq_list([coq_nat(r) for r in keep_t])} '
                           f'(predict_tree_hard (list Q) probe {bs}%nat {tcoq[ti]} {coq_Qmat(B.tolist())}) {coq_Qmat(exp_rows)}')
                    cases.append((cid, coq)); meta[cid] = dict(desc, batch=bname, tree=ti, proba=proba); cid += 1
                    ck.case(dict(desc, kind='probe', batch=bname, tree=ti, proba=proba, rows=B.tolist()),
                            nontrivial=(depths[ti] >= 1 and len(B) >= 2), sample=(depths[ti] >= 2 and bname == 'permuted'))
            # ensemble mean through the public predict
            with xr.quiet():
                ens = np.asarray(model.predict(Bt), dtype=np.float64).tolist()
            for r in keep:
                lidsum = 0.0
                for t in model.trees:
                    lids = orc.assign_leaf_ids(t)
                    lidsum += orc.exact_route(t, B[r], lids)[0]
                want = [lidsum / len(model.trees), float(B[r][0])]
                if max(abs(a - b) for a, b in zip(ens[r], want)) > 1e-5 * (1 + abs(want[0]) + abs(want[1])):
                    ck.violation(f'predict: row {r} of batch {bname} = {ens[r]} but the mean over the {len(model.trees)} held trees is {want} on {desc}',
                                 dict(desc, batch=B.tolist(), row=r, got=ens[r], want=want),
                                 key=json.dumps(dict(site='probe-ensemble', trees=f'{len(model.trees)}/{n_trees}')))
            tol = '(1#100000)'
            coq = (f'rows_close_at {tol} {coq_list([coq_nat(r) for r in keep])} '
                   f'(predict_hard probe {bs}%nat {coq_list(tcoq)} {coq_Qmat(B.tolist())}) {coq_Qmat(ens)}')
            if not any(abs(v) > 1e5 for row in B.tolist() for v in row):
                cases.append((cid, coq)); meta[cid] = dict(desc, batch=bname, ensemble=True); cid += 1
    # ---------- confident ensembles: separable classes, small ridge, 2-3 trees with different random splits — on fresh rows some trees overshoot (their decoded
    #      probability sits at the clamp) while others do not ----------
    for j in range(ck.n(4, 12)):
        K = [2, 3][j % 2]; cm = ['prevalence', 'zero_one'][(j // 2) % 2]; nt = [2, 3][(j // 2) % 2]
        n, d = 160, 3
        Xc = xr.make_X('random', n, d, rng); Xvc = xr.make_X('random', 40, d, rng)
        lab = lambda A: (np.digitize(A[:, 0], [-0.4, 0.4][: K - 1] if K == 3 else [0.0])).astype(np.int64)
        xr.seed_all(1700 + j + ck.seed)
        mc = xr.xRFM(rfm_params=xr.default_rfm_params(kernel=['l2', 'l1'][j % 2], iters=1, reg=[1e-3, 1e-2][j % 2], bandwidth=3.0), max_leaf_size=45, n_trees=nt, verbose=False,
                     split_method=['random_pca', 'random_agop_on_subset'][j % 2], use_temperature_tuning=False, classification_mode=cm, refill_size=15)
        descc = dict(kind='confident-ensemble', j=j, K=K, cmode=cm, n_trees=nt, n=n, seed=ck.seed)
        try:
            with xr.quiet():
                mc.fit(torch.tensor(Xc), torch.tensor(lab(Xc)), torch.tensor(Xvc), torch.tensor(lab(Xvc)))
        except Exception as e:
            ck.notes.append(f'confident-ensemble fit failed: {e!r}'[:200]); continue
        mc.split_temperature = None
        ck.count(f'confident ensemble trees_held={len(mc.trees)}/{nt}')
        formula_checked += class_formula(ck, xr, orc, mc, np.concatenate([xr.make_X('random', 50, d, rng), Xc[:10]]).astype(np.float32), ['l2', 'l1'][j % 2], descc, cm, nt)
    formula_checked += kernel_option_regimes(ck, xr, rng)
    ck.count('formula rows checked', formula_checked)
    res = ck.run_bool_cases('probe', HEADER, cases, shard=40)
    bad = [meta[k] for k, v in res.items() if v is not True]
    ck.obligation(f'correspondence: {len(cases)} probe batches through the real _predict_tree_hard / predict == Coq predict_tree_hard / predict_hard',
                  'correspondence', not bad, f'first mismatches: {bad[:4]}')
