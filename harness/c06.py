"""C06 — Tree construction terminates with bounded, balanced leaves."""
import os, math, json
import numpy as np
import torch
from harness.common import *
from harness import splitarith

HEADER = '''From Coq Require Import ZArith List Bool PrimFloat.
Require Import XV.Model.Split.
Import ListNotations. Open Scope Z_scope.
Definition ovf (f : float) (m : Z) : Z := match overlap_count_float f m with Some o => o | None => (-1) end.
'''

SPLIT_METHODS = ['top_vector_agop_on_subset', 'random_agop_on_subset', 'top_pc_agop_on_subset', 'random_pca',
                 'linear', 'fixed_vector', 'pca', 'rf_criterion', 'random', 'random_global_agop']
DATA_KINDS = ['random', 'integer', 'duplicated', 'constant', 'constcol', 'lowrank']


# ---- independent oracle of the property statement (pure Python, no Coq, no model) ----
def py_round_half_even(x):
    return int(round(x))


def oracle_shape(sh, L, f, quota, depth=0, info=None):
    """checks sizes per the statement; returns list of problems"""
    probs = []
    if sh[0] == 'L':
        if sh[1] > L:
            probs.append(f'leaf of size {sh[1]} > max_leaf_size {L}')
        info['depths'].append(depth)
        return probs
    m = sh[1]
    info['splits'] += 1
    o = max(0, min(py_round_half_even(2 * f * m), m))
    rem = m - o
    el, er = -(-rem // 2) + o, rem // 2 + o
    gl = sh[2][1]
    gr = sh[3][1]
    if (gl, gr) != (el, er):
        probs.append(f'node of size {m}: children {gl},{gr} expected ceil/floor halves + band {el},{er} (o={o})')
    probs += oracle_shape(sh[2], L, f, quota, depth + 1, info)
    probs += oracle_shape(sh[3], L, f, quota, depth + 1, info)
    return probs


def ceil_log2_ratio(n, L):
    k = 0
    while n > L * 2 ** k:
        k += 1
    return k


def judge_fit(ck, xr, rec, model, desc, cases, meta, time_limited=False):
    """Oracle of the statement on one recorded fit (sizes per split, leaf bound, depth bound, quota, rows the leaf models were trained on) and the
    Coq `build` case of every tree.  With a time limit the loop over trees / tree iterations may legitimately stop early (at least one tree is built);
    the shape of every tree that IS built is judged exactly as without one."""
    i, n, Lm, f, quota, method, kind = desc['i'], desc['n'], desc['L'], desc['f'], desc['quota'], desc['method'], desc['data']
    n_trees, tree_iters = desc['n_trees'], desc['tree_iters']
    tag = f"t{i}" if time_limited else f"{i}"
    site = 'fit-shape-timelimit' if time_limited else 'fit-shape'
    if rec.error is None and any(r.rec_empty_val for r in rec.rfms):
        ck.count('fits with a leaf whose validation set was empty (leaf scored on its own rows by the harness)')
    ck.count(f'method={method}'); ck.count(f'data={kind}'); ck.count(f'f={f}'); ck.count(f'quota={quota}')
    if rec.error is not None:
        # with a quota the forced splits can be infeasible (a child of size 0): the property only claims honoured quotas
        ck.case(dict(desc, error=rec.error[0]))
        ck.violation(f'fit did not return normally ({rec.error}) on {desc}', dict(desc, error=rec.error),
                     key=json.dumps(dict(site='fit-timelimit' if time_limited else 'fit', error=rec.error[0], method=method, data=kind)))
        return
    ck.count(f'n_trees={n_trees}')
    ck.count(f'tree_iters={tree_iters}')
    if time_limited:
        if not (1 <= len(model.trees) <= n_trees and len(model.trees) <= len(rec.trees) <= n_trees * (1 + tree_iters)):
            ck.violation(f'{len(rec.trees)} trees built / {len(model.trees)} held, between 1 and {n_trees} x (1 + {tree_iters} iterations) expected '
                         f'under a time limit, on {desc}', dict(desc), key='tree-count-timelimit')
    else:
        if len(rec.trees) != n_trees * (1 + tree_iters) and not (rec.trees and rec.trees[-1]['kind'] == 'leaf'):
            ck.violation(f'{len(rec.trees)} trees built, {n_trees} x (1 + {tree_iters} iterations) requested, on {desc}', dict(desc), key='tree-count')
        if len(model.trees) != min(n_trees, len(rec.trees) // (1 + tree_iters)) and not (rec.trees and rec.trees[-1]['kind'] == 'leaf'):
            ck.violation(f'{len(model.trees)} trees held, {n_trees} requested, on {desc}', dict(desc), key='tree-held')
    for ti, troot in enumerate(rec.trees):
        sh = xr.shape_of(troot)
        info = dict(depths=[], splits=0)
        probs = oracle_shape(sh, Lm, f, quota, 0, info)
        if f == 0.0 and quota is None and max(info['depths']) > ceil_log2_ratio(n, Lm):
            probs.append(f'leaf depth {max(info["depths"])} > ceil(log2(n/L)) = {ceil_log2_ratio(n, Lm)}')
        if quota is not None and info['splits'] < quota:
            probs.append(f'tree {ti}: only {info["splits"]} splits made, {quota} requested')
        for lf in xr.leaves_of(troot):
            ntrain = int(lf['rfm'].rec_train[0].shape[0])
            if ntrain > Lm:
                probs.append(f'leaf model trained on {ntrain} > {Lm} samples')
        if time_limited and f == 0.0 and quota is None:
            # zero overlap, no forced splits: the statement fixes the leaf sizes and depths completely (ceil half left, floor half right, down to <= L)
            exp = halving_leaves(n, Lm)
            got = leaves_with_depth(sh)
            if got != exp:
                probs.append(f'leaves (size, depth) left to right {got[:12]}{"..." if len(got) > 12 else ""}; the ceil/floor halving of n={n} down to '
                             f'<= {Lm} gives {len(exp)} leaves {exp[:12]}{"..." if len(exp) > 12 else ""}')
        ck.case(dict(desc, tree=ti, shape=str(sh)[:300], depth=max(info['depths'])), nontrivial=info['splits'] >= 1,
                sample=(info['splits'] >= 2))
        ck.count(f'depth={max(info["depths"])}')
        for p_ in probs:
            ck.violation(p_ + f' on {desc}', dict(desc, tree=ti, shape=sh, problem=p_),
                         key=json.dumps(dict(site=site, n=n, L=Lm, f=f, quota=quota, tree=ti)))
        q = 'None' if quota is None else f'(Some {quota})'
        coq = f'bres_eqb (build {n + 2}%nat {Lm} (ovf {coq_float(f)}) {q} 0 {n}) {xr.coq_shape(sh)}'
        cases.append((f'{tag}.{ti}', coq))
        meta[f'{tag}.{ti}'] = desc


def halving_leaves(m, L, depth=0):
    """(size, depth) of the leaves, left to right, straight from the statement for zero overlap and no forced splits"""
    if m <= L:
        return [(m, depth)]
    return halving_leaves(m - m // 2, L, depth + 1) + halving_leaves(m // 2, L, depth + 1)


def leaves_with_depth(sh, depth=0):
    if sh[0] == 'L':
        return [(sh[1], depth)]
    return leaves_with_depth(sh[2], depth + 1) + leaves_with_depth(sh[3], depth + 1)


# time budgets: spent before the first node (zero in every numeric type the option accepts, negative, below the clock resolution), spent somewhere inside the
# tree (timing dependent: deeper / right-hand subtrees), and never spent (large, infinite)
SPENT_BUDGETS = [0, 0.0, 1e-9, -1.0, np.float64(0.0), 1e-7, -0.0, 1e-12, np.float32(0.0), -1e-3]
OTHER_BUDGETS = [1e-4, 1e-3, 5e-3, 0.02, 30.0, float('inf')]


def timed_fits(ck, xr, cases, meta):
    rng = np.random.default_rng(ck.seed + 60613)
    nfits = ck.n(36, 200)
    for i in range(nfits):
        spent = i < 2 * len(SPLIT_METHODS) or rng.random() < 0.5        # the first 20 fits: every split method twice with a budget that is certainly spent
        tl = SPENT_BUDGETS[i % len(SPENT_BUDGETS)] if spent else OTHER_BUDGETS[int(rng.integers(0, len(OTHER_BUDGETS)))]
        L = int(rng.choice([2, 3, 4, 5, 8, 12, 20, 33]))
        k = int(rng.integers(1, 4))                                     # at least one split by size: the budget is spent at a node that is too large for a leaf
        n = int(max(L + 1, L * 2 ** k + rng.integers(-3, 4))) if rng.random() < 0.75 else int(rng.integers(L + 1, 6 * L + 2))
        n = min(n, 300)
        fcands = [f for f in [0.05, 0.1, 0.25] if (1 - 2 * f) * L >= 4]
        f = float(rng.choice(fcands)) if fcands and rng.random() < 0.25 else 0.0
        quota = None
        n_trees, tree_iters = int(rng.choice([1, 1, 2])), 0
        method = SPLIT_METHODS[i % len(SPLIT_METHODS)]
        kind = DATA_KINDS[(i // len(SPLIT_METHODS) + i) % len(DATA_KINDS)]
        if i % 7 == 5:
            # forced splits under a time limit: n <= L, the quota (not the size) drives the splits
            quota = int(rng.integers(1, 4)); n = int(rng.integers(2 ** (quota + 1), 2 ** (quota + 1) + 12)); L = n + int(rng.integers(0, 5)); f = 0.0
        elif i % 7 == 3 and f == 0.0 and n >= 8:
            quota = int(rng.integers(1, 3))                             # a small quota next to size-driven splits
        if method == 'random_global_agop':
            tree_iters = int(rng.choice([0, 1, 2]))
        d = int(rng.integers(2, 6))
        if kind == 'constcol':
            d = max(d, 4)
        task = ['reg', 'class'][int(rng.integers(0, 2))]
        X = xr.make_X(kind, n, d, rng)
        y = xr.make_y(task, X, rng)
        nv = int(rng.integers(3, 30))
        Xv = xr.make_X('random' if kind != 'integer' else 'integer', nv, d, rng)
        yv = xr.make_y(task, Xv, rng)
        kw = {}
        if method == 'fixed_vector':
            kw['fixed_vector'] = torch.tensor(rng.standard_normal(d), dtype=torch.float32)
        xr.seed_all(int(rng.integers(0, 2 ** 31)))
        model = xr.xRFM(rfm_params=xr.default_rfm_params(iters=(1 if tree_iters else 0), reg=1e-2), max_leaf_size=L, number_of_splits=quota,
                        split_method=method, overlap_fraction=f, verbose=False, use_temperature_tuning=False, n_trees=n_trees,
                        n_tree_iters=tree_iters, refill_size=int(rng.integers(1, 12)), time_limit_s=tl, **kw)
        Lm = int(model.max_leaf_size)
        rec = xr.fit_recorded(model, torch.tensor(X), torch.tensor(y), torch.tensor(Xv), torch.tensor(yv), timeout=120, tolerate_empty_val=True)
        desc = dict(kind='fit', i=i, n=n, L=Lm, f=f, quota=quota, method=method, data=kind, d=d, task=task, n_trees=n_trees, tree_iters=tree_iters,
                    time_limit_s=float(tl), time_limit_type=type(tl).__name__, seed=ck.seed)
        ck.count('fits with a time limit')
        ck.count('time limit certainly spent at the root (<= 0 or below the clock resolution)' if spent else f'time_limit_s={tl}')
        judge_fit(ck, xr, rec, model, desc, cases, meta, time_limited=True)


def boundary_fits(ck, xr, cases, meta):
    """Nodes with EXACTLY max_leaf_size rows (n = L*2^k, and the odd neighbours 2L-1, 4L-3 whose floor/ceil halves hit L): they are leaves — "every leaf is trained on
    at most max_leaf_size samples" and, with zero overlap and no quota, no leaf is deeper than ceil(log2(n/L)).  The bound is given under both of its names
    (`max_leaf_size` and the deprecated alias `min_subset_size`); index arithmetic decides the combination, the seed only the numbers."""
    rng = np.random.default_rng(ck.seed + 60619)
    for i in range(ck.n(12, 60)):
        L = [4, 5, 8, 16, 11, 23][i % 6]
        k = 1 + (i // 2) % 3
        n = [L * 2 ** k, 2 ** k * (L - 1) + 1, L * 2 ** k + 1, L][(i // 6) % 4 if i >= 6 else 0]      # the first six: exactly L * 2^k under both names
        alias = i % 2 == 0
        method = SPLIT_METHODS[(i * 3) % len(SPLIT_METHODS)]
        kind = DATA_KINDS[i % len(DATA_KINDS)]
        d = 4 if kind == 'constcol' else int(rng.integers(2, 5))
        task = ['reg', 'class'][i % 2]
        X = xr.make_X(kind, n, d, rng); y = xr.make_y(task, X, rng)
        nv = int(rng.integers(8, 30))
        Xv = xr.make_X('random' if kind != 'integer' else 'integer', nv, d, rng); yv = xr.make_y(task, Xv, rng)
        kw = {}
        if method == 'fixed_vector':
            kw['fixed_vector'] = torch.tensor(rng.standard_normal(d), dtype=torch.float32)
        tree_iters = 1 if method == 'random_global_agop' else 0
        xr.seed_all(int(rng.integers(0, 2 ** 31)))
        model = xr.xRFM(rfm_params=xr.default_rfm_params(iters=(1 if tree_iters else 0), reg=1e-2), **(dict(min_subset_size=L) if alias else dict(max_leaf_size=L)),
                        split_method=method, overlap_fraction=0.0, verbose=False, use_temperature_tuning=False, n_trees=1, n_tree_iters=tree_iters,
                        refill_size=int(rng.integers(1, 8)), **kw)
        Lm = int(model.max_leaf_size)
        rec = xr.fit_recorded(model, torch.tensor(X), torch.tensor(y), torch.tensor(Xv), torch.tensor(yv), timeout=120, tolerate_empty_val=True)
        desc = dict(kind='fit', i=f'b{i}', n=n, L=Lm, f=0.0, quota=None, method=method, data=kind, d=d, task=task, n_trees=1, tree_iters=tree_iters,
                    bound_given_as=('min_subset_size' if alias else 'max_leaf_size'), seed=ck.seed)
        ck.count('fits with a node of exactly max_leaf_size rows' + (' (bound given as min_subset_size)' if alias else ''))
        if Lm != L:
            ck.violation(f'the leaf bound read back from the model is {Lm}, {L} was configured, on {desc}', dict(desc), key=json.dumps(dict(site='leaf-bound-readback')))
            continue
        judge_fit(ck, xr, rec, model, desc, cases, meta)


def run(ck):
    from harness import xr
    ck.rule = ('cases = (a) every (f, n) of the real _get_balanced_split on n projections, compared with the Coq counts; '
               '(b) real xRFM.fit runs (recording wrapper around _build_tree) on random/duplicated/constant/low-rank/integer data, '
               'observed tree shape compared with Coq `build`; a case is non-trivial when the tree has >= 1 split (b) or n >= 2 (a); '
               'distinct by hash of (n, L, f, quota, method, data kind, shape)')
    ck.trusted += ['Coq 8.16.1 kernel + vm_compute', 'harness/splitarith.py (AST translator, fail-closed)',
                   'harness/xr.py recording wrapper around xRFM._build_tree',
                   'PrimFloat binary64 primitives model CPython float mul/round']
    ck.assumptions += ['torch.sort returns a permutation (any tie order)',
                       'memory_scaling_factor on CPU leaves max_leaf_size unchanged (read back from the object)']
    ck.check_theorems()

    # ---- translation obligations (regenerated from source on every run) ----
    try:
        txt = splitarith.generate()
        p = os.path.join(ck.bdir, 'SplitArith_gen.v')
        open(p, 'w').write(txt)
        rc, out, dt = coqc(p)
        ck.obligation('SplitArith_gen.v: regenerated arithmetic/comparisons of _get_balanced_split, _refill_val_set, '
                      '_build_tree, routing == hand model (lia)', 'translation', rc == 0, out)
        trans_ok = rc == 0
    except splitarith.TranslationError as e:
        ck.obligation('splitarith translator recognises the source', 'translation', False, str(e))
        trans_ok = False
    ck.checker_cmds.append('coqc build/C06/SplitArith_gen.v')

    # ---- C06b: which constructed trees the model holds (tree iterations, loop over n_trees) — scripted runs of the real loops vs Model/TreeIter.v ----
    from harness import treeiter
    treeiter.run(ck, xr)

    # ---- (a) the real _get_balanced_split on every n for several f ----
    fs = [0.0, 0.05, 0.1, 0.25, 0.125, 0.2, 0.3, 0.45, 0.5, 1 / 3, 0.07]
    nmax = min(ck.n(160, 1200), 1600)
    m = xr.xRFM(verbose=False, max_leaf_size=10)
    cases = []
    obs = {}
    for f in fs:
        m.overlap_fraction = f
        for n in range(1, nmax + 1):
            proj = torch.randn(n) if n % 3 else torch.round(torch.randn(n))   # ties every third n
            try:
                lm, rm = m._get_balanced_split(proj, None)
                l, r, o = int(lm.sum()), int(rm.sum()), int((lm & rm).sum())
                lu_sorted = torch.sort(proj[lm & ~rm]).values
                ok_order = True
                if (lm & ~rm).any() and rm.any():
                    ok_order = bool(proj[lm & ~rm].max() <= proj[rm].min())
                if lm.any() and (rm & ~lm).any():
                    ok_order = ok_order and bool(proj[lm].max() <= proj[rm & ~lm].min())
                res = (l, r, o, ok_order, bool((lm | rm).all()))
            except AssertionError:
                res = 'assert'
            obs[(f, n)] = res
            ck.case(dict(kind='split', f=f, n=n, res=res), nontrivial=n >= 2)
            ck.count('balanced_split_calls')
            # oracle straight from the statement
            o_exp = max(0, min(int(round(2 * f * n)), n))
            rem = n - o_exp
            exp = (-(-rem // 2) + o_exp, rem // 2 + o_exp, o_exp, True, True)
            if res == 'assert':
                # the code asserts each child non-empty; the statement only speaks about nodes that can be split
                if exp[1] >= 1:
                    ck.violation(f'_get_balanced_split asserts on n={n}, f={f} although both children are non-empty',
                                 dict(kind='split', f=f, n=n), key=json.dumps(dict(site='balanced_split', f=f, n=n)))
                coq = f'(right_size {n} (ovf {coq_float(f)} {n}) <=? 0)'
            else:
                if res != exp:
                    ck.violation(f'_get_balanced_split(n={n}, f={f}) gave (left,right,overlap,ordered,cover)={res}, statement requires {exp}',
                                 dict(kind='split', f=f, n=n, observed=res, expected=exp),
                                 key=json.dumps(dict(site='balanced_split', f=f, n=n)))
                coq = (f'(let o := ovf {coq_float(f)} {n} in (left_size {n} o =? {l}) && (right_size {n} o =? {r}) && (o =? {o}))')
            cases.append(((f, n), coq))
    res = ck.run_bool_cases('split', HEADER, cases, shard=400)
    bad = [k for k, v in res.items() if v is not True]
    ck.obligation(f'correspondence: real _get_balanced_split sizes == Coq left_size/right_size/overlap_count_float on {len(cases)} (f,n) pairs',
                  'correspondence', not bad, f'first mismatches: {bad[:10]}')

    # refill cap: int(len(X) * 0.2) vs floor(n / 5) and the float model, for all n up to a bound (finite sweep, in Coq)
    nb = 60000 if ck.tier == 'thorough' else 3000          # a fixed bound (not scaled): the sweep is evaluated inside Coq over nat
    vf = coq_float(m.val_size_frac)
    sweep = (f'forallb (fun k => match frac_count_float {vf} (Z.of_nat k) with Some c => c =? refill_cap_exact (Z.of_nat k) | None => false end) (seq 0 (Z.to_nat {nb}%Z))')
    r2 = ck.run_bool_cases('cap', HEADER, [('cap', sweep)])
    py_ok = all(int(n * m.val_size_frac) == n // 5 for n in range(nb))
    ck.obligation(f'float model of int(len(X)*val_size_frac) == n/5 for all n < {nb} (vm_compute sweep) and python agrees',
                  'correspondence', r2.get('cap') is True and py_ok)
    ck.case(dict(kind='cap-sweep', upto=nb))

    # ---- (b) real fits ----
    rng = np.random.default_rng(ck.seed + 606)
    nfits = ck.n(60, 420)
    cases = []
    meta = {}
    # multi-level trees WITH overlap at sizes where the children are a fraction of a row larger than the idealised (1/2 + f) m: the largest branch needs one level more
    # than log(n/L) / log(1/(1/2+f)) suggests (fixed list + a few random ones per run); they come first, before the random configurations
    BOUNDARY = [(30, 5, 0.05), (54, 5, 0.05), (23, 5, 0.1), (38, 5, 0.1), (33, 6, 0.15), (50, 6, 0.15)]
    for i in range(nfits):
        L = int(rng.choice([2, 3, 4, 5, 8, 12, 20, 33, 40]))
        k = int(rng.integers(0, 4))
        base = L * 2 ** k
        n = int(max(2, base + rng.integers(-3, 4))) if rng.random() < 0.7 else int(rng.integers(2, 6 * L + 2))
        n = min(n, 420)
        # overlap fractions allowed by the property: (1-2f) L >= 4
        fcands = [f for f in [0.0, 0.05, 0.1, 0.25] if (1 - 2 * f) * L >= 4]
        f = float(rng.choice(fcands)) if fcands and rng.random() < 0.5 else 0.0
        if i % 6 == 1:
            j = i // 6
            n, L, f = BOUNDARY[j] if j < len(BOUNDARY) else (int(rng.integers(20, 70)), int(rng.choice([5, 6, 8])), float(rng.choice([0.05, 0.1, 0.15])))
            ck.count('overlap > 0 on a multi-level tree (boundary sizes)')
        quota = None if rng.random() < 0.7 else int(rng.integers(1, 4))
        if quota is not None and n < 2 ** (quota + 1):
            quota = None
        if i % 6 == 1:
            quota = None
        if i % 6 == 3:
            # a requested minimum number of splits just above what the sizes alone produce: n just above a power-of-two multiple of the leaf size (only some of the
            # last-level nodes split by size), quota between the size-driven split count and the full balanced tree
            n, L, quota = [(33, 16, 3), (65, 16, 5), (21, 10, 3), (41, 10, 6), (67, 16, 7)][(i // 6) % 5]; f = 0.0
            ck.count('quota just above the size-driven split count')
        method = SPLIT_METHODS[i % len(SPLIT_METHODS)]
        kind = DATA_KINDS[(i // len(SPLIT_METHODS) + i) % len(DATA_KINDS)]      # every (split method, data kind) pair within the first 60 fits
        d = int(rng.integers(2, 6))
        if kind == 'constcol':
            d = max(d, 4)            # at least two identical constant columns: exactly singular X^T X
        task = ['reg', 'class'][int(rng.integers(0, 2))]
        X = xr.make_X(kind, n, d, rng)
        y = xr.make_y(task, X, rng)
        nv = int(rng.integers(3, 30))
        Xv = xr.make_X('random' if kind != 'integer' else 'integer', nv, d, rng)
        yv = xr.make_y(task, Xv, rng)
        kw = {}
        if method == 'fixed_vector':
            kw['fixed_vector'] = torch.tensor(rng.standard_normal(d), dtype=torch.float32)
        n_trees = int(rng.choice([1, 1, 2, 3]))
        if i % 5 == 4:      # forced splits on data that would fit in one leaf, several trees (the quota is per tree)
            quota = int(rng.integers(1, 4)); n = int(rng.integers(2 ** (quota + 1), 2 ** (quota + 1) + 12)); L = n + int(rng.integers(0, 5))
            n_trees = int(rng.choice([2, 3])); f = 0.0
            X = xr.make_X(kind, n, d, rng); y = xr.make_y(task, X, rng)
        xr.seed_all(int(rng.integers(0, 2 ** 31)))
        # tree iterations: every tree is rebuilt n_tree_iters times with projections drawn from the previous build's averaged feature matrix
        tree_iters = int(rng.choice([1, 2])) if method == 'random_global_agop' else 0
        # every 11th fit gives the leaf bound through the deprecated alias min_subset_size
        model = xr.xRFM(rfm_params=xr.default_rfm_params(iters=(1 if tree_iters else 0), reg=1e-2),
                        **(dict(min_subset_size=L) if i % 11 == 3 else dict(max_leaf_size=L)), number_of_splits=quota,
                        split_method=method, overlap_fraction=f, verbose=False, use_temperature_tuning=False,
                        n_trees=n_trees, n_tree_iters=tree_iters, refill_size=int(rng.integers(1, 12)), **kw)
        Lm = int(model.max_leaf_size)
        yt = torch.tensor(y)
        rec = xr.fit_recorded(model, torch.tensor(X), yt, torch.tensor(Xv), torch.tensor(yv), timeout=120,
                              tolerate_empty_val=True)
        desc = dict(kind='fit', i=i, n=n, L=Lm, f=f, quota=quota, method=method, data=kind, d=d, task=task, n_trees=n_trees, tree_iters=tree_iters, seed=ck.seed)
        judge_fit(ck, xr, rec, model, desc, cases, meta)

    # ---- (b') real fits WITH A TIME LIMIT: the statement is unconditional in the options, so a configured (and spent) time budget may shorten the
    # leaf models' training and the loop over trees, but it must not change which rows a leaf is trained on ----
    timed_fits(ck, xr, cases, meta)

    # ---- (b'') nodes of exactly max_leaf_size rows, the bound given under either of its two names ----
    boundary_fits(ck, xr, cases, meta)

    res = ck.run_bool_cases('fits', HEADER, cases, shard=50)
    bad = [meta[k] for k, v in res.items() if v is not True]
    ck.obligation(f'correspondence: tree shapes of {len(cases)} real fits == Coq build', 'correspondence', not bad,
                  f'first mismatches: {bad[:5]}')
