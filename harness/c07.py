"""C07 — Every training sample is used exactly once: as a center or as leaf validation."""
import json
import numpy as np
import torch
from harness.common import *

HEADER = '''From Coq Require Import ZArith List Bool.
Require Import XV.Model.Split.
Import ListNotations. Open Scope Z_scope.
Definition leaf_okb (is_root : bool) (min_val : Z) (recv kept moved : list nat) (nval : Z) : bool :=
  rtree_okb is_root min_val (RLeaf recv kept moved nval).
'''


def nl(xs):
    return coq_list([coq_nat(v) for v in xs])


def coq_rtree(node):
    if node['kind'] == 'leaf':
        return f"(RLeaf {nl(node['ids'])} {nl(node['kept'])} {nl(node['moved'])} {node['nval']})"
    l, r = node['children']
    return f"(RNode {nl(node['ids'])} {coq_rtree(l)} {coq_rtree(r)})"


def account(ck, xr, rec, model, desc, yt, cases, meta, cid):
    """Statement-level accounting of every recorded build of one real fit (set-level oracle, independent of the Coq model) + the Coq case of the build.
    Returns, per build, the list of (received, kept, moved, routed validation points) of its leaves in build order."""
    task, n, refill, f, nv = desc['task'], desc['n'], desc['refill'], desc['f'], desc['nval']
    out = []
    for bi, root in enumerate(rec.trees):      # every build: with tree iterations each tree is built 1 + n_tree_iters times
        Xroot = root['X']
        lookup = {Xroot[j].numpy().tobytes(): j for j in range(Xroot.shape[0])}
        Yenc = rec.rfms and None
        probs = []
        leaves = xr.leaves_of(root)
        # the encoded targets the root received: recover from the leaf fits (y rows are aligned iff they match by index)
        any_refill = False
        empty_val = False
        for lf in leaves:
            rfm = lf['rfm']
            Xtr, ytr = rfm.rec_train
            Xva, yva = rfm.rec_val
            if rfm.rec_empty_val:
                empty_val = True
            kept_rows = [lookup.get(Xtr[p].numpy().tobytes()) for p in range(Xtr.shape[0])]
            if kept_rows != lf['kept']:
                probs.append(f"leaf train_indices {lf['kept'][:6]}.. are not the rows of the fitted training matrix {kept_rows[:6]}..")
            cen = rfm.centers
            if cen.shape != Xtr.shape or not torch.equal(cen.cpu(), Xtr):
                probs.append('leaf model centers differ from the training rows it was fitted on')
            nrouted = lf['nval']
            if not torch.equal(Xva[:nrouted], lf['Xval']):
                probs.append('leaf validation set does not start with the routed validation points')
            moved = [lookup.get(Xva[p].numpy().tobytes()) for p in range(nrouted, Xva.shape[0])]
            if any(m is None for m in moved):
                probs.append('leaf validation set contains rows that are neither routed validation points nor training samples')
                moved = [m for m in moved if m is not None]
            lf['moved'] = moved
            any_refill |= len(moved) > 0
            # statement: at most min(shortfall, 20%) moved; none if routed > refill size or single leaf
            m_recv = len(lf['ids'])
            if root['kind'] == 'leaf':          # the tree has a single leaf (structural, not the flag the code was passed)
                exp = 0
            elif nrouted > refill:
                exp = 0
            else:
                exp = min(refill - nrouted, m_recv // 5)
            if len(moved) > exp:
                probs.append(f'leaf with {m_recv} samples and {nrouted} routed validation points moved {len(moved)} samples, at most {exp} are allowed (refill size {refill})')
            elif len(moved) != exp:
                # fewer than the rule allows: not a violation of the statement ("at most"); the Coq checker below (a model of the code's rule) will disagree
                ck.count('leaf moved fewer samples than the refill rule allows')
            if set(moved) & set(lf['kept']):
                probs.append(f'samples {sorted(set(moved) & set(lf["kept"]))[:5]} are both centers and leaf validation')
            if sorted(moved + lf['kept']) != sorted(lf['ids']):
                probs.append(f'leaf received {m_recv} samples but centers+moved account for {len(moved) + len(lf["kept"])} (dropped or foreign samples)')
            # targets aligned: y rows of kept/moved must be the encoded targets of the same original rows.
            lf['y_by_index'] = {j: ytr[p] for p, j in enumerate(kept_rows) if j is not None}
            for p, j in enumerate(moved):
                lf['y_by_index'][j] = yva[nrouted + p]
        # cross-leaf target consistency: with exactly-once (or overlap) the encoded target of index j is unique
        ymap = {}
        for lf in leaves:
            for j, v in lf['y_by_index'].items():
                if j in ymap and not torch.equal(ymap[j], v):
                    probs.append(f'sample {j} carries different targets in different leaves')
                ymap[j] = v
        if task.startswith('reg'):
            for j, v in ymap.items():
                if not torch.equal(v.reshape(-1), yt[j].reshape(-1).float()):
                    probs.append(f'target of sample {j} is misaligned'); break
        else:
            enc = model.class_converter_.labels_to_numerical(yt)
            for j, v in ymap.items():
                if not torch.equal(v.reshape(-1), enc[j].reshape(-1)):
                    probs.append(f'target of sample {j} is misaligned'); break
        used = [j for lf in leaves for j in lf['kept'] + lf['moved']]
        if f == 0.0:
            if sorted(used) != list(range(n)):
                from collections import Counter
                c = Counter(used)
                dup = [j for j, k in c.items() if k > 1][:5]
                miss = [j for j in range(n) if j not in c][:5]
                probs.append(f'not exactly once: duplicated {dup} missing {miss} (n={n}, used {len(used)})')
        else:
            if set(used) != set(range(n)):
                probs.append('with overlap: some sample is in no leaf')
        # the caller's validation points are ROUTED: at every split each of them goes to exactly one child
        from collections import Counter
        for nd in xr.walk(root):
            if nd['kind'] != 'leaf' and len(nd['children']) == 2:
                par = Counter(nd['Xval'][j].numpy().tobytes() for j in range(nd['Xval'].shape[0]))
                ch = Counter()
                for cnode in nd['children']:
                    ch.update(cnode['Xval'][j].numpy().tobytes() for j in range(cnode['Xval'].shape[0]))
                if par != ch:
                    probs.append(f"validation points lost or duplicated at a split: node had {sum(par.values())}, children have {sum(ch.values())}")
        nsplit = sum(1 for nd in xr.walk(root) if nd['kind'] != 'leaf')
        ck.case(dict(desc, leaves=[(len(l['ids']), len(l['kept']), len(l['moved']), l['nval']) for l in leaves]),
                nontrivial=(nsplit >= 1 and any_refill), sample=(nsplit >= 2 and any_refill))
        ck.count(f'splits={min(nsplit, 8)}'); ck.count(f'refill={refill}'); ck.count(f'nval={nv}'); ck.count(f'task={task}')
        ck.count('any_refill' if any_refill else 'no_refill')
        if empty_val:
            ck.count('fits with an empty leaf validation set (outside the proviso; scored on own rows)')
        for p_ in dict.fromkeys(probs):
            ck.violation(p_ + f' on {desc}', dict(desc, problem=p_, leaves=[dict(recv=l['ids'], kept=l['kept'], moved=l['moved'], nval=l['nval']) for l in leaves]),
                         key=json.dumps(dict(site='accounting', problem=p_.split(' ')[0:4])))
        if f == 0.0:
            cases.append((f'{cid}.{bi}', f'rtree_okb true {refill} {coq_rtree(root)}'))
        else:
            parts = [f"leaf_okb {coq_bool(root['kind'] == 'leaf')} {refill} {nl(l['ids'])} {nl(l['kept'])} {nl(l['moved'])} {l['nval']}" for l in leaves]
            cases.append((f'{cid}.{bi}', ' && '.join(parts)))
        meta[f'{cid}.{bi}'] = dict(desc, build=bi)
        out.append([(len(l['ids']), len(l['kept']), len(l['moved']), l['nval']) for l in leaves])
    return out


BOUNDARY_METHODS = ['fixed_vector', 'random', 'pca', 'top_vector_agop_on_subset', 'rf_criterion', 'random_pca', 'linear', 'random_agop_on_subset', 'random_global_agop']


def boundary_regime(ck, xr, rng, cases, meta):
    """The corners of the refill bound  min(max(refill_size - routed, 0), 20% of the leaf):  the refill size is placed AT a leaf's number of routed validation
    points (shortfall exactly 0: "none moved" — the inclusive end of the refill test), one below / one above it, and at / next to the point where the shortfall meets
    the 20% cap.  The routed count of a leaf is not known before the tree is built, so every configuration is fitted twice or more: a probe fit (default refill size
    1500) records how many of the caller's validation points each leaf receives, then the same data / seeds / options are refitted with refill_size = routed + s for the
    corner shortfalls s.  The splits made before the first leaf (build order) cannot depend on the refill size, so for the first leaf the corner is hit by construction;
    for later leaves it is hit whenever the split method draws no random numbers (counted).  Every refit goes through the same statement-level accounting as all fits."""
    nb = ck.n(8, 54)
    hits = 0
    for b in range(nb):
        method = BOUNDARY_METHODS[b % len(BOUNDARY_METHODS)]
        task = ['reg', 'class', 'reg2'][(b + b // 3) % 3]
        # leaves of 4..6 samples (20% rounds to 0 / 1), ~10 (20% = 1..2), and larger ones
        L = [12, 6, 30, 5, 20, 10, 40, 8][b % 8] if b % 16 != 11 else 4
        depth_mult = [2, 4, 8, 3][(b // 2) % 4]
        n = int(rng.integers(L * depth_mult // 2 + 1, L * depth_mult + 1))
        n = max(n, L + 1)                                   # at least one split: the refill rule applies to non-root leaves only
        d = int(rng.integers(2, 5))
        nv = [40, 12, 150, 25, 6, 80][b % 6]                # from a few to abundant routed validation points per leaf
        f = 0.1 if b % 7 == 5 else 0.0
        tree_iters = 1 if method == 'random_global_agop' else 0
        tied = method in ('rf_criterion', 'fixed_vector')
        X = xr.make_X('distinct_grid' if (b % 2 or tied) else 'random', n, d, rng)
        kwm = {}
        if method == 'fixed_vector':
            fv = np.zeros(d, dtype=np.float32); fv[(b // 9) % d] = 1.0
            kwm['fixed_vector'] = torch.tensor(fv)
        y = xr.make_y(task, X, rng)
        Xv = xr.make_X('distinct_grid' if tied else 'random', nv, d, rng)
        if tied:
            Xv[:, 0] = Xv[:, 0] * (n / nv) + 1.0 / 16.0      # spread over the range of the training coordinate, off the training grid (rows stay distinct from training rows)
        yv = xr.make_y(task, Xv, rng)
        Xt, yt = torch.tensor(X), torch.tensor(y)

        def fit(refill, cid, extra):
            desc = dict(i=f'b{b}', regime='refill size at / next to the routed count of a leaf', task=task, n=n, L=L, d=d, refill=refill, nval=nv, f=f, method=method,
                        tree_iters=tree_iters, tied_projections=tied, constant_direction=False, agop_budget=None, n_trees=1, seed=ck.seed, **extra)
            xr.seed_all(7700 + b + ck.seed)
            model = xr.xRFM(rfm_params=xr.default_rfm_params(iters=(1 if tree_iters else 0), reg=1e-2), max_leaf_size=L, split_method=method, overlap_fraction=f, verbose=False,
                            use_temperature_tuning=False, refill_size=refill, n_tree_iters=tree_iters, n_trees=1, **kwm)
            rec = xr.fit_recorded(model, Xt, yt, torch.tensor(Xv), torch.tensor(yv), timeout=120, tolerate_empty_val=True)
            if rec.error is not None:
                ck.notes.append(f'fit error {rec.error} on {desc}')
                ck.violation(f'fit did not return ({rec.error}) on {desc}', dict(desc, error=rec.error), key=json.dumps(dict(site='fit', error=rec.error[0])))
                return None
            return account(ck, xr, rec, model, desc, yt, cases, meta, cid)

        probe = fit(1500, f'b{b}.p', dict(probe=True))
        if not probe or len(probe[0]) < 2:
            ck.count('boundary regime: probe fit has a single leaf (no refill to place)')
            continue
        leaves0 = probe[0]                                  # first build of the tree
        t = 0 if b % 2 == 0 else (b // 2) % len(leaves0)    # even: the first leaf (reproduced by construction); odd: any leaf
        # received samples and routed validation points of the target leaf
        m0, c0 = leaves0[t][0], leaves0[t][3]
        q = m0 // 5
        shortfalls = [0] + list([(-1, 1), (q, q + 1), (1, q - 1)][b % 3])
        for s in dict.fromkeys(shortfalls):
            refill = c0 + s
            if refill < 1:
                continue                                     # the property quantifies over refill sizes from 1
            got = fit(refill, f'b{b}.s{s}'.replace('-', 'm'), dict(probe=False, target_leaf=t, target_received=m0, target_routed=c0, shortfall=s))
            if not got:
                continue
            reproduced = len(got[0]) > t and got[0][t][0] == m0 and got[0][t][3] == c0
            ck.count('boundary regime: target leaf reproduced' if reproduced else 'boundary regime: target leaf not reproduced (random split method, later leaf)')
            for (m, k, mv, c) in got[0]:
                if c == refill:
                    hits += 1; ck.count(f'boundary regime: leaf with routed == refill size ({"leaf >= 5" if m >= 5 else "leaf < 5"})')
                elif refill - c == m // 5 and m >= 5:
                    ck.count('boundary regime: leaf with shortfall == 20% cap')
                elif abs(refill - c) == 1:
                    ck.count('boundary regime: leaf with |shortfall| == 1')
    ck.notes.append(f'boundary regime: {hits} leaves received exactly refill_size routed validation points')


def run(ck):
    from harness import xr
    ck.rule = ('real xRFM.fit with a recording RFM subclass and a recording wrapper around _build_tree; rows pairwise distinct so every '
               'row of a leaf-fit argument maps back to its original index; the recorded tree is checked by the Coq local checker rtree_okb '
               '(whose soundness for global exactly-once accounting is the theorem) and by a direct set-level oracle; '
               'non-trivial = at least one split and at least one leaf with a refill; distinct by hash of config + leaf sizes')
    ck.trusted += ['Coq 8.16.1 kernel + vm_compute', 'harness/xr.py recorders', 'row -> index lookup by exact bytes']
    ck.assumptions += ['torch.randperm returns a permutation', 'training rows pairwise distinct (the property\'s precondition)',
                       'every leaf has a non-empty validation set (the property\'s proviso): leaf sizes >= 5']
    ck.check_theorems()
    from harness import splitarith
    splitarith.check_translation(ck)
    rng = np.random.default_rng(ck.seed + 707)
    nfits = ck.n(27, 200)
    cases = []
    meta = {}
    for i in range(nfits):
        task = ['reg', 'class', 'reg2'][i % 3]
        L = int(rng.integers(10, 40))
        n = int(rng.integers(L + 1, min(16 * L, 420))) if i % 8 else int(rng.integers(min(6, L), L + 1))   # every 8th: single leaf
        d = int(rng.integers(2, 5))
        refill = int(rng.choice([1, 2, 3, 5, 8, 15, 40, 1500]))
        nv = int(rng.choice([0, 1, 3, 10, 40, 150]))
        if i % 10 == 7:
            # tiny leaves (fewer than five samples: 20% of the leaf rounds down to none) that do receive routed validation points, fewer than the refill size
            L = [3, 4][(i // 10) % 2]; n = int(rng.integers(10, 36)); nv = 40; refill = int(rng.choice([15, 40, 1500]))
        if i % 10 in (2, 5, 8):
            L = 14; n = int(rng.choice([160, 176, 192, 208, 224])); refill = int(rng.choice([3, 5])); nv = int(rng.choice([0, 3]))          # sixteen leaves of 10-14 samples: 20% = 2
        f = 0.0 if i % 6 else 0.1
        method = ['top_vector_agop_on_subset', 'random_pca', 'linear', 'pca', 'rf_criterion', 'random', 'random_agop_on_subset', 'random_global_agop',
                  'fixed_vector'][i % 9]
        tree_iters = [1, 2][(i // 9) % 2] if method == 'random_global_agop' else 0
        if tree_iters and (i // 9) % 3 == 2:
            n = int(rng.integers(min(6, L), L + 1))             # single-leaf tree that is rebuilt
            refill = int(rng.choice([40, 1500])); nv = 3        # (a refill would apply if the leaf were not the whole tree)
        if tree_iters:
            nv = max(nv, 3)                                     # every build is scored on the caller's validation set
        # axis-aligned splits on grid data: rows pairwise distinct (the property's precondition) but projections massively tied
        tied = method in ('rf_criterion', 'fixed_vector')
        X = xr.make_X('distinct_grid' if (i % 2 or tied) else 'random', n, d, rng)
        kwm = {}
        if method == 'fixed_vector':
            fv = np.zeros(d, dtype=np.float32); fv[1 + (i // 9) % (d - 1)] = 1.0      # a coordinate with ~33 distinct values
            kwm['fixed_vector'] = torch.tensor(fv)
        # a split direction that is CONSTANT on the training rows (the axis of an intercept column): no split can be made, the tree is a single leaf — and a single leaf keeps
        # all its samples (rows stay pairwise distinct)
        const_dir = (i % 14 == 6)
        if const_dir:
            method = 'fixed_vector'; X = xr.make_X('random', n, d, rng); X[:, 0] = 1.0
            fv = np.zeros(d, dtype=np.float32); fv[0] = 1.0; kwm = dict(fixed_vector=torch.tensor(fv)); tree_iters = 0
            refill = int(rng.choice([15, 40, 1500])); nv = int(rng.choice([0, 3, 10]))
        y = xr.make_y(task, X, rng)
        many_classes = (i % 10 in (2, 5, 8))
        if many_classes:
            # four to six classes with skewed frequencies and leaves of 8-14 samples: whatever rule picks the rows that are moved, their NUMBER is bounded as stated
            task = 'class'; Kc = [4, 4, 5][(i // 10) % 3]; pc = np.array([3.0, 3.0, 3.0] + [1.0] * (Kc - 3)); y = rng.choice(Kc, size=n, p=pc / pc.sum()).astype(np.int64); y[:Kc] = np.arange(Kc)
        Xv = xr.make_X('distinct_grid' if tied else 'random', max(nv, 0), d, rng) + 100.0 * (nv == 0)   # grid: validation rows tie with thresholds
        yv = xr.make_y(task, Xv, rng) if nv > 0 else y[:0]
        if many_classes and nv > 0:
            yv = rng.integers(0, Kc, size=nv).astype(np.int64)
        if nv == 0:
            Xv = Xv[:0]
        desc = dict(i=i, task=task, n=n, L=L, d=d, refill=refill, nval=nv, f=f, method=method, tree_iters=tree_iters, tied_projections=tied, constant_direction=const_dir, agop_budget=(7 if i % 5 == 2 else None), n_trees=(3 if (i % 4 == 1 and not tree_iters) else 1), seed=ck.seed)
        # proviso of the property: every leaf must end up with a non-empty validation set.
        xr.seed_all(7000 + i + ck.seed)
        leaf_params = xr.default_rfm_params(iters=(1 if (tree_iters or i % 5 == 2) else 0), reg=1e-2)
        if i % 5 == 2:
            leaf_params['fit']['total_points_to_sample'] = 7        # AGOP sampling budget below the leaf size (leaves of more than 7 rows)
        model = xr.xRFM(rfm_params=leaf_params, max_leaf_size=L, split_method=method,
                        overlap_fraction=f, verbose=False, use_temperature_tuning=False, refill_size=refill, n_tree_iters=tree_iters,
                        n_trees=(3 if (i % 4 == 1 and not tree_iters) else 1), **kwm)        # every fourth fit builds an ensemble: the refill rule holds in EVERY tree
        Xt, yt = torch.tensor(X), torch.tensor(y)
        rec = xr.fit_recorded(model, Xt, yt, torch.tensor(Xv), torch.tensor(yv), timeout=120, tolerate_empty_val=True)
        if rec.error is not None:
            ck.notes.append(f'fit error {rec.error} on {desc}')
            ck.violation(f'fit did not return ({rec.error}) on {desc}', dict(desc, error=rec.error),
                         key=json.dumps(dict(site='fit', error=rec.error[0])))
            continue
        account(ck, xr, rec, model, desc, yt, cases, meta, str(i))
    boundary_regime(ck, xr, rng, cases, meta)
    res = ck.run_bool_cases('acct', HEADER, cases, shard=25)
    bad = [meta[k] for k, v in res.items() if v is not True]
    ck.obligation(f'correspondence: recorded trees of {len(cases)} real fits pass the Coq local checker rtree_okb', 'correspondence',
                  not bad, f'first mismatches: {bad[:4]}')
