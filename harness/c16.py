"""C16 — Tuning metrics are correct and their optimisation direction is truthful."""
import json, math
from fractions import Fraction
import numpy as np
import torch
from harness.common import *

HEADER = '''From Coq Require Import QArith List Bool Arith.
Require Import XV.Model.Tree XV.Model.Soft XV.Model.Labels XV.Model.Metrics.
Import ListNotations. Open Scope Q_scope.
Definition rel_close (tol a b : Q) : bool := Qclose (tol * (1 + Qabs.Qabs b)) a b.
'''
RHEADER = '''From Coq Require Import Reals List.
From Interval Require Import Tactic.
Open Scope R_scope.
'''


def nl(xs):
    return coq_list([coq_nat(v) for v in xs])


# ---- textbook definitions written independently in exact arithmetic (oracle) ----
def o_mse(t, p): return sum((Fraction(float(a)) - Fraction(float(b))) ** 2 for a, b in zip(t.ravel(), p.ravel())) / t.size
def o_mae(t, p): return sum(abs(Fraction(float(a)) - Fraction(float(b))) for a, b in zip(t.ravel(), p.ravel())) / t.size
def o_acc(y, P): return Fraction(int(np.sum(P.argmax(1) == y)), len(y))
def o_brier(y, P):
    K = P.shape[1]; return sum((Fraction(int(y[i] == k)) - Fraction(float(P[i, k]))) ** 2 for i in range(len(y)) for k in range(K)) / (len(y) * K)
def o_f1c(c, y, yh):
    tp = int(np.sum((y == c) & (yh == c))); fp = int(np.sum((y != c) & (yh == c))); fn = int(np.sum((y == c) & (yh != c)))
    return Fraction(0) if 2 * tp + fp + fn == 0 else Fraction(2 * tp, 2 * tp + fp + fn)
def o_f1(y, P):
    K = P.shape[1]; yh = P.argmax(1)
    return o_f1c(1, y, yh) if K == 2 else sum(o_f1c(c, y, yh) for c in range(K)) / K
def o_aucc(c, y, P):
    pos = [Fraction(float(v)) for v in P[y == c, c]]; neg = [Fraction(float(v)) for v in P[y != c, c]]
    s = sum((1 if a > b else (Fraction(1, 2) if a == b else 0)) for a in pos for b in neg)
    return Fraction(s) / (len(pos) * len(neg))
def o_auc(y, P):
    K = P.shape[1]
    return o_aucc(1, y, P) if K == 2 else sum(o_aucc(c, y, P) for c in range(K)) / K
def o_logloss(y, P): return -sum(math.log(float(P[i, y[i]])) for i in range(len(y))) / len(y)


def _is_finite(v):
    return isinstance(v, (int, float)) and math.isfinite(v)


def nonfinite(ck, name, v, where, replay, regime='generated'):
    """A metric value that is not a finite number is a wrong VALUE (every textbook definition in the quantifier is a finite rational / logarithm
    of entries >= 1e-6) and it defeats every score comparison of the library (NaN compares False both ways): report the input, never crash on it."""
    if _is_finite(v):
        return False
    ck.violation(f'{name} returned the non-finite value {v!r} on {where}', dict(replay, metric=name, got=repr(v)), key=json.dumps(dict(site='non-finite', metric=name, regime=regime)))
    return True


def confusion(y, yh, K):
    C = np.zeros((K, K), dtype=int)
    for a, b in zip(y, yh):
        C[int(a), int(b)] += 1
    return C.tolist()


# ---- predictions designed through their confusion matrix (rows = true class, columns = predicted class) ----
CONF_PATTERNS = ('hit-never', 'once-wrong', 'swap', 'never-predicted', 'precision-one', 'recall-one', 'shift', 'one-hit', 'sparse')
CONF_STYLES = ('sharp', 'soft', 'margin', 'float64')


def conf_counts(rng, K, profile):
    """per-class number of targets (every class present)"""
    if profile == 0:
        m = rng.integers(2, 5, size=K)                       # small
    elif profile == 1:
        m = np.ones(K, dtype=int); m[rng.integers(0, K)] = 2  # (almost) one target per class
    elif profile == 2:
        m = rng.integers(3, 10, size=K)                      # medium
    else:
        m = rng.integers(1, 3, size=K); m[rng.integers(0, K)] = int(rng.integers(25, 41))   # one dominant class
    return [int(v) for v in m]


def conf_matrix(rng, K, m, pat, c):
    """A K x K count matrix with row sums m whose per-class counts sit on the corners of the F1 / precision / recall definitions:
    TP_c = 0 with FP_c > 0 (predicted, never correctly), FP_c = 0, FN_c = 0, an empty column (never predicted), all diagonal entries 0, ..."""
    C = np.diag(m).astype(int)
    others = [d for d in range(K) if d != c]

    def scatter(row, cnt, targets):               # move cnt of row's correct predictions to the given wrong classes
        for j in range(cnt):
            C[row, row] -= 1; C[row, targets[j % len(targets)]] += 1
    if pat in ('hit-never', 'once-wrong'):
        spread = others if rng.random() < 0.5 else [others[0]]
        scatter(c, m[c], spread)                                # class c is never recognised ...
        fps = 1 if pat == 'once-wrong' else int(rng.integers(1, 4))
        donors = sorted(others, key=lambda d: -m[d])
        for j in range(fps):                                    # ... but it IS predicted, for targets of other classes
            d = donors[j % len(donors)]
            if C[d, d] > 0 and (C[d, d] > 1 or j == 0):
                C[d, d] -= 1; C[d, c] += 1
        if C[:, c].sum() == 0:
            d = donors[0]; C[d, d] -= 1; C[d, c] += 1
    elif pat == 'swap':
        d = others[0]
        C[c, c] = 0; C[c, d] = m[c]; C[d, d] = 0; C[d, c] = m[d]
    elif pat == 'never-predicted':
        scatter(c, m[c], others)
    elif pat == 'precision-one':
        scatter(c, max(1, m[c] // 2) if m[c] > 1 else 0, others)
        for d in others[:1]:
            rest = [e for e in range(K) if e not in (d, c)]
            if C[d, d] > 1 and rest: scatter(d, 1, rest)
    elif pat == 'recall-one':
        for d in others:
            if C[d, d] > 0: scatter(d, int(rng.integers(1, C[d, d] + 1)), [c])
    elif pat == 'shift':
        sft = 1 + (c % (K - 1))
        C = np.zeros((K, K), dtype=int)
        for a in range(K): C[a, (a + sft) % K] = m[a]
    elif pat == 'one-hit':
        C = np.zeros((K, K), dtype=int)
        for a in range(K): C[a, a if a == c else (a + 1) % K] = m[a]
    else:                                                       # sparse random confusion: many structural zeros, also on the diagonal
        C = np.zeros((K, K), dtype=int)
        for a in range(K):
            for j in range(m[a]):
                C[a, int(rng.integers(0, K)) if rng.random() < 0.6 else a] += 1
            if rng.random() < 0.4 and C[a, a] > 0:
                C[a, (a + 1) % K] += C[a, a]; C[a, a] = 0
    assert (C >= 0).all() and C.sum(1).tolist() == list(m), (pat, C, m)
    return C


def conf_labels(rng, C):
    K = C.shape[0]
    y = np.array([a for a in range(K) for b in range(K) for _ in range(C[a, b])], dtype=np.int64)
    yh = np.array([b for a in range(K) for b in range(K) for _ in range(C[a, b])], dtype=np.int64)
    perm = rng.permutation(len(y))
    return y[perm], yh[perm]


def conf_probas(rng, yh, K, style):
    """valid probability rows (entries >= 1e-6) whose unique arg-max is the designed label"""
    n = len(yh); r = np.arange(n)
    if style == 'sharp':
        P = np.full((n, K), 1e-6); P[r, yh] = 1.0 - (K - 1) * 1e-6
    elif style == 'margin':                     # the winner leads by a margin far above float32 resolution, far below a confident prediction
        P = np.full((n, K), 1.0) + 0.01 * rng.integers(0, 3, size=(n, K)); P[r, yh] = 1.0 + 0.01 * 2 + 0.01 * rng.integers(1, 4, size=n)
        P /= P.sum(1, keepdims=True)
    else:
        P = rng.uniform(0.05, 0.2, size=(n, K)); P[r, yh] = 0.55 + rng.uniform(0.0, 0.3, size=n)
        P /= P.sum(1, keepdims=True)
    P = P.astype(np.float64 if style == 'float64' else np.float32)
    assert (P.argmax(1) == yh).all() and (P >= 1e-6).all()
    top2 = np.sort(P, axis=1)[:, -2:]
    assert ((top2[:, 1] - top2[:, 0]) > 1e-4).all()
    return P


def run(ck):
    from harness import xr
    from xrfm.rfm_src.metrics import Metric
    ck.rule = ('Metric.from_name(n).compute on perfect, constant, adversarial (all wrong), tied-score and random arrays (1-3 outputs / 2-5 classes, all '
               'classes present, probabilities >= 1e-6) for all 8 metrics vs the Coq Q model (vm_compute; rmse via its square, log-loss by an interval '
               'lemma) and vs exact textbook definitions; direction flags exhaustively; perfect predictions vs the others in the declared direction. '
               'Predictions designed through their confusion matrix (a class predicted but never correctly, predicted once wrongly, swapped classes, never predicted, '
               'precision 1, recall 1, shifts, sparse) x 2-5 classes x size profiles x probability styles, all 5 classification metrics vs the exact definitions; a non-finite value is a violation. '
               'non-trivial = non-constant predictions; distinct by hash of the arrays')
    ck.trusted += ['Coq 8.16.1 kernel + vm_compute', 'Interval 4.6.1 for ln', 'exact Fraction re-statement of the textbook definitions']
    ck.assumptions += ['float32 metric arithmetic compared within 2e-6 relative (+1e-7)', 'sklearn clips log-loss probabilities only below 1e-6 (outside the quantifier)']
    ck.check_theorems()
    from harness import metricops
    metricops.check_translation(ck)
    rng = np.random.default_rng(ck.seed + 1616)
    flags = dict(mse=False, rmse=False, mae=False, accuracy=True, brier=False, logloss=False, f1=True, auc=True)
    ctor = dict(mse='Mse', rmse='Rmse', mae='Mae', accuracy='Accuracy', brier='Brier', logloss='Logloss', f1='F1', auc='Auc')
    cases = []
    bad_flags = [n for n, f in flags.items() if Metric.from_name(n).should_maximize != f]
    for n, f in flags.items():
        cases.append((f'flag-{n}', f'Bool.eqb (should_maximize {ctor[n]}) {coq_bool(Metric.from_name(n).should_maximize)}'))
        ck.case(dict(kind='flag', metric=n, value=Metric.from_name(n).should_maximize))
    if bad_flags:
        ck.violation(f'should_maximize flag wrong for {bad_flags}', dict(metrics=bad_flags), key='flags')
    lemmas = []
    # ---------- regression metrics ----------
    for k in range(ck.n(40, 400)):
        n = int(rng.integers(1, 12)); m = int(rng.integers(1, 4))
        T = np.round(rng.standard_normal((n, m)) * 4, 2).astype(np.float32)
        kind = ['random', 'perfect', 'constant', 'far'][k % 4]
        P = dict(random=np.round(T + rng.standard_normal((n, m)), 2), perfect=T.copy(), constant=np.full((n, m), 0.5),
                 far=T + 1e3)[kind].astype(np.float32)
        tt, pp = torch.tensor(T), torch.tensor(P)
        for name, orc in (('mse', o_mse), ('mae', o_mae), ('rmse', o_mse)):
            v = Metric.from_name(name).compute(y_true_reg=tt, y_pred=pp)
            want = orc(T, P)
            wantf = math.sqrt(want) if name == 'rmse' else float(want)
            ck.case(dict(metric=name, kind=kind, T=T.tolist(), P=P.tolist(), value=v), nontrivial=kind != 'perfect', sample=(k == 0))
            ck.count(f'{name}:{kind}')
            if nonfinite(ck, name, v, f'targets {T.tolist()} predictions {P.tolist()} (kind {kind}; textbook value {wantf})', dict(T=T.tolist(), P=P.tolist(), want=wantf)):
                continue
            if abs(v - wantf) > 3e-6 * (1 + abs(wantf)):
                ck.violation(f'{name} returned {v}, textbook value {wantf} (kind {kind})', dict(metric=name, T=T.tolist(), P=P.tolist(), got=v, want=wantf),
                             key=json.dumps(dict(site='value', metric=name)))
            if kind == 'perfect' and v != 0.0:
                ck.violation(f'{name} of perfect predictions is {v}, not 0', dict(metric=name, T=T.tolist()), key=json.dumps(dict(site='perfect', metric=name)))
            if v < 0:
                ck.violation(f'{name} negative: {v}', dict(metric=name), key='negative')
            if name == 'rmse':
                cases.append((f'r{k}{name}', f'rel_close (8#1000000) ({coq_Q(v)} * {coq_Q(v)}) (mse {coq_Qmat(T.tolist())} {coq_Qmat(P.tolist())}) && Qle_bool 0 {coq_Q(v)}'))
            else:
                cases.append((f'r{k}{name}', f'rel_close (3#1000000) {coq_Q(v)} ({name} {coq_Qmat(T.tolist())} {coq_Qmat(P.tolist())})'))
    # ---------- integer-typed regression targets (count data held as int64 / int32 tensors) with float predictions: the residual is a float ----------
    irng = np.random.default_rng(ck.seed + 1661)
    for k in range(ck.n(12, 60)):
        n = int(irng.integers(2, 10)); m = int(irng.integers(1, 3))
        Ti = irng.integers(-5, 9, size=(n, m)); Pi = (Ti + irng.choice([63 / 64, -1 / 64, 0.5, -0.75, 0.25], size=(n, m))).astype(np.float32)
        for idt in (torch.int64, torch.int32):
            for name, orc in (('mse', o_mse), ('mae', o_mae), ('rmse', o_mse)):
                try:
                    v = float(Metric.from_name(name).compute(y_true_reg=torch.tensor(Ti, dtype=idt), y_pred=torch.tensor(Pi)))
                except Exception as e:
                    ck.count(f'{name}: integer-typed targets rejected ({type(e).__name__})'); continue       # rejecting them is not a wrong value
                want = orc(Ti.astype(np.float32), Pi); wantf = math.sqrt(want) if name == 'rmse' else float(want)
                ck.case(dict(metric=name, kind='integer targets', dtype=str(idt), T=Ti.tolist(), P=Pi.tolist(), value=v), nontrivial=True); ck.count(f'{name}:integer-typed targets')
                if nonfinite(ck, name, v, f'{idt} targets {Ti.tolist()} with float predictions {Pi.tolist()} (textbook value {wantf})', dict(T=Ti.tolist(), P=Pi.tolist(), want=wantf, dtype=str(idt))):
                    continue
                if abs(v - wantf) > 3e-6 * (1 + abs(wantf)):
                    ck.violation(f'{name} returned {v} on {idt} targets {Ti.tolist()} with float predictions {Pi.tolist()}, textbook value {wantf}',
                                 dict(metric=name, T=Ti.tolist(), P=Pi.tolist(), got=v, want=wantf, dtype=str(idt)), key=json.dumps(dict(site='value', metric=name, kind='integer-targets')))
    # ---------- large validation sets: more rows than any internal block size, not a multiple of a power of two; residuals concentrated in the last rows ----------
    for nbig in (32_773, 70_001):
        for mcols in (1, 2):
            Tb = np.round(rng.standard_normal((nbig, mcols)), 2).astype(np.float32)
            Pb = Tb.copy(); Pb[-5:] += 4.0; Pb[: nbig // 3] += 0.25
            tb, pb = torch.tensor(Tb), torch.tensor(Pb)
            for name, orc in (('mse', o_mse), ('mae', o_mae), ('rmse', o_mse)):
                v = float(Metric.from_name(name).compute(y_true_reg=tb, y_pred=pb))
                dd = (Pb.astype(np.float64) - Tb.astype(np.float64))
                wantf = float(np.mean(dd ** 2)) if name == 'mse' else (float(np.sqrt(np.mean(dd ** 2))) if name == 'rmse' else float(np.mean(np.abs(dd))))
                ck.case(dict(metric=name, kind='large', n=nbig, m=mcols, value=v), nontrivial=True); ck.count(f'{name}:large validation set')
                if not abs(v - wantf) <= 2e-5 * (1 + abs(wantf)):
                    ck.violation(f'{name} returned {v} on {nbig} rows x {mcols} outputs, textbook value {wantf} (residuals: +0.25 on the first third, +4 on the last 5 rows)',
                                 dict(metric=name, n=nbig, m=mcols, got=v, want=wantf), key=json.dumps(dict(site='value-large', metric=name)))
            yb = rng.integers(0, 3, size=nbig); yb[:3] = np.arange(3)
            Rb = rng.random((nbig, 3)).astype(np.float32) + 0.05; Rb[-7:] = np.eye(3, dtype=np.float32)[(yb[-7:] + 1) % 3] + 1e-3
            Pc = (Rb / Rb.sum(1, keepdims=True)).astype(np.float32)
            for name, orc in (('accuracy', o_acc), ('brier', o_brier), ('logloss', o_logloss)):
                v = float(Metric.from_name(name).compute(y_true_class=torch.tensor(yb), y_pred_proba=torch.tensor(Pc)))
                wantf = float(orc(yb, Pc))
                ck.case(dict(metric=name, kind='large', n=nbig, value=v), nontrivial=True); ck.count(f'{name}:large validation set')
                if not abs(v - wantf) <= 5e-5 * (1 + abs(wantf)):
                    ck.violation(f'{name} returned {v} on {nbig} rows, textbook value {wantf}', dict(metric=name, n=nbig, got=v, want=wantf), key=json.dumps(dict(site='value-large', metric=name)))
    # ---------- classification metrics ----------
    for k in range(ck.n(50, 500)):
        K = int(rng.integers(2, 6)); n = int(rng.integers(K, 14))
        y = rng.integers(0, K, size=n); y[:K] = np.arange(K); rng.shuffle(y)
        kind = ['random', 'perfect', 'constant', 'adversarial', 'ties', 'saturated', 'confident'][k % 7]
        if kind == 'random':
            R = rng.random((n, K)) + 0.05
        elif kind == 'perfect':
            R = np.full((n, K), 1e-3); R[np.arange(n), y] = 1.0
        elif kind == 'constant':
            R = np.ones((n, K))
        elif kind == 'adversarial':
            R = np.full((n, K), 1e-3); R[np.arange(n), (y + 1) % K] = 1.0
        elif kind == 'ties':
            R = np.round(rng.random((n, K)) * 2) + 0.5          # many equal scores
        elif kind == 'confident':
            # confident and (almost) correct, but not one-hot: 1 - eps on the true class, one row in every few wrong; the true Brier score is of order eps^2
            eps_c = [1e-2, 1e-3, 1e-4][(k // 7) % 3]
            R = np.full((n, K), eps_c / (K - 1)); R[np.arange(n), y] = 1.0 - eps_c
            if (k // 21) % 2:
                R[0] = np.full(K, 0.3 / (K - 1)); R[0, (y[0] + 1) % K] = 0.7
        else:
            R = np.round(rng.random((n, K)), 1) * 0.999 + 1e-3
        P = (R / R.sum(1, keepdims=True)).astype(np.float32)
        P = np.maximum(P, 1e-6).astype(np.float32)
        yt, pt = torch.tensor(y), torch.tensor(P)
        for name, orc in (('accuracy', o_acc), ('brier', o_brier), ('f1', o_f1), ('auc', o_auc), ('logloss', o_logloss)):
            try:
                v = float(Metric.from_name(name).compute(y_true_class=yt, y_pred_proba=pt))
            except Exception as e:
                ck.violation(f'{name} raised {e!r} on valid input (all classes present)', dict(metric=name, y=y.tolist(), P=P.tolist()),
                             key=json.dumps(dict(site='raise', metric=name))); continue
            want = float(orc(y, P))
            ck.case(dict(metric=name, kind=kind, y=y.tolist(), P=P.tolist(), value=v), nontrivial=kind not in ('perfect',), sample=(k == 4 and name == 'auc'))
            ck.count(f'{name}:{kind}')
            if nonfinite(ck, name, v, f'y_true={y.tolist()} predicted labels (arg-max of the probabilities)={P.argmax(1).tolist()} (K={K}, kind {kind}, confusion matrix '
                                      f'rows=true cols=predicted {confusion(y, P.argmax(1), K)}); textbook value {want}', dict(y=y.tolist(), P=P.tolist(), want=want, kind=kind)):
                continue
            tol = 3e-6 * (1 + abs(want)) if name != 'logloss' else 2e-5 * (1 + abs(want))
            if name == 'brier':
                tol = 5e-6 * abs(want) + 1e-13         # a mean of squares of exactly representable residuals: every partial result carries a RELATIVE rounding error only
            if name in ('brier', 'logloss') and v < 0:
                ck.violation(f'{name} is negative: {v} (textbook value {want}; kind {kind}, K={K})', dict(metric=name, y=y.tolist(), P=P.tolist(), got=v, want=want),
                             key=json.dumps(dict(site='negative', metric=name)))
            if not abs(v - want) <= tol:
                ck.violation(f'{name} returned {v}, textbook value {want} (kind {kind}, K={K})', dict(metric=name, y=y.tolist(), P=P.tolist(), got=v, want=want),
                             key=json.dumps(dict(site='value', metric=name, kind=kind)))
            # history: the same metric evaluated again on OTHER labels that live at the same address (a label buffer refilled in place between
            # folds, wrapped again: same data pointer, shape, dtype) — the value is a function of the contents, whatever was evaluated before
            if k % 2 == 0:
                ybuf = y.copy()
                try:
                    Metric.from_name(name).compute(y_true_class=torch.from_numpy(ybuf), y_pred_proba=pt)
                    y2 = np.roll(y, 1) if len(set(np.roll(y, 1).tolist()) ^ set(y.tolist())) == 0 and not np.array_equal(np.roll(y, 1), y) else y[::-1].copy()
                    ybuf[:] = y2
                    v2 = float(Metric.from_name(name).compute(y_true_class=torch.from_numpy(ybuf), y_pred_proba=pt))
                    want2 = float(orc(y2, P))
                    ck.count(f'{name}: refilled label buffer')
                    tol2 = (5e-6 * abs(want2) + 1e-13) if name == 'brier' else (3e-6 * (1 + abs(want2)) if name != 'logloss' else 2e-5 * (1 + abs(want2)))
                    if nonfinite(ck, name, v2, f'y_true={y2.tolist()} predicted labels (arg-max of the probabilities)={P.argmax(1).tolist()} (K={K}, kind {kind}, labels written into a '
                                              f'reused buffer); textbook value {want2}', dict(y=y2.tolist(), y_first=y.tolist(), P=P.tolist(), want=want2, kind=kind), regime='reused-buffer'):
                        pass
                    elif not abs(v2 - want2) <= tol2:
                        ck.violation(f'{name} returned {v2} on labels written into a reused buffer, textbook value {want2} (the previous evaluation used other labels at the same address; kind {kind}, K={K})',
                                     dict(metric=name, y_first=y.tolist(), y=y2.tolist(), P=P.tolist(), got=v2, want=want2), key=json.dumps(dict(site='value-reused-buffer', metric=name)))
                except Exception as e:
                    ck.violation(f'{name} raised {e!r} on a reused label buffer', dict(metric=name, y=y.tolist(), P=P.tolist()), key=json.dumps(dict(site='raise', metric=name)))
            # perfect predictions score at least as well, in the declared direction, as these predictions
            R2 = np.full((n, K), 1e-6, dtype=np.float32); R2[np.arange(n), y] = 1.0 - (K - 1) * 1e-6
            vp = float(Metric.from_name(name).compute(y_true_class=yt, y_pred_proba=torch.tensor(R2)))
            # predictions IDENTICAL to the targets (exact one-hot rows; log-loss excepted: entries below 1e-6 are outside its domain) score at least as well as both
            if name != 'logloss':
                vt = float(Metric.from_name(name).compute(y_true_class=yt, y_pred_proba=torch.tensor(np.eye(K, dtype=np.float32)[y])))
                for other, vo in (('these predictions', v), ('near-perfect predictions (1e-6 off one-hot)', vp)):
                    if not ((vt >= vo) if flags[name] else (vt <= vo)):          # negated form: a NaN score fails it
                        ck.violation(f'{name}: predictions identical to the targets score {vt}, {other} score {vo}: they are ranked BETTER than the targets themselves '
                                     f'(direction flag {flags[name]})', dict(metric=name, y=y.tolist(), P=P.tolist(), identical=vt, other=vo),
                                     key=json.dumps(dict(site='direction-identical', metric=name)))
            if not ((vp >= v - 1e-9) if flags[name] else (vp <= v + 1e-9)):
                ck.violation(f'{name}: perfect predictions score {vp}, these predictions score {v}: direction flag {flags[name]} is not truthful',
                             dict(metric=name, y=y.tolist(), P=P.tolist()), key=json.dumps(dict(site='direction', metric=name)))
            if name == 'logloss':
                ps = [P[i, y[i]] for i in range(n)]
                terms = ' + '.join(f'ln {coq_R(float(q))}' for q in ps)
                lemmas.append((len(lemmas), f'Lemma ll_{len(lemmas)} : Rabs (- ({terms}) / {n} - {coq_R(v)}) <= {coq_R(2e-5 * (1 + abs(v)))}.\nProof. interval with (i_prec 50). Qed.'))
            else:
                cases.append((f'c{k}{name}', f'rel_close (3#1000000) {coq_Q(v)} ({name} {nl(y.tolist())} {coq_Qmat(P.tolist())})'))
    # ---------- predictions designed through their CONFUSION MATRIX: the corners of the per-class definitions ----------
    # (a class that is predicted but never correctly: TP = 0 with FP > 0 and FN > 0, i.e. precision = recall = 0; a class predicted exactly once, wrongly; two classes
    #  swapped wholesale; a class never predicted; precision exactly 1; recall exactly 1; every class shifted; only one class ever hit; sparse random confusion) for
    #  2..5 classes, four size profiles (one target per class .. one dominant class), four probability styles (1e-6-sharp, soft, small margin, float64 probabilities)
    import warnings
    crng = np.random.default_rng(ck.seed + 1667)
    NP = len(CONF_PATTERNS)
    for idx in range(ck.n(2 * 4 * NP, 12 * 4 * NP)):
        K = 2 + idx % 4; pat = CONF_PATTERNS[(idx // 4) % NP]; rnd = idx // (4 * NP)
        cfocus = (1 + rnd + (idx // 4)) % K                   # binary: the positive class first
        style = CONF_STYLES[(idx + idx // 4 + rnd) % 4]; profile = (idx // 4 + idx // 2 + rnd) % 4
        m = conf_counts(crng, K, profile)
        C = conf_matrix(crng, K, m, pat, cfocus)
        y, yh = conf_labels(crng, C)
        P = conf_probas(crng, yh, K, style)
        n = len(y); yt, pt = torch.tensor(y), torch.tensor(P)
        desc = (f'{K} classes, confusion matrix (rows=true, cols=predicted) {C.tolist()}' + (f', y_true={y.tolist()} predicted labels={yh.tolist()}' if n <= 16 else f', {n} rows')
                + f' [{pat}, focus class {cfocus}, {style} probabilities]')
        rep0 = dict(K=K, pattern=pat, focus_class=cfocus, style=style, confusion=C.tolist(), y=y.tolist(), predicted_labels=yh.tolist(), P=P.tolist(), P_dtype=str(P.dtype))
        eye = np.eye(K, dtype=P.dtype)[y]
        for name, orc in (('f1', o_f1), ('accuracy', o_acc), ('auc', o_auc), ('brier', o_brier), ('logloss', o_logloss)):
            want = float(orc(y, P))
            try:
                with warnings.catch_warnings():
                    warnings.simplefilter('ignore')
                    v = float(Metric.from_name(name).compute(y_true_class=yt, y_pred_proba=pt))
                    vt = float(Metric.from_name(name).compute(y_true_class=yt, y_pred_proba=torch.tensor(eye))) if name != 'logloss' else None
            except Exception as e:
                ck.violation(f'{name} raised {e!r} on {desc}', dict(rep0, metric=name), key=json.dumps(dict(site='raise', metric=name))); continue
            ck.case(dict(metric=name, kind='confusion:' + pat, y=y.tolist(), P=P.tolist(), value=v), nontrivial=True, sample=(idx == 0 and name == 'f1'))
            ck.count(f'{name}:confusion-designed {pat}')
            if nonfinite(ck, name, v, f'{desc}; textbook value {want}', dict(rep0, want=want), regime='confusion-designed'):
                continue
            tol = (5e-6 * abs(want) + 1e-13) if name == 'brier' else (3e-6 * (1 + abs(want)) if name != 'logloss' else 2e-5 * (1 + abs(want)))
            if not abs(v - want) <= tol:
                ck.violation(f'{name} returned {v}, textbook value {want}, on {desc}', dict(rep0, metric=name, got=v, want=want),
                             key=json.dumps(dict(site='value', metric=name, kind='confusion-designed')))
            if vt is not None and not ((vt >= v) if flags[name] else (vt <= v)):
                ck.violation(f'{name}: predictions identical to the targets score {vt}, these predictions score {v} (direction flag {flags[name]}): {desc}',
                             dict(rep0, metric=name, identical=vt, other=v), key=json.dumps(dict(site='direction-identical', metric=name)))
            if n <= 14 and name in ('f1', 'accuracy') and style != 'float64':
                cases.append((f'cf{idx}{name}', f'rel_close (3#1000000) {coq_Q(v)} ({name} {nl(y.tolist())} {coq_Qmat(P.tolist())})'))
    res = ck.run_bool_cases('metrics', HEADER, cases, shard=150)
    bad = [k for k, v in res.items() if v is not True]
    ck.obligation(f'correspondence: {len(cases)} Metric.compute values / flags == Coq Q model', 'correspondence', not bad, f'first mismatches: {bad[:8]}')
    sub = lemmas[: ck.n(24, 200)]
    res = ck.run_lemma_files('logloss', RHEADER, sub, shard=8)
    bad = [k for k, v in res.items() if not v]
    ck.obligation(f'correspondence: {len(sub)} log-loss values == -(1/n) sum ln p (interval-certified)', 'correspondence', not bad, f'failed lemma ids {bad[:5]}')
