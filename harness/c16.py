"""C16 — Tuning metrics are correct and their optimisation direction is truthful."""
import json, math
from fractions import Fraction
import numpy as np
import torch
from harness.common import *

HEADER = '''From Coq Require Import QArith List Bool Arith.
Require Import XV.Model.Tree XV.Model.Soft XV.Model.Labels XV.Model.Metrics.
Import ListNotations. Open Scope Q_scope.
Definition rel_close (tol a b : Q) : bool := Qclose (tol * (1 + Qabs.Qabs b)) a b.
'''
RHEADER = '''From Coq Require Import Reals List.
From Interval Require Import Tactic.
Open Scope R_scope.
'''


def nl(xs):
    return coq_list([coq_nat(v) for v in xs])


# ---- textbook definitions written independently in exact arithmetic (oracle) ----
def o_mse(t, p): return sum((Fraction(float(a)) - Fraction(float(b))) ** 2 for a, b in zip(t.ravel(), p.ravel())) / t.size
def o_mae(t, p): return sum(abs(Fraction(float(a)) - Fraction(float(b))) for a, b in zip(t.ravel(), p.ravel())) / t.size
def o_acc(y, P): return Fraction(int(np.sum(P.argmax(1) == y)), len(y))
def o_brier(y, P):
    K = P.shape[1]; return sum((Fraction(int(y[i] == k)) - Fraction(float(P[i, k]))) ** 2 for i in range(len(y)) for k in range(K)) / (len(y) * K)
def o_f1c(c, y, yh):
    tp = int(np.sum((y == c) & (yh == c))); fp = int(np.sum((y != c) & (yh == c))); fn = int(np.sum((y == c) & (yh != c)))
    return Fraction(0) if 2 * tp + fp + fn == 0 else Fraction(2 * tp, 2 * tp + fp + fn)
def o_f1(y, P):
    K = P.shape[1]; yh = P.argmax(1)
    return o_f1c(1, y, yh) if K == 2 else sum(o_f1c(c, y, yh) for c in range(K)) / K
def o_aucc(c, y, P):
    pos = [Fraction(float(v)) for v in P[y == c, c]]; neg = [Fraction(float(v)) for v in P[y != c, c]]
    s = sum((1 if a > b else (Fraction(1, 2) if a == b else 0)) for a in pos for b in neg)
    return Fraction(s) / (len(pos) * len(neg))
def o_auc(y, P):
    K = P.shape[1]
    return o_aucc(1, y, P) if K == 2 else sum(o_aucc(c, y, P) for c in range(K)) / K
def o_logloss(y, P): return -sum(math.log(float(P[i, y[i]])) for i in range(len(y))) / len(y)


def run(ck):
    from harness import xr
    from xrfm.rfm_src.metrics import Metric
    ck.rule = ('Metric.from_name(n).compute on perfect, constant, adversarial (all wrong), tied-score and random arrays (1-3 outputs / 2-5 classes, all '
               'classes present, probabilities >= 1e-6) for all 8 metrics vs the Coq Q model (vm_compute; rmse via its square, log-loss by an interval '
               'lemma) and vs exact textbook definitions; direction flags exhaustively; perfect predictions vs the others in the declared direction. '
               'non-trivial = non-constant predictions; distinct by hash of the arrays')
    ck.trusted += ['Coq 8.16.1 kernel + vm_compute', 'Interval 4.6.1 for ln', 'exact Fraction re-statement of the textbook definitions']
    ck.assumptions += ['float32 metric arithmetic compared within 2e-6 relative (+1e-7)', 'sklearn clips log-loss probabilities only below 1e-6 (outside the quantifier)']
    ck.check_theorems()
    from harness import metricops
    metricops.check_translation(ck)
    rng = np.random.default_rng(ck.seed + 1616)
    flags = dict(mse=False, rmse=False, mae=False, accuracy=True, brier=False, logloss=False, f1=True, auc=True)
    ctor = dict(mse='Mse', rmse='Rmse', mae='Mae', accuracy='Accuracy', brier='Brier', logloss='Logloss', f1='F1', auc='Auc')
    cases = []
    bad_flags = [n for n, f in flags.items() if Metric.from_name(n).should_maximize != f]
    for n, f in flags.items():
        cases.append((f'flag-{n}', f'Bool.eqb (should_maximize {ctor[n]}) {coq_bool(Metric.from_name(n).should_maximize)}'))
        ck.case(dict(kind='flag', metric=n, value=Metric.from_name(n).should_maximize))
    if bad_flags:
        ck.violation(f'should_maximize flag wrong for {bad_flags}', dict(metrics=bad_flags), key='flags')
    lemmas = []
    # ---------- regression metrics ----------
    for k in range(ck.n(40, 400)):
        n = int(rng.integers(1, 12)); m = int(rng.integers(1, 4))
        T = np.round(rng.standard_normal((n, m)) * 4, 2).astype(np.float32)
        kind = ['random', 'perfect', 'constant', 'far'][k % 4]
        P = dict(random=np.round(T + rng.standard_normal((n, m)), 2), perfect=T.copy(), constant=np.full((n, m), 0.5),
                 far=T + 1e3)[kind].astype(np.float32)
        tt, pp = torch.tensor(T), torch.tensor(P)
        for name, orc in (('mse', o_mse), ('mae', o_mae), ('rmse', o_mse)):
            v = Metric.from_name(name).compute(y_true_reg=tt, y_pred=pp)
            want = orc(T, P)
            wantf = math.sqrt(want) if name == 'rmse' else float(want)
            ck.case(dict(metric=name, kind=kind, T=T.tolist(), P=P.tolist(), value=v), nontrivial=kind != 'perfect', sample=(k == 0))
            ck.count(f'{name}:{kind}')
            if abs(v - wantf) > 3e-6 * (1 + abs(wantf)):
                ck.violation(f'{name} returned {v}, textbook value {wantf} (kind {kind})', dict(metric=name, T=T.tolist(), P=P.tolist(), got=v, want=wantf),
                             key=json.dumps(dict(site='value', metric=name)))
            if kind == 'perfect' and v != 0.0:
                ck.violation(f'{name} of perfect predictions is {v}, not 0', dict(metric=name, T=T.tolist()), key=json.dumps(dict(site='perfect', metric=name)))
            if v < 0:
                ck.violation(f'{name} negative: {v}', dict(metric=name), key='negative')
            if name == 'rmse':
                cases.append((f'r{k}{name}', f'rel_close (8#1000000) ({coq_Q(v)} * {coq_Q(v)}) (mse {coq_Qmat(T.tolist())} {coq_Qmat(P.tolist())}) && Qle_bool 0 {coq_Q(v)}'))
            else:
                cases.append((f'r{k}{name}', f'rel_close (3#1000000) {coq_Q(v)} ({name} {coq_Qmat(T.tolist())} {coq_Qmat(P.tolist())})'))
    # ---------- integer-typed regression targets (count data held as int64 / int32 tensors) with float predictions: the residual is a float ----------
    irng = np.random.default_rng(ck.seed + 1661)
    for k in range(ck.n(12, 60)):
        n = int(irng.integers(2, 10)); m = int(irng.integers(1, 3))
        Ti = irng.integers(-5, 9, size=(n, m)); Pi = (Ti + irng.choice([63 / 64, -1 / 64, 0.5, -0.75, 0.25], size=(n, m))).astype(np.float32)
        for idt in (torch.int64, torch.int32):
            for name, orc in (('mse', o_mse), ('mae', o_mae), ('rmse', o_mse)):
                try:
                    v = float(Metric.from_name(name).compute(y_true_reg=torch.tensor(Ti, dtype=idt), y_pred=torch.tensor(Pi)))
                except Exception as e:
                    ck.count(f'{name}: integer-typed targets rejected ({type(e).__name__})'); continue       # rejecting them is not a wrong value
                want = orc(Ti.astype(np.float32), Pi); wantf = math.sqrt(want) if name == 'rmse' else float(want)
                ck.case(dict(metric=name, kind='integer targets', dtype=str(idt), T=Ti.tolist(), P=Pi.tolist(), value=v), nontrivial=True); ck.count(f'{name}:integer-typed targets')
                if abs(v - wantf) > 3e-6 * (1 + abs(wantf)):
                    ck.violation(f'{name} returned {v} on {idt} targets {Ti.tolist()} with float predictions {Pi.tolist()}, textbook value {wantf}',
                                 dict(metric=name, T=Ti.tolist(), P=Pi.tolist(), got=v, want=wantf, dtype=str(idt)), key=json.dumps(dict(site='value', metric=name, kind='integer-targets')))
    # ---------- large validation sets: more rows than any internal block size, not a multiple of a power of two; residuals concentrated in the last rows ----------
    for nbig in (32_773, 70_001):
        for mcols in (1, 2):
            Tb = np.round(rng.standard_normal((nbig, mcols)), 2).astype(np.float32)
            Pb = Tb.copy(); Pb[-5:] += 4.0; Pb[: nbig // 3] += 0.25
            tb, pb = torch.tensor(Tb), torch.tensor(Pb)
            for name, orc in (('mse', o_mse), ('mae', o_mae), ('rmse', o_mse)):
                v = float(Metric.from_name(name).compute(y_true_reg=tb, y_pred=pb))
                dd = (Pb.astype(np.float64) - Tb.astype(np.float64))
                wantf = float(np.mean(dd ** 2)) if name == 'mse' else (float(np.sqrt(np.mean(dd ** 2))) if name == 'rmse' else float(np.mean(np.abs(dd))))
                ck.case(dict(metric=name, kind='large', n=nbig, m=mcols, value=v), nontrivial=True); ck.count(f'{name}:large validation set')
                if abs(v - wantf) > 2e-5 * (1 + abs(wantf)):
                    ck.violation(f'{name} returned {v} on {nbig} rows x {mcols} outputs, textbook value {wantf} (residuals: +0.25 on the first third, +4 on the last 5 rows)',
                                 dict(metric=name, n=nbig, m=mcols, got=v, want=wantf), key=json.dumps(dict(site='value-large', metric=name)))
            yb = rng.integers(0, 3, size=nbig); yb[:3] = np.arange(3)
            Rb = rng.random((nbig, 3)).astype(np.float32) + 0.05; Rb[-7:] = np.eye(3, dtype=np.float32)[(yb[-7:] + 1) % 3] + 1e-3
            Pc = (Rb / Rb.sum(1, keepdims=True)).astype(np.float32)
            for name, orc in (('accuracy', o_acc), ('brier', o_brier), ('logloss', o_logloss)):
                v = float(Metric.from_name(name).compute(y_true_class=torch.tensor(yb), y_pred_proba=torch.tensor(Pc)))
                wantf = float(orc(yb, Pc))
                ck.case(dict(metric=name, kind='large', n=nbig, value=v), nontrivial=True); ck.count(f'{name}:large validation set')
                if abs(v - wantf) > 5e-5 * (1 + abs(wantf)):
                    ck.violation(f'{name} returned {v} on {nbig} rows, textbook value {wantf}', dict(metric=name, n=nbig, got=v, want=wantf), key=json.dumps(dict(site='value-large', metric=name)))
    # ---------- classification metrics ----------
    for k in range(ck.n(50, 500)):
        K = int(rng.integers(2, 6)); n = int(rng.integers(K, 14))
        y = rng.integers(0, K, size=n); y[:K] = np.arange(K); rng.shuffle(y)
        kind = ['random', 'perfect', 'constant', 'adversarial', 'ties', 'saturated', 'confident'][k % 7]
        if kind == 'random':
            R = rng.random((n, K)) + 0.05
        elif kind == 'perfect':
            R = np.full((n, K), 1e-3); R[np.arange(n), y] = 1.0
        elif kind == 'constant':
            R = np.ones((n, K))
        elif kind == 'adversarial':
            R = np.full((n, K), 1e-3); R[np.arange(n), (y + 1) % K] = 1.0
        elif kind == 'ties':
            R = np.round(rng.random((n, K)) * 2) + 0.5          # many equal scores
        elif kind == 'confident':
            # confident and (almost) correct, but not one-hot: 1 - eps on the true class, one row in every few wrong; the true Brier score is of order eps^2
            eps_c = [1e-2, 1e-3, 1e-4][(k // 7) % 3]
            R = np.full((n, K), eps_c / (K - 1)); R[np.arange(n), y] = 1.0 - eps_c
            if (k // 21) % 2:
                R[0] = np.full(K, 0.3 / (K - 1)); R[0, (y[0] + 1) % K] = 0.7
        else:
            R = np.round(rng.random((n, K)), 1) * 0.999 + 1e-3
        P = (R / R.sum(1, keepdims=True)).astype(np.float32)
        P = np.maximum(P, 1e-6).astype(np.float32)
        yt, pt = torch.tensor(y), torch.tensor(P)
        for name, orc in (('accuracy', o_acc), ('brier', o_brier), ('f1', o_f1), ('auc', o_auc), ('logloss', o_logloss)):
            try:
                v = float(Metric.from_name(name).compute(y_true_class=yt, y_pred_proba=pt))
            except Exception as e:
                ck.violation(f'{name} raised {e!r} on valid input (all classes present)', dict(metric=name, y=y.tolist(), P=P.tolist()),
                             key=json.dumps(dict(site='raise', metric=name))); continue
            want = float(orc(y, P))
            ck.case(dict(metric=name, kind=kind, y=y.tolist(), P=P.tolist(), value=v), nontrivial=kind not in ('perfect',), sample=(k == 4 and name == 'auc'))
            ck.count(f'{name}:{kind}')
            tol = 3e-6 * (1 + abs(want)) if name != 'logloss' else 2e-5 * (1 + abs(want))
            if name == 'brier':
                tol = 5e-6 * abs(want) + 1e-13         # a mean of squares of exactly representable residuals: every partial result carries a RELATIVE rounding error only
            if name in ('brier', 'logloss') and v < 0:
                ck.violation(f'{name} is negative: {v} (textbook value {want}; kind {kind}, K={K})', dict(metric=name, y=y.tolist(), P=P.tolist(), got=v, want=want),
                             key=json.dumps(dict(site='negative', metric=name)))
            if abs(v - want) > tol:
                ck.violation(f'{name} returned {v}, textbook value {want} (kind {kind}, K={K})', dict(metric=name, y=y.tolist(), P=P.tolist(), got=v, want=want),
                             key=json.dumps(dict(site='value', metric=name, kind=kind)))
            # history: the same metric evaluated again on OTHER labels that live at the same address (a label buffer refilled in place between
            # folds, wrapped again: same data pointer, shape, dtype) — the value is a function of the contents, whatever was evaluated before
            if k % 2 == 0:
                ybuf = y.copy()
                try:
                    Metric.from_name(name).compute(y_true_class=torch.from_numpy(ybuf), y_pred_proba=pt)
                    y2 = np.roll(y, 1) if len(set(np.roll(y, 1).tolist()) ^ set(y.tolist())) == 0 and not np.array_equal(np.roll(y, 1), y) else y[::-1].copy()
                    ybuf[:] = y2
                    v2 = float(Metric.from_name(name).compute(y_true_class=torch.from_numpy(ybuf), y_pred_proba=pt))
                    want2 = float(orc(y2, P))
                    ck.count(f'{name}: refilled label buffer')
                    tol2 = (5e-6 * abs(want2) + 1e-13) if name == 'brier' else (3e-6 * (1 + abs(want2)) if name != 'logloss' else 2e-5 * (1 + abs(want2)))
                    if abs(v2 - want2) > tol2:
                        ck.violation(f'{name} returned {v2} on labels written into a reused buffer, textbook value {want2} (the previous evaluation used other labels at the same address; kind {kind}, K={K})',
                                     dict(metric=name, y_first=y.tolist(), y=y2.tolist(), P=P.tolist(), got=v2, want=want2), key=json.dumps(dict(site='value-reused-buffer', metric=name)))
                except Exception as e:
                    ck.violation(f'{name} raised {e!r} on a reused label buffer', dict(metric=name, y=y.tolist(), P=P.tolist()), key=json.dumps(dict(site='raise', metric=name)))
            # perfect predictions score at least as well, in the declared direction, as these predictions
            R2 = np.full((n, K), 1e-6, dtype=np.float32); R2[np.arange(n), y] = 1.0 - (K - 1) * 1e-6
            vp = float(Metric.from_name(name).compute(y_true_class=yt, y_pred_proba=torch.tensor(R2)))
            # predictions IDENTICAL to the targets (exact one-hot rows; log-loss excepted: entries below 1e-6 are outside its domain) score at least as well as both
            if name != 'logloss':
                vt = float(Metric.from_name(name).compute(y_true_class=yt, y_pred_proba=torch.tensor(np.eye(K, dtype=np.float32)[y])))
                for other, vo in (('these predictions', v), ('near-perfect predictions (1e-6 off one-hot)', vp)):
                    if (flags[name] and vt < vo) or (not flags[name] and vt > vo):
                        ck.violation(f'{name}: predictions identical to the targets score {vt}, {other} score {vo}: they are ranked BETTER than the targets themselves '
                                     f'(direction flag {flags[name]})', dict(metric=name, y=y.tolist(), P=P.tolist(), identical=vt, other=vo),
                                     key=json.dumps(dict(site='direction-identical', metric=name)))
            if (flags[name] and vp < v - 1e-9) or (not flags[name] and vp > v + 1e-9):
                ck.violation(f'{name}: perfect predictions score {vp}, these predictions score {v}: direction flag {flags[name]} is not truthful',
                             dict(metric=name, y=y.tolist(), P=P.tolist()), key=json.dumps(dict(site='direction', metric=name)))
            if name == 'logloss':
                ps = [P[i, y[i]] for i in range(n)]
                terms = ' + '.join(f'ln {coq_R(float(q))}' for q in ps)
                lemmas.append((len(lemmas), f'Lemma ll_{len(lemmas)} : Rabs (- ({terms}) / {n} - {coq_R(v)}) <= {coq_R(2e-5 * (1 + abs(v)))}.\nProof. interval with (i_prec 50). Qed.'))
            else:
                cases.append((f'c{k}{name}', f'rel_close (3#1000000) {coq_Q(v)} ({name} {nl(y.tolist())} {coq_Qmat(P.tolist())})'))
    res = ck.run_bool_cases('metrics', HEADER, cases, shard=150)
    bad = [k for k, v in res.items() if v is not True]
    ck.obligation(f'correspondence: {len(cases)} Metric.compute values / flags == Coq Q model', 'correspondence', not bad, f'first mismatches: {bad[:8]}')
    sub = lemmas[: ck.n(24, 200)]
    res = ck.run_lemma_files('logloss', RHEADER, sub, shard=8)
    bad = [k for k, v in res.items() if not v]
    ck.obligation(f'correspondence: {len(sub)} log-loss values == -(1/n) sum ln p (interval-certified)', 'correspondence', not bad, f'failed lemma ids {bad[:5]}')
