"""Fail-closed translator for the AGOP accumulation (C14): `RFM.update_M` and the accumulation / normalisation / root part of `RFM.fit_M` are re-read from the
current source with `ast` on every run (the per-batch reductions `Kernel.get_agop` / `get_agop_diag` are covered by harness/gradops.py).

 update_M     identity / ones initialisation of M (and of sqrtM for root-consuming kernels); get_agop_diag if diag else get_agop, called with
              x = centers, z = batch, coefs = weights^T, mat = sqrtM if use_sqrtM else M, center_grads                       -> Agop.gram / gram_diag per batch
 fit_M        zero accumulator; batches = arange(n).split(M_batch_size) truncated to 1 + total_points_to_sample // M_batch_size batches; M += update_M(batch);
              scaled_M = M / (M.max() + 1e-30)   [emitted as a Q term and proved equal to Agop.normalise_mat / normalise_vec];
              sqrtM = matrix_power(scaled_M, agop_power) for root-consuming kernels; stored together when inplace, scaled_M returned otherwise
                                                                                                                              -> Agop.agop / agop_diag, normalise_*
Anything outside the recognised shapes raises TranslationError."""
import ast, os
from harness.common import REPO
from harness.splitarith import TranslationError
from harness.kernelops import _cls_method


def _nodoc(body):
    return [s for s in body if not (isinstance(s, ast.Expr) and isinstance(s.value, ast.Constant))]


def check_update(fn):
    src = [ast.unparse(s) for s in _nodoc(fn.body)]
    want = ['samples = samples.to(self.device)', 'self.centers = self.centers.to(self.device)',
            'if self.M is None:\n    if self.diag:\n        self.M = torch.ones(samples.shape[-1], device=samples.device, dtype=samples.dtype)\n    else:\n'
            '        self.M = torch.eye(samples.shape[-1], device=samples.device, dtype=samples.dtype)',
            'if self.use_sqrtM and self.sqrtM is None:\n    if self.diag:\n        self.sqrtM = torch.ones(samples.shape[-1], device=samples.device, dtype=samples.dtype)\n    else:\n'
            '        self.sqrtM = torch.eye(samples.shape[-1], device=samples.device, dtype=samples.dtype)',
            'agop_func = self.kernel_obj.get_agop_diag if self.diag else self.kernel_obj.get_agop',
            'agop = agop_func(x=self.centers, z=samples, coefs=self.weights.t(), mat=self.sqrtM if self.use_sqrtM else self.M, center_grads=self.center_grads)',
            'return agop']
    if src != want:
        k = next((i for i in range(min(len(src), len(want))) if src[i] != want[i]), min(len(src), len(want)))
        raise TranslationError(f'RFM.update_M: statement {k} is {(src[k] if k < len(src) else "<missing>")[:160]!r}')


def translate_fit_M(fn):
    body = _nodoc(fn.body)
    src = [ast.unparse(s) for s in body]
    try:
        a = src.index('n, d = samples.shape')
    except ValueError:
        raise TranslationError('RFM.fit_M: `n, d = samples.shape` not found')
    tail = src[a:]
    want = ['n, d = samples.shape',
            'M = torch.zeros_like(self.M) if self.M is not None else torch.zeros(d, dtype=samples.dtype, device=self.device) if self.diag else torch.zeros(d, d, dtype=samples.dtype, device=self.device)',
            'if M_batch_size is None:\n    BYTES_PER_SCALAR = samples.element_size()\n    M_batch_size = self._compute_optimal_M_batch(n, num_classes, d, scalar_size=BYTES_PER_SCALAR)',
            'batches = torch.arange(n).split(M_batch_size)', 'num_batches = 1 + self.total_points_to_sample // M_batch_size', 'batches = batches[:num_batches]',
            "if self.verbose:\n    print(f'Sampling AGOP on maximum of {num_batches * M_batch_size} total points')",
            'if self.verbose:\n    for i, bids in tenumerate(batches):\n        M.add_(self.update_M(samples[bids]))\nelse:\n    for bids in batches:\n        M.add_(self.update_M(samples[bids]))']
    if tail[:len(want)] != want:
        k = next(i for i in range(len(want)) if i >= len(tail) or tail[i] != want[i])
        raise TranslationError(f'RFM.fit_M: accumulation statement {k} is {(tail[k] if k < len(tail) else "<missing>")[:200]!r}')
    rest = body[a + len(want):]
    rsrc = [ast.unparse(s) for s in rest]
    if len(rest) != 3 or not (isinstance(rest[0], ast.Assign) and ast.unparse(rest[0].targets[0]) == 'scaled_M'):
        raise TranslationError(f'RFM.fit_M: normalise / root / store tail changed: {rsrc}')
    # scaled_M = M / (M.max() + 1e-30)
    v = rest[0].value
    if not (isinstance(v, ast.BinOp) and isinstance(v.op, ast.Div) and ast.unparse(v.left) == 'M' and isinstance(v.right, ast.BinOp) and isinstance(v.right.op, ast.Add)
            and ast.unparse(v.right.left) == 'M.max()' and isinstance(v.right.right, ast.Constant) and float(v.right.right.value) == 1e-30):
        raise TranslationError(f'RFM.fit_M: normalisation is {rsrc[0]!r}, expected M / (M.max() + 1e-30)')
    if rsrc[1] != 'if self.use_sqrtM:\n    sqrtM = matrix_power(scaled_M, self.agop_power, verbose=self.verbose)\nelse:\n    sqrtM = None':
        raise TranslationError(f'RFM.fit_M: root statement is {rsrc[1]!r}')
    if rsrc[2] != 'if inplace:\n    self.M = scaled_M\n    self.sqrtM = sqrtM\nelse:\n    return scaled_M':
        raise TranslationError(f'RFM.fit_M: store / return statement is {rsrc[2]!r}')
    return ('(let m := mat_max M + tiny in map (map (fun x => x / m)) M)', '(let m := qmaxl v + tiny in map (fun x => x / m) v)')


def check_stable_power(ut):
    """utils.stable_matrix_power, as modelled by Real/MatRoot.v: 2-D input -> (NaN handling) ; +1e-8 on the diagonal ; U, S from an SVD ; S[S<0] = 0 ;
    U @ diag(S**power) @ U.T   (= MatRoot.root_of for power 1/2);  1-D input -> clip at 0, elementwise power (= the diagonal-mode theorem)"""
    fn = [f for f in ut.body if isinstance(f, ast.FunctionDef) and f.name == 'stable_matrix_power']
    if not fn:
        raise TranslationError('utils.stable_matrix_power not found')
    body = _nodoc(fn[0].body)
    if len(body) != 1 or not isinstance(body[0], ast.If) or ast.unparse(body[0].test) != 'len(M.shape) == 2':
        raise TranslationError('stable_matrix_power: expected a single dispatch on len(M.shape) == 2')
    two = body[0].body
    src = [ast.unparse(x) for x in two]
    def has(prefix):
        return [u for u in src if u.startswith(prefix)]
    if src[0] != "assert M.shape[0] == M.shape[1], 'Matrix must be square'" or not has('if torch.isnan(M).all()') or not has('if torch.isnan(M).any()'):
        raise TranslationError(f'stable_matrix_power (2-D): preamble changed: {src[:3]}')
    tail = [u for u in src if not u.startswith('if torch.isnan') and not u.startswith('assert ')]
    want_svd = ('if M.shape[0] < MAX_DIMENSIONS_FOR_SVD:', 'U, S, _ = torch.linalg.svd(M)', 'U, S, _ = torch.svd_lowrank(M, q=MAX_DIMENSIONS_FOR_SVD)')
    if len(tail) != 4 or tail[0] != 'M.diagonal().add_(1e-08)' or not all(w in tail[1] for w in want_svd) or tail[2] != 'S[S < 0] = 0.0' \
            or tail[3] != 'return (U @ torch.diag(S ** power) @ U.T).to(device=M.device, dtype=M.dtype)':
        raise TranslationError(f'stable_matrix_power (2-D): not `+1e-8 on the diagonal; U, S = svd; S[S<0] = 0; U @ diag(S**power) @ U.T`: {tail}')
    orelse = body[0].orelse
    if len(orelse) != 1 or not isinstance(orelse[0], ast.If) or ast.unparse(orelse[0].test) != 'len(M.shape) == 1':
        raise TranslationError('stable_matrix_power: 1-D branch not found')
    one = [ast.unparse(x) for x in orelse[0].body if not ast.unparse(x).startswith('if torch.isnan') and not ast.unparse(x).startswith('assert ')]
    if one != ['M[M < 0] = 0.0', 'return M ** power']:
        raise TranslationError(f'stable_matrix_power (1-D): not `clip at 0; elementwise power`: {one}')


def generate():
    rt = ast.parse(open(os.path.join(REPO, 'xrfm', 'rfm_src', 'recursive_feature_machine.py')).read())
    check_update(_cls_method(rt, 'RFM', 'update_M'))
    nm, nv = translate_fit_M(_cls_method(rt, 'RFM', 'fit_M'))
    ut = ast.parse(open(os.path.join(REPO, 'xrfm', 'rfm_src', 'utils.py')).read())
    mp = [f for f in ut.body if isinstance(f, ast.FunctionDef) and f.name == 'matrix_power']
    if not mp or [ast.unparse(s) for s in _nodoc(mp[0].body)] != ['return stable_matrix_power(M, power, verbose=verbose)']:
        raise TranslationError('utils.matrix_power does not forward to stable_matrix_power')
    check_stable_power(ut)
    return f'''(* GENERATED on every run by harness/agopops.py from /repo/xrfm/rfm_src/recursive_feature_machine.py — do not edit *)
From Coq Require Import QArith List Bool Arith.
Require Import XV.Model.Tree XV.Model.Soft XV.Model.Agop.
Import ListNotations.
Local Open Scope Q_scope.
Definition gen_normalise_mat (M : mat) : mat := {nm}.
Definition gen_normalise_vec (v : vec) : vec := {nv}.
Lemma gen_normalise_mat_eq_model : forall M, gen_normalise_mat M = normalise_mat M.
Proof. intros. reflexivity. Qed.
Lemma gen_normalise_vec_eq_model : forall v, gen_normalise_vec v = normalise_vec v.
Proof. intros. reflexivity. Qed.
'''


def check_translation(ck):
    from harness.common import coqc
    try:
        txt = generate()
        p = os.path.join(ck.bdir, 'AgopOps_gen.v')
        open(p, 'w').write(txt)
        rc, out, dt = coqc(p)
        ck.checker_cmds.append(f'coqc build/{ck.pid}/run_<pid>/AgopOps_gen.v')
        ck.obligation('AgopOps_gen.v: RFM.update_M / fit_M (initialisation, which reduction and which transform are used, batch split and truncation, accumulation, '
                      'normalisation by the largest entry + 1e-30, root of the NORMALISED matrix, joint store; the root routine is `U diag(clip(S)^power) U^T` from an SVD / clip-and-power in diagonal mode = MatRoot.root_of), re-translated from the source, match the Coq models Agop.v / MatRoot.v', 'translation', rc == 0, out)
        return rc == 0
    except TranslationError as e:
        ck.obligation('agopops translator recognises the source', 'translation', False, str(e))
        return False
