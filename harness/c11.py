"""C11 — Saving and loading state preserves predictions exactly."""
import json, copy, io, pickle
import numpy as np
import torch
from harness.common import *
from harness import attrflow as af
from harness import flowgen as fg


def snapshot(obj):
    """bytes of a deep pickle of the model state (tensors included) — used to show that export does not change the source"""
    buf = io.BytesIO()
    d = {k: v for k, v in obj.__dict__.items() if k != 'callback'}
    torch.save(d, buf)
    return buf.getvalue()


def leaf_paths(node, path=''):
    """(path, leaf node) pairs, depth first, left before right; the path is the string of L / R turns from the root ('' = the root itself is a leaf)"""
    if node['type'] == 'leaf':
        return [(path, node)]
    return leaf_paths(node['left'], path + 'L') + leaf_paths(node['right'], path + 'R')


def uneven_tree_regime(ck, xr):
    """Trees whose leaves sit on DIFFERENT levels.  The median split halves the rows, so a size-driven tree is level unless the row count of some node
    straddles max_leaf_size (n = L * 2^k + r with 0 < r < 2^k: r of the 2^k nodes of level k hold L + 1 rows and split once more), and a tree built under a
    split quota (number_of_splits) spends the quota depth first (quota 2 -> leaf depths 2,2,1; 3 -> 3,3,2,1; ...).  Which shape family / task / encoding /
    routing / kernel / tree count a fit uses is index arithmetic; the seed only changes L, r and the numbers.  Oracles (of the statement, no model involved):
      (i)  predict / predict_proba of a fresh model that loaded the state (and of a load of a load) == those of the source model, bitwise, on training rows,
           fresh rows and far rows;
      (ii) set accounting per leaf: the leaf reached by the same L/R path in the loaded model holds as centres exactly the training rows that the exported
           index list of THAT leaf names (X_train[train_indices], recomputed here with numpy), and exactly the centres of the source leaf on that path;
      (iii) source predictions before == after the export."""
    rng = np.random.default_rng(ck.seed + 1117)
    nfits = ck.n(10, 48)
    kernels = [('l2', {}), ('l1', {}), ('l2_high_dim', {}), ('lpq', dict(norm_p=1.5)), ('l2', {}), ('sum_power_laplace', {})]
    n_uneven = 0
    for j in range(nfits):
        shape = ['size k=1', 'quota', 'size k=2', 'quota', 'size k=3', 'quota + size'][j % 6]
        task = ['reg', 'class', 'class', 'reg2'][(j + j // 6) % 4]
        cmode = ['zero_one', 'prevalence'][(j // 2) % 2]
        routing = ['hard', 'fixed', 'tuned'][(j + j // 3) % 3]
        kern, extra = kernels[(j + j // 6) % 6]
        n_trees = 2 if j % 5 == 3 else 1
        d = int(rng.integers(2, 6))
        quota = None
        f = 0.0
        if shape.startswith('size'):
            k = int(shape[-1]); L = int(rng.integers(10, 30)) if k < 3 else int(rng.integers(8, 14))
            r = int(rng.integers(1, 2 ** k)); n = L * 2 ** k + r
        elif shape == 'quota':
            quota = [2, 3, 4, 2, 5][(j // 2) % 5]; L = 10_000; n = int(rng.integers(10, 16)) * 2 ** quota + int(rng.integers(0, 4)); r = 0
            f = 0.1 if j % 4 == 3 else 0.0           # overlapping children: the shape under a quota does not depend on the child sizes
        else:
            quota = 2; L = int(rng.integers(20, 40)); r = int(rng.integers(1, L // 2)); n = L + r       # the root has to split by size, the quota then forces one more split on the left
        X = xr.make_X('random', n, d, rng); y = xr.make_y(task, X, rng)
        Xv = xr.make_X('random', 80, d, rng); yv = xr.make_y(task, Xv, rng)
        desc = dict(regime='uneven tree', j=j, shape=shape, n=n, d=d, L=L, r=r, number_of_splits=quota, overlap=f, task=task, cmode=cmode, routing=routing,
                    kernel=kern, n_trees=n_trees, diag=bool(j % 2), seed=ck.seed)
        ctor = dict(rfm_params=xr.default_rfm_params(kernel=kern, iters=1, diag=bool(j % 2), bandwidth=3.0, exponent=[1.0, 1.2][(j // 2) % 2], reg=1e-2, **extra),
                    max_leaf_size=L, number_of_splits=quota, n_trees=n_trees, overlap_fraction=f, verbose=False, classification_mode=cmode,
                    use_temperature_tuning=(routing == 'tuned'), split_temperature=(0.4 if routing == 'fixed' else None), temp_tuning_space=[0.1, 0.7, 2.5],
                    refill_size=[20, 4][(j // 3) % 2], **(dict(split_method='linear') if j % 4 == 1 else dict(split_method='pca') if j % 4 == 2 else {}))
        xr.seed_all(4100 + j + ck.seed)
        src = xr.xRFM(**copy.deepcopy(ctor))
        Xt, yt = torch.tensor(X), torch.tensor(y)
        try:
            with xr.quiet():
                src.fit(Xt, yt, torch.tensor(Xv), torch.tensor(yv))
        except Exception as e:
            ck.count('uneven-tree regime: fit failed'); ck.notes.append(f'fit failed {desc}: {e!r}'[:200]); continue
        depths = [[len(p) for p, _ in leaf_paths(t)] for t in src.trees]
        uneven = any(len(set(dp)) > 1 for dp in depths)
        n_uneven += uneven
        desc['leaf_depths'] = depths
        ck.count(f'uneven-tree regime: {shape}, leaves on ' + ('different levels' if uneven else 'one level'))
        ck.count(f'uneven-tree regime: routing {routing}, stored T={src.split_temperature is not None}')
        Qn = np.concatenate([X[:8], X[-4:], xr.make_X('random', 14, d, rng), 50 * xr.make_X('random', 2, d, rng)]).astype(np.float32)
        Q = torch.tensor(Qn)
        is_class = task == 'class'

        def outputs(m):
            with xr.quiet():
                o = [np.asarray(m.predict(Q))]
                if is_class:
                    o.append(np.asarray(m.predict_proba(Q)))
            return o
        before = outputs(src)
        with xr.quiet():
            sd = src.get_state_dict()
        after = outputs(src)
        ck.case(dict(desc), nontrivial=uneven, sample=(j == 0))
        if any(a.shape != b.shape or not np.array_equal(a, b) for a, b in zip(before, after)):
            ck.violation(f'get_state_dict changed the predictions of the source model on {desc}', dict(desc), key=json.dumps(dict(site='export-pure')))
        sd_l = copy.deepcopy(sd)
        m1 = xr.xRFM(**copy.deepcopy(ctor))
        try:
            with xr.quiet():
                m1.load_state_dict(sd_l, Xt)
                m2 = xr.xRFM(**copy.deepcopy(ctor))
                m2.load_state_dict(copy.deepcopy(m1.get_state_dict()), Xt)
            outs = [('loaded', m1, outputs(m1)), ('load of a load', m2, outputs(m2))]
        except Exception as e:
            ck.violation(f'load_state_dict / prediction of the loaded model raised {e!r} on {desc}', dict(desc, error=repr(e)),
                         key=json.dumps(dict(site='uneven-tree', what='raise')))
            continue
        # (ii) per-leaf set accounting, by path
        for name, m, _ in outs:
            for ti, (ts, tp, tl) in enumerate(zip(src.trees, sd['param_trees'], m.trees)):
                ls, lp, ll = leaf_paths(ts), leaf_paths(tp), leaf_paths(tl)
                if [p for p, _ in ls] != [p for p, _ in lp] or [p for p, _ in ls] != [p for p, _ in ll]:
                    ck.violation(f'tree {ti} of the {name} model / of the exported state has other leaf paths than the source tree: source {[p for p, _ in ls]}, '
                                 f'exported {[p for p, _ in lp]}, {name} {[p for p, _ in ll]} on {desc}', dict(desc, which=name, tree=ti),
                                 key=json.dumps(dict(site='uneven-tree', what='paths')))
                    continue
                owner = {}
                for p_, nd in lp:
                    owner[np.asarray(nd['train_indices']).reshape(-1).astype(np.int64).tobytes()] = p_
                for (p_, s_), (_, e_), (_, l_) in zip(ls, lp, ll):
                    idx = np.asarray(e_['train_indices']).reshape(-1).astype(np.int64)
                    want = X[idx]                                             # the statement: centres = original training inputs at the exported indices of this leaf
                    got = np.asarray(l_['model'].centers)
                    srcc = np.asarray(s_['model'].centers)
                    if got.shape != want.shape or not np.array_equal(got, want) or not np.array_equal(srcc, want):
                        whose = [q for q, nd in lp if np.asarray(nd['train_indices']).size == len(got) and got.shape == X[np.asarray(nd['train_indices']).reshape(-1)].shape
                                 and np.array_equal(got, X[np.asarray(nd['train_indices']).reshape(-1)])]
                        row = int(np.argmax(np.any(got != want, axis=1))) if got.shape == want.shape else None
                        held = None if row is None else ([int(t) for t in np.nonzero(np.all(X == got[row][None, :], axis=1))[0][:3]] or 'none')
                        ck.violation(f'leaf {p_ or "root"} (depth {len(p_)}, {len(idx)} exported indices) of tree {ti}: the {name} model\'s centres '
                                     + (f'(shape {got.shape}) ' if got.shape != want.shape else '')
                                     + ('differ from the source leaf\'s centres and ' if not np.array_equal(srcc, got) else '')
                                     + f'are not X_train[train_indices] of that leaf'
                                     + (f' — they are the training rows of leaf {whose[0] or "root"}' if whose else '')
                                     + (f'; centre #{row} should be training row {int(idx[row])} and is training row {held}' if row is not None else '')
                                     + f'; leaf depths {depths[ti]} on {desc}',
                                     dict(desc, which=name, tree=ti, leaf=p_, exported_indices=idx.tolist(), expected_row=(want[row].tolist() if row is not None else None),
                                          held_row=(got[row].tolist() if row is not None else None), held_row_is_training_row=held, X_train=X.tolist()),
                                     key=json.dumps(dict(site='uneven-tree', what='centres')))
                        break
        # (i) predictions, bitwise
        for name, m, oo in outs:
            for a, b, what in zip(before, oo, ('predict', 'predict_proba')):
                if a.shape != b.shape or not np.array_equal(a, b):
                    if a.shape == b.shape:
                        dq = np.abs(a.astype(float) - b.astype(float)).reshape(len(Qn), -1).max(axis=1); qi = int(dq.argmax())
                        where = (f'max diff {float(dq.max())} at query x={Qn[qi].tolist()}: source {np.asarray(a[qi]).tolist()}, {name} {np.asarray(b[qi]).tolist()}; '
                                 f'{int((dq > 0).sum())}/{len(Qn)} query rows differ')
                    else:
                        qi = None; where = f'shapes {a.shape} vs {b.shape}'
                    ck.violation(f'{what} of the {name} model differs from the source model ({where}); source split_temperature={src.split_temperature}, '
                                 f'{name} split_temperature={m.split_temperature}; leaf depths {depths} on {desc}',
                                 dict(desc, what=what, which=name, query=(Qn[qi].tolist() if qi is not None else None), X_train=X.tolist(), y_train=y.tolist()),
                                 key=json.dumps(dict(site='uneven-tree', what=what)))
    ck.count('uneven-tree regime: fits with leaves on different levels', n_uneven)


def run(ck):
    from harness import xr
    ck.rule = ('(a) attribute-flow traces of predict / predict_proba / get_grads / get_state_dict / load_state_dict / fit regenerated from the source '
               '(xRFM level and leaf-model level) and checked in Coq: prediction reads only constructor-only or restored attributes, export has no writes, '
               'every restored attribute is filled from a key that export fills from the same attribute, every node key read by prediction is exported; '
               '(b) differential: fitted source model vs fresh model that loaded its state vs load of a load, predictions and probabilities bitwise, '
               'for task types / encodings / kernels / diag / adaptive bandwidth / depth 0-4 / 1-3 trees / overlap / tuned or fixed temperature; '
               'source predictions and a deep snapshot of the source before vs after get_state_dict.  non-trivial = split tree; distinct by config hash')
    ck.trusted += ['Coq 8.16.1 kernel + vm_compute', 'harness/attrflow.py + flowgen.py translators (fail-closed)', 'exemption list in harness/flowgen.py (justified, differentially tested)']
    ck.assumptions += ['leaf models and kernel objects are reached only through the attribute paths the translator follows (kernel_obj, class_converter)',
                       'numerical equality of predictions is observed (bitwise), not proved']
    ck.check_theorems()
    # ---------------- (a) translation obligations ----------------
    try:
        t = af.Translator()
        pred_x = ('br', t.method('xRFM', 'predict', '', []), ('br', t.method('xRFM', 'predict_proba', '', []), t.method('xRFM', 'get_grads', '', [])))
        exp_x = t.method('xRFM', 'get_state_dict', '', [])
        load_x = t.method('xRFM', 'load_state_dict', '', [])
        fit_x = t.method('xRFM', 'fit', '', [])
        pred_l = ('br', t.method('RFM', 'predict', '', []), ('br', t.method('RFM', 'predict_proba', '', []), t.method('RFM', 'get_grads', '', [])))
        fit_l = t.method('RFM', 'fit', '', [])
        rows, em, el, en = fg.roundtrip_rows()
        bad_rows = [r for r in rows if not r[4]]
        ck.obligation(f'state-dict round trip table: {len(rows)} restored attributes are filled from keys that export fills from the same attribute',
                      'translation', not bad_rows, f'inconsistent: {bad_rows}')
        cex = fg.conditional_exports()
        ck.obligation('keys that get_state_dict writes only under a condition are exactly the justified ones (solver: constructor-only; classification fields: '
                      'under n_classes_ > 0, which is exported unconditionally) — a learned attribute exported only when "in use" is restored from the fresh model\'s '
                      'constructor value otherwise', 'translation', cex == fg.CONDITIONAL_EXPORTS_OK, f'conditional exports found: {cex}')
        restored_x = af.writes_of(load_x) if not bad_rows else set()
        restored_l = {r[1] for r in rows if r[0] == 'leaf' and r[4]}
        mutable_x = af.writes_of(fit_x)
        mutable_l = af.writes_of(fit_l) - set(fg.EXEMPT_LEAF_PRED)
        nk = fg.node_keys_read()
        missing = sorted(k for k in nk if k not in en and k not in el and k not in ('model', '_cache'))
        ck.obligation(f'every tree-node key read by the prediction code ({sorted(nk)}) is exported by get_param_tree', 'translation', not missing,
                      f'not exported: {missing}')
        txt, ids = fg.gen_file(dict(pred_x=pred_x, export_x=exp_x, pred_leaf=pred_l),
                               dict(restored_x=restored_x, mutable_x=mutable_x, restored_leaf=restored_l, mutable_leaf=mutable_l),
                               [])
        txt += ('Definition off_x := fst (offenders (fun a => mem a mutable_x) pred_x restored_x).\n'
                'Definition off_leaf := fst (offenders (fun a => mem a mutable_leaf) pred_leaf restored_leaf).\n'
                'Definition export_writes := writes export_x.\n'
                'Eval vm_compute in (off_x, off_leaf, export_writes).\n')
        p = os.path.join(ck.bdir, 'AttrFlow_gen.v')
        open(p, 'w').write(txt)
        rc, out, dt = coqc(p)
        ck.checker_cmds.append('coqc build/C11/run_<pid>/AttrFlow_gen.v')
        inv = {v: k for k, v in ids.items()}
        if rc != 0:
            ck.obligation('AttrFlow_gen.v compiles', 'translation', False, out)
        else:
            m = re.search(r'=\s*\(\s*(\[.*?\])\s*,\s*(\[.*?\])\s*,\s*(\[.*?\])\s*\)', out.replace('\n', ' '), flags=re.S)
            lists = [[inv[int(x)] for x in re.findall(r'\d+', g)] for g in m.groups()]
            offx, offl, expw = [sorted(set(l)) for l in lists]
            ck.obligation(f'xRFM level: predict/predict_proba/get_grads read only constructor-only or restored attributes (sizes: pred {af.size_of(pred_x)}, fit {af.size_of(fit_x)})',
                          'translation', not offx, f'read by prediction, changed by fit, NOT restored by load_state_dict: {offx}')
            ck.obligation(f'leaf level: RFM.predict/predict_proba/get_grads read only constructor-only or restored attributes (modulo {len(fg.EXEMPT_LEAF_PRED)} justified exemptions)',
                          'translation', not offl, f'read by leaf prediction, changed by leaf fit, NOT restored: {offl}')
            ck.obligation('get_state_dict (incl. get_param_tree) writes no attribute', 'translation', not expw, f'writes: {expw}')
            ck.trusted.append(f'exemptions (leaf prediction): {sorted(fg.EXEMPT_LEAF_PRED)}')
            ck.flow_offenders = offx + offl
    except af.TranslationError as e:
        ck.obligation('attrflow translator recognises the source', 'translation', False, str(e))

    # ---------------- (a') tree part of the state dict: regenerated tables satisfy the hypotheses of the round-trip theorem ----------------
    from harness import stateops
    sd_defs, sd_found = stateops.check_translation(ck, set(fg.EXEMPT_LEAF_PRED))
    sd_cases, sd_meta = [], {}

    # ---------------- (b) differential ----------------
    rng = np.random.default_rng(ck.seed + 1111)
    kernels = [('l2', {}), ('l2_high_dim', {}), ('l1', {}), ('lpq', dict(norm_p=1.5)), ('sum_power_laplace', {})]
    nfits = ck.n(14, 90)
    for i in range(nfits):
        kern, extra = kernels[i % 5]
        if kern == 'l2_high_dim' and (i // 5) % 2 == 0:
            kern = 'l2_light'          # the other spelling of the same kernel: the name is part of the exported hyper-parameters
        task = ['reg', 'class', 'reg2', 'class'][i % 4]
        cmode = ['zero_one', 'prevalence'][(i // 4) % 2]
        n_trees = [1, 2, 3][i % 3]
        depth0 = (i % 6 == 5)
        tuned = (i % 2 == 0)
        fixedT = None if tuned else [None, 0.3, 1.5][i % 3]
        n = int(rng.integers(60, 240)); d = int(rng.integers(2, 5))
        L = 10_000 if depth0 else int(rng.integers(10, 45))
        f = 0.1 if i % 5 == 3 else 0.0
        bw = 'adaptive' if (i % 3 == 1 and kern != 'sum_power_laplace') else 'constant'
        X = xr.make_X('random', n, d, rng); y = xr.make_y(task, X, rng)
        Xv = xr.make_X('random', 50, d, rng); yv = xr.make_y(task, Xv, rng)
        # categorical columns declared to the estimator (one-hot groups + numerical columns), with the leaf option `fast_categorical` absent / on / off: the fresh
        # model that loads the state builds its leaves from the same parameters as the fit did
        cat_regime = (i % 10 in (1, 8)) and (i % 7 not in (3, 5)) and (i % 9 != 7) and not depth0
        cat_kw = {}
        if cat_regime:
            levels_c = [3, 2]; nnum_c = 2; d = nnum_c + sum(levels_c)
            def catrows(k):
                R = np.zeros((k, d), dtype=np.float32); R[:, :nnum_c] = rng.standard_normal((k, nnum_c)); o_ = nnum_c
                for lv in levels_c:
                    R[np.arange(k), o_ + rng.integers(0, lv, size=k)] = 1.0; o_ += lv
                return R
            X = catrows(n); Xv = catrows(50); y = xr.make_y(task, X, rng); yv = xr.make_y(task, Xv, rng)
            o_ = nnum_c; cidx = []
            for lv in levels_c:
                cidx.append(torch.arange(o_, o_ + lv)); o_ += lv
            # every other time: the columns of a group are listed in another order than they sit in the matrix, and the category embeddings are not the identity (the position
            # of a column in its group says which embedding row it selects — that association is part of the state that has to come back)
            if i % 10 == 8 and (i // 10) % 2 == 0:
                cidx = [ix.flip(0) if g % 2 == 0 else ix[torch.randperm(len(ix))] for g, ix in enumerate(cidx)]
                cvec = [torch.tensor(rng.standard_normal((lv, lv)).astype(np.float32)) + torch.eye(lv) for lv in levels_c]
                ck.count('categorical groups listed in non-ascending column order, non-identity embeddings')
            else:
                cvec = [torch.eye(lv) for lv in levels_c]
            cat_kw = dict(categorical_info=dict(numerical_indices=torch.arange(nnum_c), categorical_indices=cidx, categorical_vectors=cvec))
            fc_mode = [True, 'absent', False][(i // 10) % 3] if i % 10 == 8 else ['absent', False, True][(i // 10) % 3]
            if kern in ('l2_high_dim', 'sum_power_laplace') and fc_mode is True:
                fc_mode = 'absent'
            extra = dict(extra, **({} if fc_mode == 'absent' else dict(fast_categorical=fc_mode)))
            ck.count(f'categorical_info given, fast_categorical {fc_mode}')
        # label ids with a gap (classes 0, 1, 3: id 2 never occurs): whatever the fit learns about which ids occur has to survive the round trip
        if task == 'class' and i % 8 == 5 and not cat_regime:
            y = np.where(y == 2, 3, y).astype(y.dtype); yv = np.where(yv == 2, 3, yv).astype(yv.dtype); y[0] = 3; yv[0] = 3
            ck.count('class ids with a gap')
        # degenerate gate scale: an indicator feature that is 0 for 80% of the rows, split along it, soft routing -> the inter-quartile
        # range of the projections is 0 and the stored adaptive scale sits at its 1e-6 clamp
        flat_gate = (i % 7 == 3) and not depth0
        gate_kw = {}
        if flat_gate:
            X[:, 0] = (rng.random(n) < 0.2).astype(np.float32); Xv[:, 0] = (rng.random(50) < 0.2).astype(np.float32)
            fv = np.zeros(d, dtype=np.float32); fv[0] = 1.0
            gate_kw = dict(split_method='fixed_vector', fixed_vector=torch.tensor(fv))
            tuned = False; fixedT = 0.3; L = max(L, n // 3)
        # a split direction that is not of unit length (fixed_vector takes the user's vector as it is) with soft routing: the gate's logit is
        # (projection - split_point) / (T * scale), so direction, point and scale have to come back together
        nonunit_gate = (i % 7 == 5) and not depth0 and not flat_gate and (i % 9 != 7)
        if nonunit_gate:
            fv = (rng.integers(-8, 9, size=d) / 2.0).astype(np.float32); fv[0] = 2.5
            gate_kw = dict(split_method='fixed_vector', fixed_vector=torch.tensor(fv))
            tuned = bool(i % 2); fixedT = None if tuned else 0.7
        # a positive temperature is configured, tuning is on and selects hard routing (its only candidate is 0): the learned value None differs
        # from the constructor value that a fresh model starts with
        tuned_to_hard = (i % 8 == 4) and not flat_gate and not depth0 and not nonunit_gate
        if tuned_to_hard:
            tuned = True; fixedT = 0.6
        desc = dict(i=i, kernel=kern, task=task, cmode=cmode, n_trees=n_trees, n=n, L=L, f=f, bw=bw, tuned=tuned, tuned_to_hard=tuned_to_hard, fixedT=fixedT, diag=bool(i % 2), tree_iters=int(i % 4 == 2 and not flat_gate and not nonunit_gate), flat_gate=flat_gate, nonunit_gate=nonunit_gate, categorical=cat_regime, seed=ck.seed)
        ctor = dict(rfm_params=xr.default_rfm_params(kernel=kern, iters=1, diag=bool(i % 2), bandwidth=3.0, exponent=[1.0, 1.2][i % 2],
                                                     bandwidth_mode=bw, reg=1e-2, **extra),
                    max_leaf_size=L, n_trees=n_trees, overlap_fraction=f, verbose=False, classification_mode=cmode,
                    use_temperature_tuning=tuned, split_temperature=fixedT, temp_tuning_space=([0.0] if tuned_to_hard else [0.0, 0.1, 0.7, 2.5]), refill_size=20,
                    **cat_kw,
                    **(gate_kw if (flat_gate or nonunit_gate) else dict(split_method='random_global_agop', n_tree_iters=1) if i % 4 == 2 else {}))
        if i % 7 == 6:
            ctor['rfm_params'] = None          # the library's default leaf model (rfm_params=None)
            desc['default_params'] = True
        # logistic leaf solver (binary, zero_one encoding), given either with the model or with the fit parameters
        if task == 'class' and i % 4 == 1 and ctor['rfm_params'] is not None:
            place = ['fit', 'model'][(i // 4) % 2]
            ctor['rfm_params'][place]['solver'] = 'log_reg'
            ctor['classification_mode'] = 'zero_one'
            y = (y > 0).astype(y.dtype); yv = (yv > 0).astype(yv.dtype); y[0] = 0; y[1] = 1; yv[0] = 0; yv[1] = 1
            desc['solver'] = f'log_reg ({place})'; desc['cmode'] = 'zero_one'
        # boundary overlap: overlap_fraction = 0.5 with one forced split — BOTH leaves receive every training row; a first pass finds how many validation rows the
        # left leaf gets, the second pass sets the refill size to exactly that number, so the refill moves nothing but still permutes that leaf's rows:
        # a leaf that holds all n training rows in another order than the training matrix
        boundary = (i % 9 == 7) and not flat_gate
        if boundary:
            ctor.update(overlap_fraction=0.5, number_of_splits=1, max_leaf_size=10_000, refill_size=0, split_method='top_vector_agop_on_subset', n_tree_iters=0, n_trees=1)
            ctor.pop('fixed_vector', None)
            xr.seed_all(3100 + i + ck.seed)
            probe = xr.xRFM(**copy.deepcopy(ctor))
            try:
                with xr.quiet():
                    probe.fit(torch.tensor(X), torch.tensor(y), torch.tensor(Xv), torch.tensor(yv))
                t0_ = probe.trees[0]
                if t0_['type'] != 'leaf':
                    nleft = int((torch.tensor(Xv) @ t0_['split_direction'] <= t0_['split_point']).sum())
                    ctor['refill_size'] = nleft
                    desc.update(boundary_overlap=True, refill_size=nleft); ck.count('boundary overlap 0.5, refill size = routed validation rows of the left leaf')
            except Exception as e:
                ck.notes.append(f'boundary probe fit failed: {e!r}'[:200])
        xr.seed_all(3100 + i + ck.seed)
        src = xr.xRFM(**copy.deepcopy(ctor))
        try:
            with xr.quiet():
                src.fit(torch.tensor(X), torch.tensor(y), torch.tensor(Xv), torch.tensor(yv))
        except Exception as e:
            ck.count('fit failed'); ck.notes.append(f'fit failed {desc}: {e!r}'[:200]); continue
        Q = torch.tensor(np.concatenate([X[:5], xr.make_X('random', 12, d, rng), 50 * xr.make_X('random', 2, d, rng)]).astype(np.float32))
        if cat_regime:
            Q = torch.tensor(np.concatenate([X[:5], catrows(14)]).astype(np.float32))
        is_class = task == 'class'
        split = any(tt['type'] != 'leaf' for tt in src.trees)
        ck.count(f'kernel={kern}'); ck.count(f'task={task}'); ck.count(f'stored T={src.split_temperature is not None}'); ck.count('split' if split else 'single-leaf')

        def outputs(m):
            with xr.quiet():
                o = [np.asarray(m.predict(Q))]
                if is_class:
                    o.append(np.asarray(m.predict_proba(Q)))
            return o
        before = outputs(src)
        snap0 = snapshot(src)
        with xr.quiet():
            sd = src.get_state_dict()
        snap1 = snapshot(src)
        after = outputs(src)
        ck.case(dict(desc, split=split, stored_T=src.split_temperature), nontrivial=split, sample=(i == 2))
        if snap0 != snap1 or any(not np.array_equal(a, b) for a, b in zip(before, after)):
            ck.violation(f'get_state_dict changed the source model on {desc}', dict(desc), key=json.dumps(dict(site='export-pure')))
        sd2 = copy.deepcopy(sd)
        m1 = xr.xRFM(**copy.deepcopy(ctor))
        with xr.quiet():
            m1.load_state_dict(sd2, torch.tensor(X))
        o1 = outputs(m1)
        if sd_found is not None and i < ck.n(8, 30):
            # model's export / load run in Coq on THIS fitted tree vs the real param tree / the real loaded tree; centres hypothesis of the theorem decided on it
            try:
                sd_cases += stateops.tree_cases(f'f{i}', src.trees, sd['param_trees'], m1.trees, torch.tensor(X), sd_found)
                sd_meta[f'f{i}'] = desc
            except Exception as e:
                ck.obligation(f'state-dict correspondence: the trees of fit {i} are expressible in the model', 'correspondence', False, repr(e))
        with xr.quiet():
            sd3 = copy.deepcopy(m1.get_state_dict())
        m2 = xr.xRFM(**copy.deepcopy(ctor))
        with xr.quiet():
            m2.load_state_dict(sd3, torch.tensor(X))
        o2 = outputs(m2)
        # the SAME state dict object loaded into a second fresh model (replicas): loading must not consume the dict
        m3 = xr.xRFM(**copy.deepcopy(ctor))
        try:
            with xr.quiet():
                m3.load_state_dict(sd2, torch.tensor(X))
            o3 = outputs(m3); o1b = outputs(m1)
        except Exception as e:
            ck.violation(f'loading the same state dict into a second fresh model raised {e!r} on {desc}', dict(desc, error=repr(e)), key=json.dumps(dict(site='roundtrip', what='second-load-raise')))
            o3 = o1b = None
        for name, oo in (('loaded', o1), ('load of a load', o2)) + ((('second model loaded from the same dict', o3), ('first loaded model after the second load', o1b)) if o3 is not None else ()):
            for a, b, what in zip(before, oo, ('predict', 'predict_proba')):
                if a.shape != b.shape or not np.array_equal(a, b):
                    diff = float(np.max(np.abs(a.astype(float) - b.astype(float)))) if a.shape == b.shape else 'shape'
                    ck.violation(f'{what} of the {name} model differs from the source model (max diff {diff}); source split_temperature={src.split_temperature}, '
                                 f'{name} split_temperature={m2.split_temperature if name == "load of a load" else m1.split_temperature} on {desc}',
                                 dict(desc, what=what, which=name, maxdiff=diff, src_T=src.split_temperature),
                                 key=json.dumps(dict(site='roundtrip', tuned_T=(src.split_temperature is not None and tuned), what=what)))
    uneven_tree_regime(ck, xr)
    if sd_cases:
        res = ck.run_bool_cases('statedict', stateops.RUN_HEADER + sd_defs, sd_cases, shard=9)
        bad = [k for k, v in res.items() if v is not True]
        ck.obligation(f'correspondence: on {len(sd_cases) // 3} real fitted trees the model\'s export == the real param tree, the model\'s load of it == the real loaded tree '
                      f'(node dicts, restored attributes, gathered centres), and the fitted tree meets the centres hypothesis of the round-trip theorem (vm_compute)',
                      'correspondence', not bad, f'failing cases: {bad[:6]}')
        for k in bad[:3]:
            tag, what = k.split(':')
            d_ = sd_meta.get(tag.rsplit('_', 1)[0], {})
            ck.violation({'export': 'the real exported tree differs from the model\'s export of the fitted tree (an entry is not a plain copy of what the table says)',
                          'load': 'the real loaded tree differs from the model\'s load of the exported tree',
                          'view': 'prediction reads other values on the loaded tree than on the source tree, or a fitted leaf\'s centres are not the training rows its index list names'}[what]
                         + f' (tree {tag}) on {d_}', dict(d_, case=k), key=json.dumps(dict(site='statedict-correspondence', what=what)))
