"""Emitting real-valued Coq terms for kernel inputs (shared by C04, C05, C15, C19)."""
from harness.common import coq_R, coq_list

RHEADER = '''From Coq Require Import Reals List Lra.
From Interval Require Import Tactic.
Require Import XV.Real.Kernels.
Import ListNotations. Open Scope R_scope.
Ltac kern_unfold :=
  cbv [laplace_l2 laplace_light laplace_product laplace_lpq sum_power cdist2 cdistp light_sq sum_abs_pow transform xmat
       closed_l2 closed_lpq closed_product closed_sum_power norm2 normp
       vsubR vaddR vmulR vscaleR vdotR sumsq rsumR map fold_right repeat length].
(* side conditions of the closed-form theorems on concrete lists *)
Ltac kern_side := cbn; first [reflexivity | lra | repeat split; repeat constructor].
(* innermost powers first (|u|^p of a coordinate), then roots / clamps / outer powers *)
Ltac pw_abs := repeat match goal with |- context [pw (Rabs ?u) ?p] => rewrite (pw_pos (Rabs u) p) by interval end.
Ltac pw_rest := repeat first [ rewrite Rmax_right by (first [apply sqrt_pos | interval])
                             | match goal with |- context [pw ?d ?p] => rewrite (pw_pos d p) by interval end ].
Ltac kern_simpl := kern_unfold; pw_abs; pw_rest.
(* go through the closed form when a theorem provides it (smaller, better conditioned expression) *)
Ltac kern_closed :=
  first [ rewrite laplace_l2_closed_form by kern_side
        | rewrite laplace_lpq_closed_form by kern_side
        | rewrite laplace_product_closed_form by kern_side
        | rewrite sum_power_closed_form by kern_side
        | idtac ].
'''


def rvec(v):
    return coq_list([coq_R(float(x)) for x in v])


def rmat(m):
    return coq_list([rvec(r) for r in m])


def tmat(mat):
    """mat: None | 1-D sequence | 2-D (d_in x d_out)"""
    if mat is None:
        return 'TNone'
    import numpy as np
    a = np.asarray(mat, dtype=float)
    if a.ndim == 1:
        return f'(TDiag {rvec(a)})'
    return f'(TFull {a.shape[1]}%nat {rmat(a)})'


def model_term(kname, mat, L, q, x, z, p=None, const_mix=0.0, power=2):
    t = tmat(mat)
    if kname == 'l2':
        return f'laplace_l2 {t} {coq_R(L)} {coq_R(q)} {rvec(x)} {rvec(z)}'
    if kname == 'l2_light':
        return f'laplace_light {t} {coq_R(L)} {coq_R(q)} {rvec(x)} {rvec(z)}'
    if kname == 'l1':
        return f'laplace_product {t} {coq_R(L)} {coq_R(q)} {rvec(x)} {rvec(z)}'
    if kname == 'lpq':
        return f'laplace_lpq {t} {coq_R(L)} {coq_R(p)} {coq_R(q)} {rvec(x)} {rvec(z)}'
    if kname == 'sum_power':
        return f'sum_power {t} {coq_R(L)} {coq_R(q)} {coq_R(const_mix)} {int(power)}%nat {rvec(x)} {rvec(z)}'
    raise ValueError(kname)
