"""Fail-closed translator for the label encoder / decoder (C12, C13): `ClassificationConverter.numerical_to_probas`, `numerical_to_labels`,
`labels_to_numerical` and the prevalence construction in `__init__` are re-read from the current source with `ast` on every run and emitted as Coq terms
over Q for one generic row; lemmas `generated = model` are re-proved against coq/Model/Labels.v.

 decode (zero_one)    [1 - x, x] for a single column ; clamp(eps, 1 - eps) ; divide by the row sum              -> probas_zero_one
 decode (prevalence)  [num, 1] @ invA^T ; clamp ; divide by the row sum                                         -> probas_prevalence
 labels               arg-max of the decoded probabilities (sigmoid first only for the logistic solver's logits) -> labels_*
 encode               zero_one: the label itself for K = 2, one-hot otherwise ; prevalence: row `label` of C     -> encode_*
 construction         prior = counts / total ; Q from QR of [e_i - e_K] ; C = Q - prior @ Q ; invA = inv([C^T ; 1^T])   (structure; the algebra is Real/Simplex.v)
Anything outside the recognised shapes raises TranslationError."""
import ast, os
from harness.common import REPO
from harness.splitarith import TranslationError
from harness.kernelops import _cls_method


def _nodoc(body):
    return [s for s in body if not (isinstance(s, ast.Expr) and isinstance(s.value, ast.Constant))]


def _row(e, env):
    """one-row (list Q) expressions"""
    u = ast.unparse(e)
    if isinstance(e, ast.Name) and e.id in env:
        return env[e.id]
    # torch.cat([1 - num, num], dim=1)
    if isinstance(e, ast.Call) and ast.unparse(e.func) == 'torch.cat' and len(e.args) == 1 and isinstance(e.args[0], ast.List) \
            and {k.arg: ast.unparse(k.value) for k in e.keywords} == {'dim': '1'}:
        parts = []
        for it in e.args[0].elts:
            ui = ast.unparse(it)
            if isinstance(it, ast.BinOp) and isinstance(it.op, ast.Sub) and ast.unparse(it.left) == '1' and ast.unparse(it.right) in env:
                parts.append(f'(map (fun x => 1 - x) {env[ast.unparse(it.right)]})')
            elif ui in env:
                parts.append(env[ui])
            elif ui == 'num.to(dtype=invA.dtype)' and 'num' in env:
                parts.append(env['num'])                         # a cast: the rational value is unchanged
            else:
                raise TranslationError(f'class_conversion: unsupported concatenation part {ui}')
        return '(' + ' ++ '.join(parts) + ')'
    if isinstance(e, ast.Call) and ast.unparse(e.func) == 'torch.clamp' and len(e.args) == 3 and not e.keywords and ast.unparse(e.args[1]) == 'eps' \
            and ast.unparse(e.args[2]) == '1 - eps':
        return f'(map (qclamp eps (1 - eps)) {_row(e.args[0], env)})'
    if isinstance(e, ast.BinOp) and isinstance(e.op, ast.Div) and isinstance(e.right, ast.Call) and isinstance(e.right.func, ast.Attribute) \
            and e.right.func.attr == 'sum' and ast.unparse(e.right.func.value) == ast.unparse(e.left) \
            and {k.arg: ast.unparse(k.value) for k in e.right.keywords} == {'dim': '1', 'keepdim': 'True'}:
        v = _row(e.left, env)
        return f'(let v := {v} in let s := qsum v in map (fun x => x / s) v)'
    if isinstance(e, ast.BinOp) and isinstance(e.op, ast.MatMult) and ast.unparse(e.right) == 'invA.T':
        return f'(map (fun row => dot {_row(e.left, env)} row) invA)'
    raise TranslationError(f'class_conversion: unsupported row expression {u[:120]}')


def translate_probas(fn):
    a = fn.args
    if [x.arg for x in a.args] != ['self', 'num', 'eps'] or [ast.unparse(d) for d in a.defaults] != ['0.001']:
        raise TranslationError('numerical_to_probas signature / default eps changed')
    body = _nodoc(fn.body)
    if len(body) < 2 or not (isinstance(body[0], ast.If) and ast.unparse(body[0].test) == "self.mode == 'zero_one'" and not body[0].orelse):
        raise TranslationError('numerical_to_probas: expected the zero_one branch first')
    # ---- zero_one ----
    zb = body[0].body
    src = [ast.unparse(s) for s in zb]
    if src[0] != 'if num.ndim == 1:\n    num = num.unsqueeze(-1)':
        raise TranslationError(f'numerical_to_probas (zero_one): first statement is {src[0][:100]!r}')
    st = zb[1]
    if not (isinstance(st, ast.If) and ast.unparse(st.test) == 'num.shape[1] == 1' and len(st.body) == 1 and not st.orelse and isinstance(st.body[0], ast.Assign)
            and ast.unparse(st.body[0].targets[0]) == 'num'):
        raise TranslationError('numerical_to_probas (zero_one): single-column expansion not found')
    single = _row(st.body[0].value, {'num': 'num'})
    env = {'num': f'(match num with [x] => {single.replace("num", "[x]")} | _ => num end)'}
    if not (isinstance(zb[2], ast.Assign) and ast.unparse(zb[2].targets[0]) == 'num'):
        raise TranslationError('numerical_to_probas (zero_one): clamp statement not found')
    env['num'] = _row(zb[2].value, env)
    if not (isinstance(zb[3], ast.Return) and len(zb) == 4):
        raise TranslationError('numerical_to_probas (zero_one): expected clamp then return')
    zero_one = _row(zb[3].value, env)
    # ---- prevalence ----
    pb = body[1:]
    src = [ast.unparse(s) for s in pb]
    want = ['if num.ndim == 1:\n    num = num.unsqueeze(0)', 'invA = self._invA.to(num.device)', 'N = num.shape[0]',
            'ones = torch.ones((N, 1), dtype=invA.dtype, device=num.device)']
    if src[:4] != want:
        k = next(i for i in range(4) if src[i] != want[i])
        raise TranslationError(f'numerical_to_probas (prevalence): statement {k} is {src[k][:120]!r}')
    env = {'num': 'num', 'ones': '[1]'}
    for st in pb[4:-1]:
        if not (isinstance(st, ast.Assign) and isinstance(st.targets[0], ast.Name)):
            raise TranslationError(f'numerical_to_probas (prevalence): statement {ast.unparse(st)[:100]!r}')
        env[st.targets[0].id] = _row(st.value, env)
    if not isinstance(pb[-1], ast.Return):
        raise TranslationError('numerical_to_probas (prevalence): no return')
    prevalence = _row(pb[-1].value, env)
    return zero_one, prevalence


def check_labels(fn):
    src = [ast.unparse(s) for s in _nodoc(fn.body)]
    want = ["if self._numerical_type == 'logit_diff' and self.n_classes == 2:\n    assert self.mode == 'zero_one'\n    num = torch.sigmoid(num)",
            'probs = self.numerical_to_probas(num)', 'return probs.argmax(dim=-1)']
    if src != want:
        raise TranslationError(f'numerical_to_labels is not (sigmoid for logistic logits only; decode; arg-max of the probabilities): {src}')


def check_encode(fn):
    src = [ast.unparse(s) for s in _nodoc(fn.body)]
    want = ["if self.mode == 'zero_one':\n    if self.n_classes == 2:\n        return labels.float().reshape(-1, 1)\n"
            "    return F.one_hot(labels.long().reshape(-1), num_classes=self.n_classes).float()",
            'C = self._C.to(labels.device)', 'return C[labels.long().reshape(-1)]']
    if src != want:
        raise TranslationError(f'labels_to_numerical is not (label itself for K = 2 | one-hot | row of C): {src}')


def check_construction(fn):
    body = _nodoc(fn.body)
    blk = None
    for st in body:
        if isinstance(st, ast.If) and ast.unparse(st.test) == "self.mode == 'prevalence'":
            blk = st
    if blk is None:
        raise TranslationError('ClassificationConverter.__init__: prevalence branch not found')
    src = [ast.unparse(s) for s in blk.body]
    want = ["if labels is None:\n    raise ValueError(\"labels must be provided for mode='prevalence'.\")",
            'counts = torch.bincount(labels.cpu().long().reshape(-1), minlength=n_classes).float()', 'total = counts.sum()',
            "if total.item() == 0:\n    raise ValueError(\"labels must contain at least one element for mode='prevalence'.\")",
            'prior = counts / total', 'K = n_classes', 'I = torch.eye(K, dtype=torch.float32)', 'M = I[:, :-1] - I[:, [-1]]',
            "Q, _ = torch.linalg.qr(M, mode='reduced')", 'mu = prior @ Q', 'C = Q - mu',
            'A = torch.cat([C.T, torch.ones(1, K, dtype=torch.float32)], dim=0)', 'invA = torch.linalg.inv(A)',
            'self._prior = prior', 'self._C = C', 'self._invA = invA']
    if src != want:
        k = next((i for i in range(min(len(src), len(want))) if src[i] != want[i]), min(len(src), len(want)))
        raise TranslationError(f'prevalence construction changed at statement {k}: {(src[k] if k < len(src) else "<missing>")[:140]!r}')


def check_leaf_proba():
    rtree = ast.parse(open(os.path.join(REPO, 'xrfm', 'rfm_src', 'recursive_feature_machine.py')).read())
    fn = _cls_method(rtree, 'RFM', 'predict_proba')
    a = fn.args
    if [x.arg for x in a.args] != ['self', 'samples', 'eps'] or [ast.unparse(d) for d in a.defaults] != ['0.001']:
        raise TranslationError('RFM.predict_proba signature / default eps changed')
    src = [ast.unparse(s) for s in _nodoc(fn.body)]
    want = ['predictions = self.predict(samples)',
            "if self.solver == 'log_reg':\n    assert self.class_converter.mode == 'zero_one'\n    predictions = torch.sigmoid(predictions)\n    eps = 1e-10",
            'return self.class_converter.numerical_to_probas(predictions, eps=eps)']
    if src != want:
        raise TranslationError(f'RFM.predict_proba is not (predict; sigmoid + eps 1e-10 for the logistic solver only; decode with eps): {src}')


def generate():
    check_leaf_proba()
    tree = ast.parse(open(os.path.join(REPO, 'xrfm', 'rfm_src', 'class_conversion.py')).read())
    z, p = translate_probas(_cls_method(tree, 'ClassificationConverter', 'numerical_to_probas'))
    check_labels(_cls_method(tree, 'ClassificationConverter', 'numerical_to_labels'))
    check_encode(_cls_method(tree, 'ClassificationConverter', 'labels_to_numerical'))
    check_construction(_cls_method(tree, 'ClassificationConverter', '__init__'))
    return f'''(* GENERATED on every run by harness/convops.py from /repo/xrfm/rfm_src/class_conversion.py — do not edit *)
From Coq Require Import QArith List Bool Arith.
Require Import XV.Model.Tree XV.Model.Soft XV.Model.Labels.
Import ListNotations.
Local Open Scope Q_scope.

Definition gen_probas_zero_one (eps : Q) (num : list Q) : list Q := {z}.
Definition gen_probas_prevalence (eps : Q) (invA : list (list Q)) (num : list Q) : list Q := {p}.
Lemma gen_probas_zero_one_eq_model : forall eps num, gen_probas_zero_one eps num = probas_zero_one eps num.
Proof. intros. unfold gen_probas_zero_one, probas_zero_one, normalise. destruct num as [|x [|y t]]; reflexivity. Qed.
Lemma gen_probas_prevalence_eq_model : forall eps invA num, gen_probas_prevalence eps invA num = probas_prevalence eps invA num.
Proof. intros. reflexivity. Qed.
'''


def check_translation(ck):
    from harness.common import coqc
    try:
        txt = generate()
        p = os.path.join(ck.bdir, 'ConvOps_gen.v')
        open(p, 'w').write(txt)
        rc, out, dt = coqc(p)
        ck.checker_cmds.append(f'coqc build/{ck.pid}/run_<pid>/ConvOps_gen.v')
        ck.obligation('ConvOps_gen.v: the decoder of both label encodings (single-column expansion, clamp to [eps, 1-eps], row normalisation; [num, 1] @ invA^T), '
                      're-translated from the source, equals the Coq Q model; arg-max labels, encoders and the prevalence construction have the recognised structure',
                      'translation', rc == 0, out)
        return rc == 0
    except TranslationError as e:
        ck.obligation('convops translator recognises the source', 'translation', False, str(e))
        return False
