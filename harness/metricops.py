"""Fail-closed translator for the tuning metrics (C16): the metric classes of xrfm/rfm_src/metrics.py are re-read from the
*current* source with Python's `ast`.  The torch-only metrics (mse, mae, accuracy, brier; rmse up to its final sqrt) are executed
symbolically and emitted as Coq terms over exact rationals, with lemmas `generated = hand model (coq/Model/Metrics.v)` re-proved
on every run; the declared attributes (name, should_maximize, required quantities) are emitted as a table proved equal to the
model's direction table; for the metrics delegated to scikit-learn (auc, f1, log-loss) the call is matched structurally against the
call the Coq definitions were written for (binary -> positive column / average='binary', otherwise one-vs-rest / macro over ALL
classes, labels = every class).  Anything outside the recognised subset raises TranslationError."""
import ast, os
from harness.common import REPO
from harness.splitarith import TranslationError


def _classes(tree):
    return {n.name: n for n in tree.body if isinstance(n, ast.ClassDef)}


def _attr(cls, name):
    for it in cls.body:
        if isinstance(it, ast.Assign) and len(it.targets) == 1 and isinstance(it.targets[0], ast.Name) and it.targets[0].id == name:
            return ast.literal_eval(it.value)
    raise TranslationError(f'{cls.name}: attribute {name} not found')


def _compute(cls):
    for it in cls.body:
        if isinstance(it, ast.FunctionDef) and it.name == '_compute':
            return [s for s in it.body if not (isinstance(s, ast.Expr) and isinstance(s.value, ast.Constant))]
    raise TranslationError(f'{cls.name}: _compute not found')


class T:
    """symbolic tensors: ('mat', term) list (list Q); ('ew', body) elementwise function of the pair ab = (true, predicted) over `pairs t p`"""
    def __init__(self, cls, targets):
        self.cls = cls
        self.t = targets          # coq term for the first operand (true values as a matrix)

    def val(self, e):
        u = ast.unparse(e)
        if u == "kwargs['y_true_reg']":
            return ('mat', 't')
        if u in ("kwargs['y_pred']", "kwargs['y_pred_proba']"):
            return ('mat', 'p')
        if u == 'y_onehot':
            return ('mat', '(map (one_hot (nclasses p)) y)')
        if isinstance(e, ast.BinOp) and isinstance(e.op, ast.Sub):
            a, b = self.val(e.left), self.val(e.right)
            if a[0] == 'mat' and b == ('mat', 'p'):
                return ('ew', a[1], '(fst ab - snd ab)')
        if isinstance(e, ast.Call) and isinstance(e.func, ast.Attribute) and not e.args and not e.keywords:
            v = self.val(e.func.value)
            op = e.func.attr
            if v[0] == 'ew' and op == 'square':
                return ('ew', v[1], f'({v[2]} * {v[2]})')
            if v[0] == 'ew' and op == 'abs':
                return ('ew', v[1], f'(Qabs {v[2]})')
            if v[0] == 'ew' and op == 'mean':
                return ('scalar', f'(qmean (map (fun ab => {v[2]}) (pairs {v[1]} p)))')
            if v[0] == 'scalar' and op == 'item':
                return v
            if v[0] == 'scalar' and op == 'sqrt':
                return ('sqrt', v[1])
            if v[0] == 'sqrt' and op == 'item':
                return v
        raise TranslationError(f'{self.cls}: unsupported expression {u}')


def generate():
    tree = ast.parse(open(os.path.join(REPO, 'xrfm', 'rfm_src', 'metrics.py')).read())
    C = _classes(tree)
    want = {'MSE': 'mse', 'RMSE': 'rmse', 'MAE': 'mae', 'Accuracy': 'accuracy', 'Brier': 'brier', 'AUC': 'auc', 'F1': 'f1', 'Logloss': 'logloss'}
    ctor = dict(mse='Mse', rmse='Rmse', mae='Mae', accuracy='Accuracy', brier='Brier', logloss='Logloss', f1='F1', auc='Auc')
    req = dict(mse=['y_true_reg', 'y_pred'], rmse=['y_true_reg', 'y_pred'], mae=['y_true_reg', 'y_pred'], accuracy=['y_true_class', 'y_pred_proba'],
               brier=['y_true_class', 'y_pred_proba'], auc=['y_true_class', 'y_pred_proba'], f1=['y_true_class', 'y_pred_proba'],
               logloss=['y_true_class', 'y_pred_proba'])
    flags = {}
    for cn, nm in want.items():
        if cn not in C:
            raise TranslationError(f'metric class {cn} not found')
        if _attr(C[cn], 'name') != nm:
            raise TranslationError(f'{cn}.name is {_attr(C[cn], "name")!r}, expected {nm!r}')
        if _attr(C[cn], 'required_quantities') != req[nm]:
            raise TranslationError(f'{cn}.required_quantities is {_attr(C[cn], "required_quantities")}')
        flags[nm] = bool(_attr(C[cn], 'should_maximize'))
    g = {}
    for cn in ('MSE', 'RMSE', 'MAE'):
        b = _compute(C[cn])
        if len(b) != 1 or not isinstance(b[0], ast.Return):
            raise TranslationError(f'{cn}._compute: expected a single return')
        g[cn] = T(cn, 't').val(b[0].value)
    if g['RMSE'][0] != 'sqrt':
        raise TranslationError('RMSE does not end with sqrt')
    # accuracy
    b = _compute(C['Accuracy'])
    if [ast.unparse(s) for s in b] != ["nz = torch.count_nonzero(kwargs['y_true_class'] == kwargs['y_pred_proba'].argmax(dim=-1))",
                                       "return (nz / kwargs['y_pred_proba'].shape[-2]).item()"]:
        raise TranslationError('Accuracy._compute: unexpected form ' + ' | '.join(ast.unparse(s) for s in b))
    # brier
    b = _compute(C['Brier'])
    if len(b) != 2 or ast.unparse(b[0]) != "y_onehot = torch.nn.functional.one_hot(kwargs['y_true_class'], num_classes=kwargs['y_pred_proba'].shape[-1]).float()" \
            or not isinstance(b[1], ast.Return):
        raise TranslationError('Brier._compute: unexpected form')
    g['Brier'] = T('Brier', '(map (one_hot (nclasses p)) y)').val(b[1].value)
    # sklearn-backed metrics: the calls the Coq definitions model
    b = [ast.unparse(s) for s in _compute(C['AUC'])]
    if b != ["probas = kwargs['y_pred_proba'].cpu().numpy()", 'if probas.shape[1] == 2:\n    probas = probas[:, 1]',
             "return roc_auc_score(kwargs['y_true_class'].cpu().numpy(), probas, multi_class='ovr')"]:
        raise TranslationError('AUC._compute is not (positive column when binary, one-vs-rest otherwise): ' + ' | '.join(b))
    b = [ast.unparse(s) for s in _compute(C['F1'])]
    if b != ["y_pred_proba = kwargs['y_pred_proba']", 'n_classes = y_pred_proba.shape[-1]',
             "return sklearn.metrics.f1_score(kwargs['y_true_class'].cpu().numpy(), y_pred_proba.argmax(dim=-1).cpu().numpy(), average='binary' if n_classes == 2 else 'macro')"]:
        raise TranslationError("F1._compute is not f1_score(y, argmax, average='binary' if 2 classes else 'macro') over all classes: " + ' | '.join(b))
    b = [ast.unparse(s) for s in _compute(C['Logloss'])]
    if b != ["return log_loss(kwargs['y_true_class'].cpu().numpy(), kwargs['y_pred_proba'].cpu().numpy(), labels=list(range(kwargs['y_pred_proba'].shape[-1])))"]:
        raise TranslationError('Logloss._compute is not log_loss(y, P, labels=all classes): ' + ' | '.join(b))
    tbl = '\n'.join(f'  | {ctor[n]} => {"true" if f else "false"}' for n, f in flags.items())
    return f'''(* GENERATED on every run by harness/metricops.py from /repo/xrfm/rfm_src/metrics.py — do not edit *)
From Coq Require Import QArith Qabs List Bool Arith.
Require Import XV.Model.Tree XV.Model.Soft XV.Model.Labels XV.Model.Metrics.
Import ListNotations.
Local Open Scope Q_scope.

Definition gen_should_maximize (m : metric) : bool :=
  match m with
{tbl}
  end.
Lemma gen_directions_eq_model : forall m, gen_should_maximize m = should_maximize m.
Proof. intros []; reflexivity. Qed.

Definition gen_mse (t p : list (list Q)) : Q := {g['MSE'][1]}.
Definition gen_rmse_squared (t p : list (list Q)) : Q := {g['RMSE'][1]}.
Definition gen_mae (t p : list (list Q)) : Q := {g['MAE'][1]}.
Definition gen_brier (y : list nat) (p : list (list Q)) : Q := {g['Brier'][1]}.
Lemma gen_metrics_eq_model : forall t p, gen_mse t p = mse t p /\\ gen_rmse_squared t p = mse t p /\\ gen_mae t p = mae t p.
Proof. intros. repeat split; reflexivity. Qed.
Lemma gen_brier_eq_model : forall y p, gen_brier y p = brier y p.
Proof. intros. reflexivity. Qed.
'''


def check_translation(ck):
    from harness.common import coqc
    try:
        txt = generate()
        p = os.path.join(ck.bdir, 'MetricOps_gen.v')
        open(p, 'w').write(txt)
        rc, out, dt = coqc(p)
        ck.checker_cmds.append(f'coqc build/{ck.pid}/run_<pid>/MetricOps_gen.v')
        ck.obligation('MetricOps_gen.v: declared names / directions / required quantities, the torch op sequences of mse, rmse, mae, brier (and the form of accuracy), '
                      'and the scikit-learn calls of auc, f1, log-loss, re-read from the source, equal the Coq model', 'translation', rc == 0, out)
        return rc == 0
    except TranslationError as e:
        ck.obligation('metricops translator recognises the source', 'translation', False, str(e))
        return False
