"""C12 — Class probabilities are valid distributions and consistent with labels."""
import json
from fractions import Fraction
import numpy as np
import torch
from harness.common import *

HEADER = '''From Coq Require Import QArith List Bool Arith.
Require Import XV.Model.Tree XV.Model.Soft XV.Model.Labels.
Import ListNotations. Open Scope Q_scope.
'''
EPSQ = '(1#1000)'


def run(ck):
    from harness import xr
    ck.rule = ('real classification fits (2-6 classes, balanced to 95:5, both encodings, all classification metrics, 1-3 trees, hard and soft routing, '
               'requested trees > built trees included); query rows: training rows, random rows, rows at scale 1e6.  Every probability row is checked '
               'for validity, labels for range and (single hard tree) argmax consistency, prevalence far rows against the training frequencies; '
               'the raw per-tree leaf outputs are fed to the Coq Q model (decode, clamp, normalise, tree mean) and compared with predict_proba. '
               'non-trivial = >= 3 classes or >= 2 trees or a split tree; distinct by configuration hash')
    ck.trusted += ['Coq 8.16.1 kernel + vm_compute', 'float32 -> Q printing']
    ck.assumptions += ['float32 decode vs exact model tolerance 3e-5', 'AUC runs only where every leaf validation set has every class (else skipped)']
    ck.check_theorems()
    from harness import predops
    predops.check_translation(ck)
    from harness import convops
    convops.check_translation(ck)
    rng = np.random.default_rng(ck.seed + 1212)
    metrics = ['accuracy', 'brier', 'logloss', 'f1', 'auc', None]
    nfits = ck.n(18, 120)
    cases = []; meta = {}
    for i in range(nfits):
        K = int(rng.choice([2, 2, 3, 4, 5, 6]))
        mode = ['zero_one', 'prevalence'][i % 2]
        metric = metrics[i % len(metrics)]
        n_trees = [1, 1, 2, 3][i % 4]
        soft = (i % 3 == 2)
        single_leaf = (i % 5 == 4)
        n = int(rng.integers(90, 260)); d = int(rng.integers(2, 5))
        L = 10_000 if single_leaf else int(rng.integers(25, 70))
        if metric == 'auc':
            K = 2; L = max(L, 80)
        X = xr.make_X('random', n, d, rng)
        # discrete table under soft routing: three distinct rows, each duplicated far beyond the leaf size, so deep nodes hold copies of ONE row:
        # every projection in such a node is equal (zero inter-quartile range, gate scale at its floor) and the query rows sit exactly on the split
        discrete = soft and (i % 6 == 5) and not single_leaf and metric != 'auc'
        if discrete:
            base = np.round(xr.make_X('random', 3, d, rng) * 2) / 2
            X = base[rng.integers(0, 3, size=n)].astype(np.float32); X[:3] = base
            L = max(8, n // 8)
            ck.count('discrete table (3 distinct rows) under soft routing')
        # imbalance: class 0 takes up to 95%
        p0 = float(rng.choice([1.0 / K, 0.6, 0.8, 0.95]))
        pr = np.array([p0] + [(1 - p0) / (K - 1)] * (K - 1))
        y = rng.choice(K, size=n, p=pr / pr.sum()); y[:K] = np.arange(K)
        nv = 60
        Xv = xr.make_X('random', nv, d, rng); yv = rng.choice(K, size=nv, p=pr / pr.sum()); yv[:K] = np.arange(K)
        # a class that never occurs in the TRAINING labels (it is known from the validation labels only): every third fit with K >= 3
        gap = (K >= 3 and i % 3 == 1 and metric != 'auc')
        if gap:
            y[y == 1] = 0
            ck.count('middle class absent from training labels')
        desc = dict(i=i, K=K, mode=mode, metric=metric, n_trees=n_trees, soft=soft, n=n, L=L, p0=p0, gap=gap, discrete=discrete, refit=bool((i % 4 == 1) and metric != 'auc'), seed=ck.seed)
        xr.seed_all(1200 + i + ck.seed)
        model = xr.xRFM(rfm_params=xr.default_rfm_params(iters=1, reg=1e-2, bandwidth=([0.5, 4.0][i % 2] if single_leaf else 4.0), bandwidth_mode=('adaptive' if single_leaf else 'constant'), kernel=(['l2', 'l2_high_dim'][(i // 5) % 2] if single_leaf else 'l2')), max_leaf_size=L, n_trees=n_trees, verbose=False,
                        tuning_metric=metric, classification_mode=mode, use_temperature_tuning=False,
                        split_temperature=([0.5, 3.0][(i // 3) % 2] if soft else None), refill_size=30,
                        # soft routing with a leaf cap that binds (fewer leaves allowed than the mass rule would keep) on every other soft fit
                        **(dict(max_leaf_count_in_ensemble=[2, 1, 3][(i // 6) % 3], keep_weight_frac_in_predict=[0.99, 1.0][(i // 6) % 2]) if soft and (i // 3) % 2 else {}))
        # history: every fourth estimator has already been fitted — on other data of the same task whose class frequencies are reversed — before the fit that is examined
        refit = (i % 4 == 1) and metric != 'auc'
        try:
            with xr.quiet():
                if refit:
                    X0 = xr.make_X('random', n, d, rng); y0 = rng.choice(K, size=n, p=(pr / pr.sum())[::-1]); y0[:K] = np.arange(K)
                    model.fit(torch.tensor(X0), torch.tensor(y0), torch.tensor(Xv), torch.tensor(yv))
                    ck.count('estimator fitted before on data with reversed class frequencies')
                model.fit(torch.tensor(X), torch.tensor(y), torch.tensor(Xv), torch.tensor(yv))
        except Exception as e:
            ck.count(f'fit failed ({metric})'); ck.notes.append(f'fit failed {desc}: {e!r}'[:300]); continue
        ck.count(f'K={K}'); ck.count(mode); ck.count(f'metric={metric}'); ck.count(f'trees={len(model.trees)}/{n_trees}'); ck.count('soft' if soft else 'hard'); ck.count(f'leaf cap {model.max_leaf_count_in_ensemble} keep {model.keep_weight_frac_in_predict} T {model.split_temperature}')
        Q = np.concatenate([X[:4], xr.make_X('random', 4, d, rng), 1e6 * (np.abs(xr.make_X('random', 2, d, rng)) + 1.0)]).astype(np.float32)
        if discrete:
            far = X[:2].copy(); far[:, -1] = 1e6            # far rows that share all but one coordinate with a training row
            Q = np.concatenate([Q[:8], far, Q[8:]]).astype(np.float32)
        Qt = torch.tensor(Q)
        if single_leaf:
            # the FIRST query after fit consists of far rows only (single-leaf tree, adaptive bandwidth: no kernel evaluation happened since the leaf was fitted)
            with xr.quiet():
                Pf = np.asarray(model.predict_proba(torch.tensor(Q[-2:])), dtype=np.float64)
            ck.count('first query after fit = far rows only (adaptive single leaf)')
            if mode == 'prevalence' and Pf.shape == (2, K) and np.all(np.isfinite(Pf)):
                freq0 = np.bincount(y, minlength=K) / len(y); w0 = np.clip(freq0, 1e-3, 1 - 1e-3); w0 = w0 / w0.sum()
                if np.max(np.abs(Pf - w0[None, :])) > 5e-4:
                    ck.violation(f'first query after fit (two far rows only) gives {Pf[0].tolist()}, training class frequencies (clamped) are {w0.tolist()} on {desc}',
                                 dict(desc, got=Pf.tolist(), want=w0.tolist()), key=json.dumps(dict(site='proba', what='far-first', mode=mode)))
            elif not (Pf.shape == (2, K) and np.all(np.isfinite(Pf)) and np.all(Pf >= 0) and np.all(np.abs(Pf.sum(1) - 1) < 1e-5)):
                ck.violation(f'first query after fit (two far rows only) gives invalid rows {Pf.tolist()} on {desc}', dict(desc, got=Pf.tolist()), key=json.dumps(dict(site='proba', what='far-first-valid', mode=mode)))
        with xr.quiet():
            P = np.asarray(model.predict_proba(Qt), dtype=np.float64)
            lab = np.asarray(model.predict(Qt))
        split = any(t['type'] != 'leaf' for t in model.trees)
        ck.case(dict(desc, rows=len(Q)), nontrivial=(K >= 3 or len(model.trees) >= 2 or split), sample=(i == 3))
        probs = []
        if P.shape != (len(Q), K) or not np.all(np.isfinite(P)):
            probs.append(f'predict_proba returned shape {P.shape} / non-finite entries (expected {(len(Q), K)})')
        else:
            if np.any(P < 0) or np.any(np.abs(P.sum(1) - 1) > 1e-5):
                r = int(np.argmax(np.abs(P.sum(1) - 1)))
                probs.append(f'probability row {P[r].tolist()} is not a distribution (sum {P[r].sum()}); trees held {len(model.trees)} of {n_trees} requested')
            if lab.shape != (len(Q),) or not np.issubdtype(lab.dtype, np.integer) or lab.min() < 0 or lab.max() >= K:
                probs.append(f'predict returned labels {lab.tolist()} outside [0,{K}) or of the wrong shape/dtype {lab.shape} {lab.dtype}')
            if len(model.trees) == 1 and not soft:
                srt = np.sort(P, axis=1)
                clear = (srt[:, -1] - srt[:, -2]) > 1e-5
                if np.any(P.argmax(1)[clear] != lab[clear]):
                    probs.append('label is not the arg-max of the probability row (single hard-routed tree)')
            if mode == 'prevalence':
                freq = np.bincount(y, minlength=K) / len(y)
                want = np.clip(freq, 1e-3, 1 - 1e-3); want = want / want.sum()
                for r in (len(Q) - 2, len(Q) - 1):
                    if np.max(np.abs(P[r] - want)) > 5e-4:
                        probs.append(f'far row gives {P[r].tolist()}, training class frequencies (clamped) are {want.tolist()}')
        for p_ in dict.fromkeys(probs):
            ck.violation(p_ + f' on {desc}', dict(desc, problem=p_, rows=Q.tolist()), key=json.dumps(dict(site='proba', what=p_[:28], mode=mode)))
        # ---- Coq: decode the implementation's raw per-tree outputs with the Q model ----
        if not soft and not probs:
            raws = [model._predict_tree_hard(Qt, t, proba=False).detach().double().numpy() for t in model.trees]
            conv = model.class_converter_
            if mode == 'prevalence':
                Iq = coq_Qmat(conv._invA.tolist())
                dec = lambda z: f'probas_prevalence {EPSQ} {Iq} {coq_Qlist(z)}'
            else:
                dec = lambda z: f'probas_zero_one {EPSQ} {coq_Qlist(z)}'
            conj = []
            for r in range(len(Q)):
                rows = coq_list([dec(rw[r].tolist()) for rw in raws])
                big = max(abs(v) for rw in raws for v in rw[r]) > 1e3
                conj.append(f'Qlist_close {coq_Q(1e-3 if big else 3e-5)} (mean_rows {rows}) {coq_Qlist(P[r].tolist())}')
            cid = len(cases); cases.append((cid, ' && '.join(f'({c})' for c in conj))); meta[cid] = desc
    # ---- pure leaves: a rare class that lives in one corner of the feature space, so that after the split some leaves train on ONE class only (constant targets:
    #      zero coefficients, zero gradients, an all-zero un-normalised feature matrix) — every row, near or far, still gets a valid probability row
    for j in range(ck.n(4, 12)):
        npl, dpl = [250, 320][(j // 2) % 2], 3          # 250: one split level, the pure half is a leaf at once; 320: the pure half is split again
        Xp = xr.make_X('random', npl, dpl, rng); yp = (Xp[:, 0] > np.sort(Xp[:, 0])[-7]).astype(np.int64)         # 6 positives, all at the largest x0
        Xvp = xr.make_X('random', 80, dpl, rng); yvp = (Xvp[:, 0] > np.sort(Xp[:, 0])[-7]).astype(np.int64); yvp[0] = 1; yvp[1] = 0
        if j % 5 in (1, 3):
            # the rare class carries no signal (7 positives scattered at random, 2 among the validation rows): no tree predicts a positive anywhere
            yp = np.zeros(npl, dtype=np.int64); yp[rng.choice(npl, 7, replace=False)] = 1
            yvp = np.zeros(80, dtype=np.int64); yvp[rng.choice(80, 2, replace=False)] = 1
        modep = ['zero_one', 'prevalence'][j % 2]
        paramsp = None if j % 4 == 3 else xr.default_rfm_params(kernel=['l2_high_dim', 'l2', 'l1'][j % 3], iters=[2, 1, 3][j % 3], reg=1e-2, bandwidth=4.0, return_best=bool(j % 4 == 2))
        descp = dict(kind='pure leaves', j=j, metric=['brier', 'f1', 'brier', 'f1', 'accuracy'][j % 5], mode=modep, n=npl, positives=int(yp.sum()), default_params=paramsp is None, soft=bool(j % 3 == 1), n_trees=[1, 2][j % 2], seed=ck.seed)
        xr.seed_all(1260 + j + ck.seed)
        metricp = ['brier', 'f1', 'brier', 'f1', 'accuracy'][j % 5]          # F1: with so few positives no tree predicts one on its validation rows — every tree scores exactly 0
        mp_ = xr.xRFM(rfm_params=paramsp, max_leaf_size=130, n_trees=[2, 3][(j // 2) % 2] if j % 5 in (1, 3) else [1, 2][j % 2], verbose=False, tuning_metric=metricp, classification_mode=modep, use_temperature_tuning=False,
                      split_temperature=(0.5 if j % 3 == 1 else None), refill_size=25)
        try:
            with xr.quiet():
                mp_.fit(torch.tensor(Xp), torch.tensor(yp), torch.tensor(Xvp), torch.tensor(yvp))
        except Exception as e:
            ck.count('pure-leaf fit failed')
            ck.violation(f'no probability row at all: fitting raised {e!r} on an extremely imbalanced binary data set ({int(yp.sum())} positives of {npl}, Brier metric, which is defined '
                         f'for one-class leaves) on {descp}', dict(descp, error=repr(e)), key=json.dumps(dict(site='proba', what='pure-leaves-fit-raise', mode=modep)))
            continue
        from harness import oracle as orc_
        pure = sum(1 for t in mp_.trees for lf in orc_.tree_leaves(t) if len(set(yp[np.asarray(lf['train_indices'])].tolist())) == 1)
        ck.count('fits with a leaf trained on one class only' if pure else 'pure-leaf regime without a pure leaf')
        Qp = np.concatenate([Xp[:40], Xvp[:20], xr.make_X('random', 20, dpl, rng), 1e6 * (np.abs(xr.make_X('random', 2, dpl, rng)) + 1.0)]).astype(np.float32)
        with xr.quiet():
            Pp = np.asarray(mp_.predict_proba(torch.tensor(Qp)), dtype=np.float64); labp = np.asarray(mp_.predict(torch.tensor(Qp)))
        ck.case(dict(descp, pure_leaves=pure), nontrivial=bool(pure))
        badrows = [r for r in range(len(Qp)) if Pp.shape != (len(Qp), 2) or not (np.all(np.isfinite(Pp[r])) and np.all(Pp[r] >= 0) and abs(Pp[r].sum() - 1) < 1e-5)]
        if badrows or labp.shape != (len(Qp),) or labp.min() < 0 or labp.max() > 1:
            ck.violation(f'{len(badrows)} of {len(Qp)} probability rows are not distributions (first: row {badrows[:1]} = {Pp[badrows[0]].tolist() if badrows and Pp.ndim == 2 else None}) '
                         f'on a model with {pure} leaves trained on one class only, {descp}', dict(descp, rows=Qp[badrows[:3]].tolist() if badrows else [], pure_leaves=pure),
                         key=json.dumps(dict(site='proba', what='pure-leaves', mode=modep)))
    # ---- logistic leaf solver (binary, zero/one encoding), single hard-routed tree: probabilities and labels come from the same decoder — the label is the arg-max of the row
    for j in range(ck.n(3, 10)):
        nl, dl = 150, 3
        Xl = xr.make_X('random', nl, dl, rng); yl = ((Xl[:, 0] + 0.8 * rng.standard_normal(nl)) > 0).astype(np.int64)        # noisy labels: many rows with P(class 1) near 1/2
        Xvl = xr.make_X('random', 60, dl, rng); yvl = ((Xvl[:, 0] + 0.8 * rng.standard_normal(60)) > 0).astype(np.int64); yvl[0] = 0; yvl[1] = 1
        pl = xr.default_rfm_params(kernel=['l2', 'l1', 'l2_high_dim'][j % 3], iters=[0, 1][j % 2], reg=[1e-1, 1.0][j % 2], bandwidth=4.0)
        pl[['fit', 'model'][j % 2]]['solver'] = 'log_reg'
        descl = dict(kind='logistic leaves', j=j, n=nl, L=[10_000, 60][(j // 2) % 2], seed=ck.seed)
        xr.seed_all(1290 + j + ck.seed)
        ml = xr.xRFM(rfm_params=pl, max_leaf_size=descl['L'], n_trees=1, verbose=False, tuning_metric=['brier', 'accuracy', 'logloss'][j % 3], classification_mode='zero_one',
                     use_temperature_tuning=False)
        try:
            with xr.quiet():
                ml.fit(torch.tensor(Xl), torch.tensor(yl), torch.tensor(Xvl), torch.tensor(yvl))
        except Exception as e:
            ck.count('logistic fit failed'); ck.notes.append(f'logistic fit failed {descl}: {e!r}'[:300]); continue
        Ql = np.concatenate([Xl[:60], xr.make_X('random', 100, dl, rng), 1e6 * (np.abs(xr.make_X('random', 2, dl, rng)) + 1.0)]).astype(np.float32)
        with xr.quiet():
            Pl = np.asarray(ml.predict_proba(torch.tensor(Ql)), dtype=np.float64); labl = np.asarray(ml.predict(torch.tensor(Ql)))
        ck.case(descl, nontrivial=True); ck.count('logistic leaves: label vs arg-max rows', len(Ql))
        okrows = Pl.shape == (len(Ql), 2) and np.all(np.isfinite(Pl)) and np.all(Pl >= 0) and np.all(np.abs(Pl.sum(1) - 1) < 1e-5)
        if not okrows or labl.shape != (len(Ql),) or labl.min() < 0 or labl.max() > 1:
            ck.violation(f'logistic leaves: predict_proba / predict returned invalid rows or labels (shape {Pl.shape}, labels {sorted(set(labl.tolist()))[:4]}) on {descl}', dict(descl),
                         key=json.dumps(dict(site='proba', what='logistic-valid')))
        else:
            clear = np.abs(Pl[:, 1] - Pl[:, 0]) > 1e-5
            badl = np.nonzero(clear & (Pl.argmax(1) != labl))[0]
            ck.count('logistic rows with P(class 1) in (0.5, 0.62]', int(((Pl[:, 1] > 0.5) & (Pl[:, 1] <= 0.62)).sum()))
            if len(badl):
                r = int(badl[0])
                ck.violation(f'label is not the arg-max of the probability row (single hard-routed tree, logistic leaf solver): row {Ql[r].tolist()} has probabilities {Pl[r].tolist()} '
                             f'and label {int(labl[r])}; {len(badl)} of {len(Ql)} rows on {descl}', dict(descl, row=Ql[r].tolist(), proba=Pl[r].tolist(), label=int(labl[r])),
                             key=json.dumps(dict(site='proba', what='logistic-argmax')))
    # ---- classification targets passed as float one-hot matrices (the documented second way), incl. the BINARY case (N,2): rows of n_classes entries, labels in range
    orng = np.random.default_rng(ck.seed + 1221)
    for j in range(ck.n(3, 9)):
        Ko = [2, 3, 2][j % 3]; no, do = 120, 3
        Xo = xr.make_X('random', no, do, orng); lo = (Xo[:, 0] > 0).astype(np.int64) if Ko == 2 else np.digitize(Xo[:, 0], [-0.5, 0.5])
        Xvo = xr.make_X('random', 40, do, orng); lvo = (Xvo[:, 0] > 0).astype(np.int64) if Ko == 2 else np.digitize(Xvo[:, 0], [-0.5, 0.5])
        desco = dict(kind='float one-hot targets', j=j, K=Ko, soft=bool(j % 2), n_trees=[1, 2][(j // 2) % 2], seed=ck.seed)
        xr.seed_all(1240 + j + ck.seed)
        mo = xr.xRFM(rfm_params=xr.default_rfm_params(iters=1, reg=1e-2, bandwidth=4.0), max_leaf_size=[10_000, 50][j % 2], n_trees=desco['n_trees'], verbose=False, tuning_metric='brier',
                     classification_mode='zero_one', use_temperature_tuning=False, split_temperature=(0.5 if j % 2 else None))
        try:
            with xr.quiet():
                mo.fit(torch.tensor(Xo), torch.tensor(np.eye(Ko, dtype=np.float32)[lo]), torch.tensor(Xvo), torch.tensor(np.eye(Ko, dtype=np.float32)[lvo]))
                Qo = np.concatenate([Xo[:20], xr.make_X('random', 30, do, orng), 1e6 * (np.abs(xr.make_X('random', 2, do, orng)) + 1.0)]).astype(np.float32)
                Po = np.asarray(mo.predict_proba(torch.tensor(Qo)), dtype=np.float64); labo = np.asarray(mo.predict(torch.tensor(Qo)))
        except Exception as e:
            ck.notes.append(f'float one-hot fit failed {desco}: {e!r}'[:300]); ck.count('float one-hot fit failed'); continue
        ck.case(desco, nontrivial=True); ck.count(f'float one-hot targets K={Ko}')
        oko = Po.shape == (len(Qo), Ko) and np.all(np.isfinite(Po)) and np.all(Po >= 0) and np.all(np.abs(Po.sum(1) - 1) < 1e-5)
        labs_o = labo.reshape(len(Qo), -1).argmax(1) if labo.ndim == 2 and labo.shape[1] == Ko else labo.reshape(-1)
        if not oko or labs_o.min() < 0 or labs_o.max() >= Ko:
            ck.violation(f'{Ko}-class fit on float one-hot targets: predict_proba has shape {Po.shape} (expected ({len(Qo)}, {Ko})), labels span [{labs_o.min()}, {labs_o.max()}] on {desco}',
                         dict(desco, shape=list(Po.shape), first_row=Po[0].tolist()), key=json.dumps(dict(site='proba', what='float-one-hot', K=Ko)))
    res = ck.run_bool_cases('proba', HEADER, cases, shard=6)
    bad = [meta[k] for k, v in res.items() if v is not True]
    ck.obligation(f'correspondence: predict_proba of {len(cases)} real fits == Q model (decode/clamp/normalise/tree mean) on the implementation\'s raw leaf outputs',
                  'correspondence', not bad, f'first mismatches: {bad[:3]}')
