"""Fail-closed translator: the integer arithmetic and comparison operators of the split / refill / routing routines
of xrfm/xrfm.py are re-read from the *current* source with Python's `ast` and emitted as Coq definitions over Z,
together with lemmas `generated = hand model` that are re-proved on every run.

Anything outside the recognised subset raises TranslationError: the obligation then counts as broken."""
import ast, os, textwrap
from harness.common import REPO


class TranslationError(Exception):
    pass


def _src():
    p = os.path.join(REPO, 'xrfm', 'xrfm.py')
    return open(p).read()


def _method(tree, cls, name):
    for node in tree.body:
        if isinstance(node, ast.ClassDef) and node.name == cls:
            for it in node.body:
                if isinstance(it, ast.FunctionDef) and it.name == name:
                    return it
    raise TranslationError(f'method {cls}.{name} not found')


class Z:
    """tiny expression translator python-int-expr -> Coq Z term"""
    def __init__(self, env, specials):
        self.env = env              # python name -> coq term
        self.specials = specials    # unparsed python expr -> coq term

    def tr(self, e):
        u = ast.unparse(e)
        if u in self.specials:
            return self.specials[u]
        if isinstance(e, ast.Constant) and isinstance(e.value, int) and not isinstance(e.value, bool):
            return f'{e.value}' if e.value >= 0 else f'({e.value})'
        if isinstance(e, ast.Name):
            if e.id in self.env:
                return self.env[e.id]
            raise TranslationError(f'unknown name {e.id}')
        if isinstance(e, ast.BinOp):
            ops = {ast.Add: '+', ast.Sub: '-', ast.Mult: '*', ast.FloorDiv: '/'}
            for k, s in ops.items():
                if isinstance(e.op, k):
                    return f'({self.tr(e.left)} {s} {self.tr(e.right)})'
            raise TranslationError(f'unsupported operator in {u}')
        if isinstance(e, ast.Call) and isinstance(e.func, ast.Name) and e.func.id in ('min', 'max') and len(e.args) == 2 \
                and not e.keywords:
            f = 'Z.min' if e.func.id == 'min' else 'Z.max'
            return f'({f} {self.tr(e.args[0])} {self.tr(e.args[1])})'
        raise TranslationError(f'unsupported expression {u}')


def _cmp(op):
    t = {ast.LtE: 'le', ast.Lt: 'lt', ast.GtE: 'ge', ast.Gt: 'gt'}
    for k, v in t.items():
        if isinstance(op, k):
            return v
    raise TranslationError('unsupported comparison')


def translate_balanced_split(fn):
    """returns dict of coq terms (functions of n and oraw = int(round(2*f*n)))"""
    z = Z({}, {'projections.numel()': 'n',
               'int(round(2 * self.overlap_fraction * n_samples))': 'oraw'})
    defs = {}
    slices = {}
    masks = {'left_mask': [], 'right_mask': []}
    allowed_misc = {"_ = train_median", "_, sorted_indices = torch.sort(projections)",
                    "left_mask = torch.zeros(n_samples, dtype=torch.bool, device=projections.device)",
                    "right_mask = torch.zeros_like(left_mask)"}
    int_names = ['n_samples', 'overlap_count', 'remaining', 'left_unique_count', 'right_unique_count',
                 'overlap_start', 'overlap_end']
    ret = None
    for st in fn.body:
        u = ast.unparse(st)
        if isinstance(st, ast.Expr) and isinstance(st.value, ast.Constant):
            continue                                   # docstring
        if u in allowed_misc:
            continue
        if isinstance(st, ast.If) and ast.unparse(st.test) == 'n_samples == 0' and len(st.body) == 1 and isinstance(st.body[0], ast.Raise):
            continue
        if isinstance(st, ast.Assert):
            continue                                   # assertions do not change the result
        if isinstance(st, ast.Assign) and len(st.targets) == 1 and isinstance(st.targets[0], ast.Name):
            nm = st.targets[0].id
            if nm in int_names:
                z.env[nm] = '(' + z.tr(st.value) + ')'
                defs[nm] = z.env[nm]
                continue
            # slices of sorted_indices
            v = st.value
            if isinstance(v, ast.Subscript) and isinstance(v.value, ast.Name) and v.value.id == 'sorted_indices' \
                    and isinstance(v.slice, ast.Slice) and v.slice.step is None:
                lo = '0' if v.slice.lower is None else z.tr(v.slice.lower)
                hi = z.env['n_samples'] if v.slice.upper is None else z.tr(v.slice.upper)
                slices[nm] = (lo, hi)
                continue
        # mask writes: if X.numel() > 0: mask[X] = True   (possibly two masks)
        if isinstance(st, ast.If) and not st.orelse:
            t = ast.unparse(st.test)
            ok = True
            for b in st.body:
                if isinstance(b, ast.Assign) and len(b.targets) == 1 and isinstance(b.targets[0], ast.Subscript) \
                        and isinstance(b.targets[0].value, ast.Name) and b.targets[0].value.id in masks \
                        and isinstance(b.targets[0].slice, ast.Name) and ast.unparse(b.value) == 'True' \
                        and t == f'{b.targets[0].slice.id}.numel() > 0':
                    masks[b.targets[0].value.id].append(b.targets[0].slice.id)
                else:
                    ok = False
            if ok:
                continue
        if isinstance(st, ast.Return):
            ret = ast.unparse(st.value)
            continue
        raise TranslationError(f'_get_balanced_split: unrecognised statement: {u}')
    if ret != '(left_mask, right_mask)':
        raise TranslationError(f'_get_balanced_split: unexpected return {ret}')
    for m, parts in masks.items():
        for p in parts:
            if p not in slices:
                raise TranslationError(f'mask {m} written from unknown index set {p}')
    need = ['overlap_count', 'left_unique_count', 'right_unique_count', 'overlap_start', 'overlap_end']
    for k in need:
        if k not in defs:
            raise TranslationError(f'{k} not assigned')
    def member(parts):
        if not parts:
            return 'False'
        return ' \\/ '.join(f'({slices[p][0]} <= i < {slices[p][1]})' for p in parts)
    return dict(defs=defs, left=member(masks['left_mask']), right=member(masks['right_mask']))


def translate_refill(fn):
    z = Z({}, {'len(X_val)': 'n_val', 'len(X)': 'n_train', 'self.min_val_size': 'min_val',
               'int(len(X) * self.val_size_frac)': 'cap'})
    guard = None
    count = None
    moved = kept = None
    body = [s for s in fn.body if not (isinstance(s, ast.Expr) and isinstance(s.value, ast.Constant))]
    if len(body) != 2 or not isinstance(body[0], ast.If) or not isinstance(body[1], ast.Return):
        raise TranslationError('_refill_val_set: unexpected top-level structure')
    if ast.unparse(body[1].value) != '(X, y, X_val, y_val, train_indices)':
        raise TranslationError('_refill_val_set: unexpected return')
    iff = body[0]
    if iff.orelse or not isinstance(iff.test, ast.Compare) or len(iff.test.ops) != 1:
        raise TranslationError('_refill_val_set: unexpected guard')
    guard = (z.tr(iff.test.left), _cmp(iff.test.ops[0]), z.tr(iff.test.comparators[0]))
    allowed = {'n_orig_val = len(X_val)', 'n_orig_train = len(X)', 'shuffled_indices = torch.randperm(len(X))',
               'X_val = torch.cat([X_val, X[val_indices]])', 'y_val = torch.cat([y_val, y[val_indices]])',
               'X = X[local_train_indices_to_keep]', 'y = y[local_train_indices_to_keep]',
               'train_indices = train_indices[local_train_indices_to_keep]'}
    for st in iff.body:
        u = ast.unparse(st)
        if u in allowed or isinstance(st, ast.Assert):
            continue
        if isinstance(st, ast.Assign) and len(st.targets) == 1 and isinstance(st.targets[0], ast.Name):
            nm = st.targets[0].id
            if nm == 'num_val_to_add':
                z.env[nm] = '(' + z.tr(st.value) + ')'
                count = z.env[nm]
                continue
            v = st.value
            if nm in ('val_indices', 'local_train_indices_to_keep') and isinstance(v, ast.Subscript) \
                    and ast.unparse(v.value) == 'shuffled_indices' and isinstance(v.slice, ast.Slice):
                lo = None if v.slice.lower is None else z.tr(v.slice.lower)
                hi = None if v.slice.upper is None else z.tr(v.slice.upper)
                if nm == 'val_indices':
                    moved = (lo, hi)
                else:
                    kept = (lo, hi)
                continue
        raise TranslationError(f'_refill_val_set: unrecognised statement: {u}')
    if count is None or moved is None or kept is None:
        raise TranslationError('_refill_val_set: missing pieces')
    if moved[0] is not None or kept[1] is not None or moved[1] != kept[0]:
        raise TranslationError(f'_refill_val_set: moved/kept slices are not a prefix/suffix pair: {moved} {kept}')
    return dict(guard=guard, count=count, cut=moved[1])


def translate_build_tree(fn):
    """leaf criterion, refill only when not root, validation routing operator"""
    out = {}
    for st in ast.walk(fn):
        if isinstance(st, ast.Assign) and len(st.targets) == 1:
            t = ast.unparse(st.targets[0])
            if t == 'left_mask_val':
                c = st.value
                if not (isinstance(c, ast.Compare) and len(c.ops) == 1 and ast.unparse(c.left) == 'projections_val'
                        and ast.unparse(c.comparators[0]) == 'train_median'):
                    raise TranslationError('left_mask_val: unexpected form ' + ast.unparse(c))
                out['val_left'] = _cmp(c.ops[0])
            if t == 'right_mask_val':
                if ast.unparse(st.value) != '~left_mask_val':
                    raise TranslationError('right_mask_val: unexpected form')
                out['val_right_is_complement'] = True
            if t == 'train_median':
                if ast.unparse(st.value) != 'torch.median(projections)':
                    raise TranslationError('train_median: unexpected form ' + ast.unparse(st.value))
                out['median'] = True
    # leaf criterion: the two nested ifs
    crit = None
    for st in fn.body:
        if isinstance(st, ast.If) and ast.unparse(st.test).startswith('n_samples'):
            c = st.test
            if not (isinstance(c, ast.Compare) and len(c.ops) == 1 and ast.unparse(c.comparators[0]) == 'self.max_leaf_size'):
                raise TranslationError('leaf criterion: unexpected size test ' + ast.unparse(c))
            if len(st.body) != 1 or not isinstance(st.body[0], ast.If) or st.orelse:
                raise TranslationError('leaf criterion: unexpected body')
            inner = st.body[0]
            iu = ast.unparse(inner.test)
            q = None
            if isinstance(inner.test, ast.BoolOp) and isinstance(inner.test.op, ast.Or) and len(inner.test.values) == 2 \
                    and ast.unparse(inner.test.values[0]) == 'self.number_of_splits is None':
                cc = inner.test.values[1]
                if isinstance(cc, ast.Compare) and len(cc.ops) == 1 and ast.unparse(cc.left) == "split_tracker['count']" \
                        and ast.unparse(cc.comparators[0]) == 'self.number_of_splits':
                    q = _cmp(cc.ops[0])
            if q is None or ast.unparse(inner.body[0]) != 'should_create_leaf = True' or inner.orelse:
                raise TranslationError('leaf criterion: unexpected quota test ' + iu)
            crit = (_cmp(c.ops[0]), q)
    if crit is None:
        raise TranslationError('leaf criterion not found')
    out['leaf'] = crit
    # refill guard
    ok = False
    for st in ast.walk(fn):
        if isinstance(st, ast.If) and ast.unparse(st.test) == 'not is_root':
            for b in st.body:
                if ast.unparse(b) == 'X, y, X_val, y_val, train_indices = self._refill_val_set(X, y, X_val, y_val, train_indices)':
                    ok = True
    if not ok:
        raise TranslationError('refill call under `if not is_root` not found')
    for k in ('val_left', 'val_right_is_complement', 'median'):
        if k not in out:
            raise TranslationError(f'{k} not found in _build_tree')
    return out


def translate_routing(fn):
    out = {}
    for st in ast.walk(fn):
        if isinstance(st, ast.Assign) and len(st.targets) == 1:
            t = ast.unparse(st.targets[0])
            if t == 'left_mask':
                c = st.value
                if not (isinstance(c, ast.Compare) and len(c.ops) == 1 and ast.unparse(c.left) == 'projections'
                        and ast.unparse(c.comparators[0]) == "current_node['split_point']"):
                    raise TranslationError('routing left_mask: unexpected form ' + ast.unparse(c))
                out['left'] = _cmp(c.ops[0])
            if t == 'right_mask' and ast.unparse(st.value) == '~left_mask':
                out['right_is_complement'] = True
            if t == 'projections':
                if ast.unparse(st.value) != "current_X @ current_node['split_direction']":
                    raise TranslationError('routing projections: unexpected form')
                out['proj'] = True
    for k in ('left', 'right_is_complement', 'proj'):
        if k not in out:
            raise TranslationError(f'routing: {k} not found')
    return out


CMPZ = {'le': '<=?', 'lt': '<?', 'ge': '>=?', 'gt': '>?'}


def check_root_flags(tree):
    """every call of _build_tree from outside _build_tree builds a ROOT (is_root=True); the two recursive calls pass is_root=False.
    The Coq accounting model (rtree_okb true ...) and the refill rule ('no refill when the tree has a single leaf') rely on it."""
    cls = next(n for n in tree.body if isinstance(n, ast.ClassDef) and n.name == 'xRFM')
    seen = {'outside': 0, 'recursive': 0}
    for fn in cls.body:
        if not isinstance(fn, ast.FunctionDef):
            continue
        for c in ast.walk(fn):
            if isinstance(c, ast.Call) and ast.unparse(c.func) == 'self._build_tree':
                kw = {k.arg: ast.unparse(k.value) for k in c.keywords}
                if fn.name == '_build_tree':
                    if kw.get('is_root') != 'False':
                        raise TranslationError(f'recursive _build_tree call with is_root={kw.get("is_root")}')
                    seen['recursive'] += 1
                else:
                    if kw.get('is_root') != 'True':
                        raise TranslationError(f'{fn.name} builds a tree with is_root={kw.get("is_root")} (a root must be built with is_root=True)')
                    seen['outside'] += 1
    if seen['recursive'] != 2 or seen['outside'] < 2:
        raise TranslationError(f'unexpected _build_tree call sites: {seen}')
    return seen


def generate():
    """returns Coq source text (module SplitArith_gen) — raises TranslationError when the source left the subset"""
    tree = ast.parse(_src())
    check_root_flags(tree)
    bs = translate_balanced_split(_method(tree, 'xRFM', '_get_balanced_split'))
    rf = translate_refill(_method(tree, 'xRFM', '_refill_val_set'))
    bt = translate_build_tree(_method(tree, 'xRFM', '_build_tree'))
    rt = translate_routing(_method(tree, 'xRFM', '_get_leaf_groups_and_models_on_samples'))
    d = bs['defs']
    g = rf['guard']
    txt = f'''(* GENERATED on every run by harness/splitarith.py from /repo/xrfm/xrfm.py — do not edit *)
From Coq Require Import ZArith Bool Lia QArith.
Require Import XV.Model.Split XV.Model.Tree.
Open Scope Z_scope.
Ltac Zify.zify_post_hook ::= Z.div_mod_to_equations.

Definition gen_overlap_count (n oraw : Z) : Z := {d['overlap_count']}.
Definition gen_left_unique (n oraw : Z) : Z := {d['left_unique_count']}.
Definition gen_right_unique (n oraw : Z) : Z := {d['right_unique_count']}.
Definition gen_overlap_start (n oraw : Z) : Z := {d['overlap_start']}.
Definition gen_overlap_end (n oraw : Z) : Z := {d['overlap_end']}.
Definition gen_in_left (n oraw i : Z) : Prop := {bs['left']}.
Definition gen_in_right (n oraw i : Z) : Prop := {bs['right']}.

Lemma gen_counts_eq_model : forall n oraw, 0 <= n ->
  let o := clamp_overlap oraw n in
  gen_overlap_count n oraw = o /\\ gen_left_unique n oraw = left_unique n o /\\
  gen_right_unique n oraw = right_unique n o /\\ gen_overlap_start n oraw = overlap_start n o /\\
  gen_overlap_end n oraw = overlap_end n o.
Proof.
  intros n oraw Hn. cbv [gen_overlap_count gen_left_unique gen_right_unique gen_overlap_start gen_overlap_end
    clamp_overlap left_unique right_unique overlap_start overlap_end left_unique remaining]. lia.
Qed.

Lemma gen_membership_eq_model : forall n oraw i, 0 <= n -> 0 <= i < n ->
  let o := clamp_overlap oraw n in
  (gen_in_left n oraw i <-> 0 <= i < left_size n o) /\\ (gen_in_right n oraw i <-> left_unique n o <= i < n).
Proof.
  intros n oraw i Hn Hi. cbv [gen_in_left gen_in_right clamp_overlap left_size left_unique remaining]. lia.
Qed.

Definition gen_refill_count (n_val n_train min_val cap : Z) : Z :=
  if ({g[0]} {CMPZ[g[1]]} {g[2]}) then {rf['count']} else 0.
Definition gen_refill_cut (n_val n_train min_val cap : Z) : Z := {rf['count']}.
Lemma gen_refill_eq_model : forall n_val n_train min_val cap,
  gen_refill_count n_val n_train min_val cap = refill_count n_val n_train min_val cap.
Proof. intros. unfold gen_refill_count, refill_count. destruct (n_val <=? min_val); lia. Qed.
Lemma gen_refill_cut_is_count : forall n_val n_train min_val cap,
  {rf['cut']} = gen_refill_cut n_val n_train min_val cap.
Proof. intros. reflexivity. Qed.

Definition gen_should_leaf (n L cnt : Z) (quota : option Z) : bool :=
  (n {CMPZ[bt['leaf'][0]]} L) && (match quota with None => true | Some q => cnt {CMPZ[bt['leaf'][1]]} q end).
Lemma gen_should_leaf_eq_model : forall n L cnt quota,
  gen_should_leaf n L cnt quota = ((n <=? L) && (match quota with None => true | Some q => q <=? cnt end)).
Proof. intros. unfold gen_should_leaf. destruct quota; f_equal; lia. Qed.

(* routing operators: validation rows at training time, and query rows at prediction time *)
Definition gen_val_goes_left (p b : Q) : bool := Q{bt['val_left']}b p b.
Definition gen_pred_goes_left (p b : Q) : bool := Q{rt['left']}b p b.
Lemma gen_routing_eq_model : forall p b,
  gen_val_goes_left p b = goes_left p b /\\ gen_pred_goes_left p b = goes_left p b.
Proof. intros. split; reflexivity. Qed.
'''
    return txt


def check_translation(ck):
    """shared obligation: regenerate the split / refill / routing arithmetic from the source and re-prove `generated = model`"""
    import os
    from harness.common import coqc
    try:
        txt = generate()
        p = os.path.join(ck.bdir, 'SplitArith_gen.v')
        open(p, 'w').write(txt)
        rc, out, dt = coqc(p)
        ck.checker_cmds.append(f'coqc build/{ck.pid}/run_<pid>/SplitArith_gen.v')
        ck.obligation('SplitArith_gen.v: arithmetic and comparison operators of _get_balanced_split, _refill_val_set, _build_tree and prediction-time routing, '
                      're-translated from the source, equal the hand model (lia / reflexivity)', 'translation', rc == 0, out)
        return rc == 0
    except TranslationError as e:
        ck.obligation('splitarith translator recognises the source', 'translation', False, str(e))
        return False
