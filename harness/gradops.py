r"""Fail-closed translator for the GRADIENT op sequences (C04, C14): re-read from the current source with `ast` on every run.

 * `Kernel.get_function_grads` (generic wrapper): implementation gradient, then `_transform_m(grads, mat)`.
 * `LaplaceKernel._get_function_grad_impl` and `LightLaplaceKernel.get_function_grads` (closed-form gradients): executed symbolically for a
   generic (center x, query z) entry -> the weight M[i, j] as a Coq real term (mask taken BEFORE the eps-clamp, power q-2, both scalings), and the
   final pair of einsums ('li,ij,jd->ljd' minus 'li,ij,id->ljd') -> sum_i c_i M_ij (zm_j - xm_i).  Lemmas `generated = grad_l2 / grad_light`
   (coq/Real/Grads.v via coq/Real/GradOps.v) are re-proved, so the derivative theorem of C04 is re-checked against what the code says now.
 * the `forward_func` closures the product / Lpq / sum-power kernels hand to `torch.func.jacrev`: summand for a generic (x, z) and the reduction
   `coefs @ (...).sum(dim=1)`; lemmas `generated = fwd_* model`, which GradOps.v proves equal to the documented closed forms where the eps-mask is open.
   The jacrev call itself must differentiate that closure at `zm`.
 * `Kernel.get_agop` / `get_agop_diag` (C14): reshape(-1, d) -> optional centring by the batch mean -> G^T G / sum of squares.
Anything outside the recognised subset raises TranslationError (the obligation counts as broken)."""
import ast, os
from harness.common import REPO
from harness.splitarith import TranslationError
from harness.kernelops import Sym, _cls_method


def _kw(call):
    return {k.arg: ast.unparse(k.value) for k in call.keywords}


class GSym(Sym):
    """kernelops.Sym plus: eps, comparisons (masks), out-of-place powers, entry*entry, einsum pair"""

    def scalar(self, e):
        u = ast.unparse(e)
        if u == 'self.eps':
            return 'eps'
        if u == 'self.exponent - 2':
            return '(q - 2)'
        if u == '1.0 - self.const_mix':
            return '(1 - c)'
        if isinstance(e, ast.UnaryOp) and isinstance(e.op, ast.USub):
            return f'(- {self.scalar(e.operand)})'
        # (1. / self.bandwidth) ** self.exponent
        if isinstance(e, ast.BinOp) and isinstance(e.op, ast.Pow) and ast.unparse(e.right) == 'self.exponent' \
                and ast.unparse(e.left) in ('1.0 / self.bandwidth',):
            return '(Rpower (1 / L) q)'
        return super().scalar(e)

    def val(self, e):
        u = ast.unparse(e)
        if isinstance(e, ast.Name) and e.id in self.env and self.env[e.id][0] in ('entry', 'cw', 'mask'):
            return self.env[e.id]
        # dists ** self.exponent  (a NEW tensor)
        if isinstance(e, ast.BinOp) and isinstance(e.op, ast.Pow):
            a = self.val(e.left); r = ast.unparse(e.right)
            if a[0] == 'entry' and r == 'self.exponent':
                return ('entry', f'(pw {a[1]} q)')
            if a[0] == 'entry' and r == 'self.power':
                return ('entry', f'({a[1]} ^ power)')
            raise TranslationError(f'{self.cls}: unsupported power {u}')
        # dists >= self.eps
        if isinstance(e, ast.Compare) and len(e.ops) == 1 and isinstance(e.ops[0], ast.GtE) and ast.unparse(e.comparators[0]) == 'self.eps':
            a = self.val(e.left)
            if a[0] == 'cw':
                # per-coordinate mask of an (n_x, n_z, d) tensor: only usable as the condition of torch.where over the same coordinates
                return ('cwmask', a[1], a[2])
            if a[0] != 'entry':
                raise TranslationError(f'{self.cls}: mask of a non-entry value')
            return ('mask', f'(if Rle_dec eps {a[1]} then 1 else 0)', a[1])
        if isinstance(e, ast.BinOp) and isinstance(e.op, (ast.Mult, ast.Add, ast.Sub, ast.Div, ast.MatMult)):
            try:
                return super().val(e)
            except TranslationError:
                pass
        if isinstance(e, ast.BinOp) and isinstance(e.op, ast.Mult):
            # scalar * tensor, tensor * mask, tensor * tensor
            try:
                s = self.scalar(e.left)
                b = self.val(e.right)
                if b[0] == 'entry':
                    return ('entry', f'({s} * {b[1]})')
                if b[0] == 'cw':
                    return ('cw', b[1], f'({s} * {b[2]})')
            except TranslationError:
                pass
            try:
                a, b = self.val(e.left), self.val(e.right)
            except TranslationError:
                a = b = (None,)
            if a[0] == 'entry' and b[0] in ('entry', 'mask'):
                return ('entry', f'({a[1]} * {b[1]})')
        if isinstance(e, ast.BinOp) and isinstance(e.op, ast.Div):
            a = self.val(e.left)
            if a[0] == 'entry':
                return ('entry', f'({a[1]} / {self.scalar(e.right)})')
        if isinstance(e, ast.BinOp) and isinstance(e.op, ast.Add):
            a = self.val(e.left)
            if a[0] == 'entry':
                try:
                    return ('entry', f'({a[1]} + {self.scalar(e.right)})')
                except TranslationError:
                    pass
        if isinstance(e, ast.Call):
            f = ast.unparse(e.func)
            if f == 'torch.exp' and len(e.args) == 1 and not e.keywords:
                a = self.val(e.args[0])
                if a[0] == 'entry':
                    return ('entry', f'(exp {a[1]})')
                if a[0] == 'cw':
                    return ('cw', a[1], f'(exp {a[2]})')
            if f == 'torch.abs' and len(e.args) == 1 and not e.keywords:
                a = self.val(e.args[0])
                if a[0] == 'cw':
                    return ('cw', a[1], f'(Rabs {a[2]})')
            if f == 'torch.zeros_like' and len(e.args) == 1:
                a = self.val(e.args[0])
                if a[0] == 'entry':
                    return ('entry', '0')
                if a[0] == 'cw':
                    return ('cw', a[1], '0')
            # torch.where(mask, a, b)
            if f == 'torch.where' and len(e.args) == 3 and not e.keywords:
                m, a, b = (self.val(x) for x in e.args)
                if m[0] == 'mask' and a[0] == 'entry' and b[0] == 'entry':
                    return ('entry', f'(if Rle_dec eps {m[2]} then {a[1]} else {b[1]})')
                # coordinate-wise: condition and both branches range over the coordinates of the same list
                if m[0] == 'cwmask' and a[0] == 'cw' and b[0] == 'cw' and m[1] == a[1] == b[1]:
                    return ('cw', m[1], f'(if Rle_dec eps {m[2]} then {a[2]} else {b[2]})')
            if isinstance(e.func, ast.Attribute):
                base = e.func.value; meth = e.func.attr
                if meth == 'clamp_min' and len(e.args) == 1 and ast.unparse(e.args[0]) == 'self.eps':
                    a = self.val(base)
                    if a[0] == 'entry':
                        return ('entry', f'(Rmax {a[1]} eps)')
                    if a[0] == 'cw':
                        return ('cw', a[1], f'(Rmax {a[2]} eps)')
                if meth == 'pow' and len(e.args) == 1 and ast.unparse(e.args[0]) == 'self.exponent':
                    a = self.val(base)
                    if a[0] == 'entry':
                        # base is clamped to >= eps > 0 where it matters: torch.pow on a positive base is the real power
                        return ('entry', f'(Rpower {a[1]} q)')
                    if a[0] == 'cw':
                        return ('cw', a[1], f'(pw {a[2]} q)')
                if meth == 'sum' and _kw(e) == {'dim': '-1'} and not e.args:
                    try:
                        a = self.val(base)
                    except TranslationError:
                        a = (None,)
                    if a[0] == 'cw':
                        return ('entry', f'(rsumR (map (fun u => {a[2]}) {a[1]}))')
        if isinstance(e, ast.Subscript) and ast.unparse(e.slice).strip('()') in (':, None, :', 'None, :, :'):
            v = self.val(e.value)
            s = ast.unparse(e.slice).strip('()')
            if v[0] == 'rows' and ((s == ':, None, :' and v[1] == 'x') or (s == 'None, :, :' and v[1] == 'z')):
                return ('bc', v[1], v[2])
        if u == 'x.shape[-1]':
            return ('scalar', '(INR (length x))')
        return super().val(e)

    def inplace(self, name, op, call):
        v = self.env.get(name)
        if v is not None and v[0] == 'entry':
            args = call.args; kws = _kw(call)
            cur = v[1]
            if op == 'clamp_' and not args and kws == {'min': 'self.eps'}:
                self.env[name] = ('entry', f'(Rmax {cur} eps)'); return
            if op == 'pow_' and len(args) == 1 and not kws and ast.unparse(args[0]) == 'self.exponent - 2':
                self.env[name] = ('entry', f'(Rpower {cur} (q - 2))'); return
            if op == 'mul_' and len(args) == 1 and not kws and isinstance(args[0], ast.Name) and args[0].id in self.env \
                    and self.env[args[0].id][0] in ('entry', 'mask'):
                self.env[name] = ('entry', f'({cur} * {self.env[args[0].id][1]})'); return
        return super().inplace(name, op, call)

    def stmt(self, st):
        # plain aliasing of a tensor that is later modified in place is not expressible in this value semantics
        if isinstance(st, ast.Assign) and isinstance(st.value, ast.Name) and st.value.id in self.env and self.env[st.value.id][0] in ('entry', 'cw'):
            raise TranslationError(f'{self.cls}: aliasing assignment {ast.unparse(st)}')
        if isinstance(st, ast.Return) and ast.unparse(st.value).startswith('torch.einsum('):
            return self.einsum_pair(st.value)
        return super().stmt(st)

    def einsum_pair(self, e):
        if not (isinstance(e, ast.BinOp) and isinstance(e.op, ast.Sub) and isinstance(e.left, ast.Call) and isinstance(e.right, ast.Call)):
            raise TranslationError(f'{self.cls}: the gradient is not a difference of two einsums')
        def parts(c):
            if ast.unparse(c.func) != 'torch.einsum' or len(c.args) != 4 or c.keywords or not isinstance(c.args[0], ast.Constant):
                raise TranslationError(f'{self.cls}: unexpected einsum call {ast.unparse(c)[:100]}')
            return c.args[0].value, ast.unparse(c.args[1]), self.val(c.args[2]), self.val(c.args[3])
        s1, c1, m1, r1 = parts(e.left)
        s2, c2, m2, r2 = parts(e.right)
        if (s1, s2) != ('li,ij,jd->ljd', 'li,ij,id->ljd') or c1 != 'coefs' or c2 != 'coefs':
            raise TranslationError(f'{self.cls}: einsum signatures / coefficient operands are {s1!r}, {s2!r}, {c1}, {c2}')
        if m1 != m2 or m1[0] != 'entry':
            raise TranslationError(f'{self.cls}: the two einsums use different weight matrices')
        if not (r1[0] == 'rows' and r1[1] == 'z' and r2[0] == 'rows' and r2[1] == 'x'):
            raise TranslationError(f'{self.cls}: einsum row operands are not (rows of z, rows of x)')
        return ('gradsum', m1[1], r1[2], r2[2])


def _forward(tree, cls):
    """the closure handed to jacrev inside <cls>._get_function_grad_impl -> (summand term, facts)"""
    fn = _cls_method(tree, cls, '_get_function_grad_impl')
    body = [s for s in fn.body if not (isinstance(s, ast.Expr) and isinstance(s.value, ast.Constant))]
    if len(body) != 4 or ast.unparse(body[0]) != 'xm = self._transform_m(x, mat)' or ast.unparse(body[1]) != 'zm = self._transform_m(z, mat)' \
            or not isinstance(body[2], ast.FunctionDef) or not isinstance(body[3], ast.Return):
        raise TranslationError(f'{cls}._get_function_grad_impl: expected xm, zm, a closure and a return')
    ff = body[2]
    if len(ff.args.args) != 1 or ff.args.defaults or ff.args.kwonlyargs or ff.args.vararg or ff.args.kwarg:
        raise TranslationError(f'{cls}: the differentiated closure must take exactly one argument')
    par = ff.args.args[0].arg
    ret = ast.unparse(body[3].value)
    ok = [f'torch.func.jacrev({ff.name}, chunk_size=1)(zm)', f'torch.func.jacrev({ff.name})(zm)']
    if ret not in ok:
        raise TranslationError(f'{cls}: the gradient is not jacrev of the closure at zm: {ret}')
    s = GSym(cls)
    s.env['xm'] = ('rows', 'x', '(transform t x)')
    s.env[par] = ('rows', 'z', '(transform t z)')         # the closure's own argument, evaluated at zm
    if par != 'z':
        s.env.pop('z', None)                               # the outer z must not be used inside the closure
    s.env.pop('x', None) if cls != 'SumPowerLaplaceKernel' else None
    stmts = [b for b in ff.body if not (isinstance(b, ast.Expr) and isinstance(b.value, ast.Constant))]
    final = stmts[-1]
    for b in stmts[:-1]:
        if isinstance(b, ast.Assign) and len(b.targets) == 1 and isinstance(b.targets[0], ast.Name):
            nm = b.targets[0].id
            u = ast.unparse(b.value)
            if nm == 'factor':
                s.env['factor'] = ('scalar', s.scalar(b.value)); continue
            if nm == 'sum' and u == 'sum.sum(dim=-1)':
                s.env['__zsum__'] = True; continue       # sum over the query points
            s.env[nm] = s.val(b.value); continue
        raise TranslationError(f'{cls}: unrecognised statement in the closure: {ast.unparse(b)[:100]}')
    if not isinstance(final, ast.Return):
        raise TranslationError(f'{cls}: the closure does not end in a return')
    r = final.value
    # coefs @ E.sum(dim=1)   |   coefs @ sum  (after sum = sum.sum(dim=-1))
    if not (isinstance(r, ast.BinOp) and isinstance(r.op, ast.MatMult) and ast.unparse(r.left) == 'coefs'):
        raise TranslationError(f'{cls}: the closure does not return coefs @ (...)')
    rhs = r.right
    if isinstance(rhs, ast.Call) and isinstance(rhs.func, ast.Attribute) and rhs.func.attr == 'sum' and _kw(rhs) == {'dim': '1'} and not rhs.args:
        v = s.val(rhs.func.value)
    elif isinstance(rhs, ast.Name) and rhs.id == 'sum' and s.env.get('__zsum__'):
        v = s.env['sum']
    else:
        raise TranslationError(f'{cls}: the closure does not sum the kernel values over the query points: {ast.unparse(rhs)[:100]}')
    if v[0] != 'entry':
        raise TranslationError(f'{cls}: summand is not an entry')
    return v[1]


class FSym(GSym):
    """inside a closure: `factor` is a scalar name"""
    pass


def _patch_scalar_names():
    # names bound to scalars inside closures (factor) are looked up in env
    orig = GSym.scalar
    def scalar(self, e):
        if isinstance(e, ast.Name) and e.id in self.env and self.env[e.id][0] == 'scalar':
            return self.env[e.id][1]
        if ast.unparse(e) == 'x.shape[-1]':
            return '(INR (length x))'
        if ast.unparse(e) == '-1.0 / self.bandwidth ** self.exponent':
            return '(- 1 / Rpower L q)'
        return orig(self, e)
    GSym.scalar = scalar
_patch_scalar_names()


def _wrapper_ok(tree):
    fn = _cls_method(tree, 'Kernel', 'get_function_grads')
    body = [ast.unparse(s) for s in fn.body if not (isinstance(s, ast.Expr) and isinstance(s.value, ast.Constant))]
    if body != ['grads = self._get_function_grad_impl(x, z, coefs, mat)', 'return self._transform_m(grads, mat)']:
        raise TranslationError(f'Kernel.get_function_grads is not (impl gradient, then _transform_m): {body}')
    # which classes override the wrapper
    over = [n.name for n in tree.body if isinstance(n, ast.ClassDef) and n.name != 'Kernel'
            and any(isinstance(i, ast.FunctionDef) and i.name == 'get_function_grads' for i in n.body)]
    cpu = [c for c in over if not c.startswith('Kermac')]
    if cpu != ['LightLaplaceKernel']:
        raise TranslationError(f'classes overriding get_function_grads: {over} (expected only LightLaplaceKernel among the CPU kernels)')


def _agop_ok(tree):
    want_full = ['f_grads = self.get_function_grads(x, z, coefs, mat)', 'f_grads = f_grads.reshape(-1, f_grads.shape[-1])',
                 'if center_grads:\n    f_grads = f_grads - f_grads.mean(dim=0, keepdim=True)', 'return f_grads.transpose(-1, -2) @ f_grads']
    fn = _cls_method(tree, 'Kernel', 'get_agop')
    body = [s for s in fn.body if not (isinstance(s, ast.Expr) and isinstance(s.value, ast.Constant))]
    if not (len(body) == 1 and isinstance(body[0], ast.If) and ast.unparse(body[0].test) == 'self.handle_categorical'
            and [ast.unparse(s) for s in body[0].body] == ['return self.get_agop_categorical(x, z, coefs, mat, center_grads)']
            and [ast.unparse(s) for s in body[0].orelse] == want_full):
        raise TranslationError('Kernel.get_agop is not (categorical dispatch | reshape(-1, d) -> optional centring by the batch mean -> G^T G)')
    fn = _cls_method(tree, 'Kernel', 'get_agop_diag')
    body = [ast.unparse(s) for s in fn.body if not (isinstance(s, ast.Expr) and isinstance(s.value, ast.Constant))]
    if body != want_full[:3] + ['return f_grads.square().sum(dim=-2)']:
        raise TranslationError('Kernel.get_agop_diag is not (reshape(-1, d) -> optional centring -> sum of squares over rows)')


def generate():
    tree = ast.parse(open(os.path.join(REPO, 'xrfm', 'rfm_src', 'kernels.py')).read())
    _wrapper_ok(tree)
    _agop_ok(tree)
    gl2 = GSym('LaplaceKernel').run(_cls_method(tree, 'LaplaceKernel', '_get_function_grad_impl'))
    gli = GSym('LightLaplaceKernel').run(_cls_method(tree, 'LightLaplaceKernel', 'get_function_grads'))
    for nm, g in (('LaplaceKernel', gl2), ('LightLaplaceKernel', gli)):
        if not (isinstance(g, tuple) and g[0] == 'gradsum'):
            raise TranslationError(f'{nm}: gradient does not end in the einsum pair')
    fp = _forward(tree, 'ProductLaplaceKernel')
    fq = _forward(tree, 'LpqLaplaceKernel')
    fs = _forward(tree, 'SumPowerLaplaceKernel')
    return f'''(* GENERATED on every run by harness/gradops.py from /repo/xrfm/rfm_src/kernels.py — do not edit *)
From Coq Require Import Reals List Lra.
Require Import XV.Real.Kernels XV.Real.Grads XV.Real.GradOps.
Import ListNotations.
Local Open Scope R_scope.

(* closed-form gradients: weight M[i,j] for a generic (x, z), then the einsum pair; the generic wrapper multiplies by the transform *)
Definition gen_w_l2 (t : tmat) (L q eps : R) (z x : list R) : R := {gl2[1]}.
Definition gen_grad_l2 (t : tmat) (L q eps : R) (xs : list (list R)) (cs : list R) (z : list R) : list R :=
  transform t (gsum_w (gen_w_l2 t L q eps z) (fun x => {gl2[3]}) {gl2[2]} xs cs).
Definition gen_w_light (t : tmat) (L q eps : R) (z x : list R) : R := {gli[1]}.
Definition gen_grad_light (t : tmat) (L q eps : R) (xs : list (list R)) (cs : list R) (z : list R) : list R :=
  gsum_w (gen_w_light t L q eps z) (fun x => {gli[3]}) {gli[2]} xs cs.

Lemma gen_grad_l2_eq_model : forall t L q eps xs cs z, gen_grad_l2 t L q eps xs cs z = grad_l2 t L q eps xs cs z.
Proof.
  intros. rewrite grad_l2_as_gsum_w. unfold gen_grad_l2. f_equal. apply gsum_w_ext. intros x _. split; [|reflexivity].
  unfold gen_w_l2, gweight. rewrite Rmax_right by apply cdist2_nonneg. reflexivity.
Qed.
Lemma gen_grad_light_eq_model : forall t L q eps xs cs z, gen_grad_light t L q eps xs cs z = grad_light t L q eps xs cs z.
Proof.
  intros. rewrite grad_light_as_gsum_w. unfold gen_grad_light. apply gsum_w_ext. intros x _. split; [|reflexivity].
  unfold gen_w_light, gweight, light_sq. rewrite ?vdotR_scale_l. reflexivity.
Qed.

(* what the autodiff kernels differentiate: summand of `coefs @ (...).sum over query points` for a generic (x, z) *)
Definition gen_fwd_product (t : tmat) (L q eps : R) (x z : list R) : R := {fp}.
Definition gen_fwd_lpq (t : tmat) (L p q eps : R) (x z : list R) : R := {fq}.
Definition gen_fwd_sum_power (t : tmat) (L q c eps : R) (power : nat) (x z : list R) : R := {fs}.
Lemma gen_fwd_product_eq_model : forall t L q eps x z, gen_fwd_product t L q eps x z = fwd_product t L q eps x z.
Proof. intros. reflexivity. Qed.
Lemma gen_fwd_lpq_eq_model : forall t L p q eps x z, gen_fwd_lpq t L p q eps x z = fwd_lpq t L p q eps x z.
Proof. intros. reflexivity. Qed.
Lemma gen_fwd_sum_power_eq_model : forall t L q c eps power x z, gen_fwd_sum_power t L q c eps power x z = fwd_sum_power t L q c eps power x z.
Proof. intros. reflexivity. Qed.
'''


def check_translation(ck):
    from harness.common import coqc
    try:
        txt = generate()
        p = os.path.join(ck.bdir, 'GradOps_gen.v')
        open(p, 'w').write(txt)
        rc, out, dt = coqc(p)
        ck.checker_cmds.append(f'coqc build/{ck.pid}/run_<pid>/GradOps_gen.v')
        ck.obligation('GradOps_gen.v: the gradient op sequences (generic wrapper, closed-form L2 / memory-light gradients incl. mask-before-clamp and the einsum pair, '
                      'the closures the product / Lpq / sum-power kernels hand to jacrev, get_agop / get_agop_diag reductions), re-translated from the source, '
                      'equal the Coq models', 'translation', rc == 0, out)
        return rc == 0
    except TranslationError as e:
        ck.obligation('gradops translator recognises the source', 'translation', False, str(e))
        return False
