"""Fail-closed translator for the kernel op sequences (C05): `_get_kernel_matrix_impl` of the five CPU kernel classes is re-read from
the *current* source with Python's `ast`, executed symbolically for one generic entry (row x of the first argument, row z of the
second), and emitted as a Coq real-valued term; lemmas `generated = hand model (coq/Real/Kernels.v)` are re-proved on every run.
The closed-form theorems of C05 are about those models, so they are re-checked against what the code says now.

Symbolic values:  ('rows', side, term)  a tensor whose row for the generic x (side 'x') or z (side 'z') is the Coq `list R` term
                  ('rowscalar', side, term)  one real per row of that side
                  ('entry', term)  the (x, z) entry of an (n_x, n_z) tensor — a Coq R term
                  ('cw', listterm, body)  an (n_x, n_z, d) tensor: per coordinate u of `listterm`, the Coq R term `body` (in the variable u)
Row-slicing of the first argument (x[i:i+bs]) keeps the generic row; the two branches of ProductLaplaceKernel's internal batching
must yield the same entry.  `_adapt_bandwidth` only assigns self.bandwidth (C19) and is skipped; L denotes the bandwidth in force.
Anything outside the recognised subset raises TranslationError."""
import ast, os
from harness.common import REPO
from harness.splitarith import TranslationError


def _cls_method(tree, cls, name):
    for node in tree.body:
        if isinstance(node, ast.ClassDef) and node.name == cls:
            for it in node.body:
                if isinstance(it, ast.FunctionDef) and it.name == name:
                    return it
    raise TranslationError(f'{cls}.{name} not found')


class Sym:
    def __init__(self, cls):
        self.cls = cls
        self.env = {'x': ('rows', 'x', 'x'), 'z': ('rows', 'z', 'z')}

    # ---- scalars (python floats / attributes) ----
    def scalar(self, e):
        u = ast.unparse(e)
        table = {'self.exponent': 'q', 'self.bandwidth': 'L', 'self.p': 'p', 'self.const_mix': 'c'}
        if u in table:
            return table[u]
        if isinstance(e, ast.Constant) and isinstance(e.value, (int, float)) and not isinstance(e.value, bool):
            v = float(e.value)
            if v != int(v):
                raise TranslationError(f'non-integer constant {u}')
            return str(int(v))
        if isinstance(e, ast.UnaryOp) and isinstance(e.op, ast.USub):
            return f'(- {self.scalar(e.operand)})'
        if isinstance(e, ast.BinOp):
            if isinstance(e.op, ast.Pow) and ast.unparse(e.left) == 'self.bandwidth' and ast.unparse(e.right) == 'self.exponent':
                return '(Rpower L q)'
            ops = {ast.Div: '/', ast.Mult: '*', ast.Sub: '-', ast.Add: '+'}
            for k, s in ops.items():
                if isinstance(e.op, k):
                    return f'({self.scalar(e.left)} {s} {self.scalar(e.right)})'
        if u in ('x.shape[1]', 'x.shape[-1]'):
            v = self.env['x']
            if v[0] != 'rows':
                raise TranslationError('x.shape[1] of a non-row value')
            return f'(INR (length {v[2]}))'
        raise TranslationError(f'{self.cls}: unsupported scalar expression {u}')

    # ---- tensor expressions ----
    def val(self, e):
        u = ast.unparse(e)
        if isinstance(e, ast.Name):
            if e.id in self.env:
                return self.env[e.id]
            raise TranslationError(f'{self.cls}: unknown tensor {e.id}')
        # x[i:i + bs] : a block of rows of the first argument
        if isinstance(e, ast.Subscript) and isinstance(e.value, ast.Name) and isinstance(e.slice, ast.Slice) and e.slice.step is None:
            v = self.val(e.value)
            if v[0] in ('rows', 'entry') and (v[0] == 'entry' or v[1] == 'x'):
                return v
            raise TranslationError(f'{self.cls}: row slice of {u}')
        if isinstance(e, ast.Call) and ast.unparse(e.func) == 'self._transform_m' and len(e.args) == 2 and ast.unparse(e.args[1]) == 'mat':
            v = self.val(e.args[0])
            if v[0] != 'rows':
                raise TranslationError(f'{self.cls}: transform of a non-row value')
            return ('rows', v[1], f'(transform t {v[2]})')
        if isinstance(e, ast.Call) and ast.unparse(e.func) == 'torch.cdist' and len(e.args) == 2:
            a, b = self.val(e.args[0]), self.val(e.args[1])
            if not (a[0] == 'rows' and b[0] == 'rows' and a[1] == 'x' and b[1] == 'z'):
                raise TranslationError(f'{self.cls}: cdist arguments are not (rows of x, rows of z): {u}')
            kws = {k.arg: ast.unparse(k.value) for k in e.keywords}
            if not kws:
                return ('entry', f'(cdist2 {a[2]} {b[2]})')
            if set(kws) == {'p'} and kws['p'] in ('self.exponent', 'self.p'):
                return ('entry', f"(cdistp {'q' if kws['p'] == 'self.exponent' else 'p'} {a[2]} {b[2]})")
            raise TranslationError(f'{self.cls}: unsupported cdist keywords {kws}')
        # (xm * x).sum(dim=-1)
        if isinstance(e, ast.Call) and isinstance(e.func, ast.Attribute) and e.func.attr == 'sum' and {k.arg: ast.unparse(k.value) for k in e.keywords} == {'dim': '-1'} and not e.args:
            inner = e.func.value
            if isinstance(inner, ast.BinOp) and isinstance(inner.op, ast.Mult):
                a, b = self.val(inner.left), self.val(inner.right)
                if a[0] == 'rows' and b[0] == 'rows' and a[1] == b[1]:
                    return ('rowscalar', a[1], f'(vdotR {a[2]} {b[2]})')
            v = self.val(inner)
            if v[0] == 'cw':
                return ('entry', f'(rsumR (map (fun u => {v[2]}) {v[1]}))')
            raise TranslationError(f'{self.cls}: unsupported sum {u}')
        # broadcasting helpers
        if isinstance(e, ast.Subscript):
            s = ast.unparse(e.slice).strip('()')
            v = self.val(e.value)
            if v[0] == 'rowscalar' and ((s == ':, None' and v[1] == 'x') or (s == 'None, :' and v[1] == 'z')):
                return ('entry', v[2])
            if v[0] == 'rows' and ((s == ':, None, :' and v[1] == 'x') or (s == 'None, :, :' and v[1] == 'z')):
                return ('bc', v[1], v[2])
            raise TranslationError(f'{self.cls}: unsupported indexing {u}')
        if isinstance(e, ast.Attribute) and e.attr == 'T':
            v = self.val(e.value)
            if v[0] == 'rows' and v[1] == 'z':
                return ('rowsT', 'z', v[2])
            raise TranslationError(f'{self.cls}: transpose of {u}')
        if isinstance(e, ast.BinOp):
            if isinstance(e.op, ast.MatMult):
                a, b = self.val(e.left), self.val(e.right)
                if a[0] == 'rows' and a[1] == 'x' and b[0] == 'rowsT':
                    return ('entry', f'(vdotR {a[2]} {b[2]})')
                raise TranslationError(f'{self.cls}: unsupported matmul {u}')
            if isinstance(e.op, ast.Mult) and isinstance(e.left, ast.Constant):
                b = self.val(e.right)
                if b[0] == 'rows':
                    return ('rows', b[1], f'(vscaleR {self.scalar(e.left)} {b[2]})')
                if b[0] == 'entry':
                    return ('entry', f'({self.scalar(e.left)} * {b[1]})')
            if isinstance(e.op, (ast.Sub, ast.Add)):
                a, b = self.val(e.left), self.val(e.right)
                if a[0] == 'entry' and b[0] == 'entry':
                    return ('entry', f"({a[1]} {'-' if isinstance(e.op, ast.Sub) else '+'} {b[1]})")
                if isinstance(e.op, ast.Sub) and a[0] == 'bc' and b[0] == 'bc' and a[1] == 'x' and b[1] == 'z':
                    return ('cw', f'(vsubR {a[2]} {b[2]})', 'u')
        raise TranslationError(f'{self.cls}: unsupported tensor expression {u}')

    # ---- in-place operations ----
    def inplace(self, name, op, call):
        v = self.env.get(name)
        if v is None or v[0] not in ('entry', 'cw'):
            raise TranslationError(f'{self.cls}: in-place {op} on {name}')
        cur = v[1] if v[0] == 'entry' else v[2]
        args = call.args; kws = {k.arg: ast.unparse(k.value) for k in call.keywords}
        if op == 'clamp_' and not args and kws == {'min': '0'}:
            new = f'(Rmax 0 {cur})'
        elif op == 'sqrt_' and not args and not kws:
            new = f'(sqrt {cur})'
        elif op == 'abs_' and not args and not kws:
            new = f'(Rabs {cur})'
        elif op == 'exp_' and not args and not kws:
            new = f'(exp {cur})'
        elif op == 'pow_' and len(args) == 1 and not kws and ast.unparse(args[0]) == 'self.exponent':
            new = f'(pw {cur} q)'
        elif op == 'pow_' and len(args) == 1 and not kws and ast.unparse(args[0]) == 'self.power':
            new = f'({cur} ^ power)'
        elif op == 'mul_' and len(args) == 1 and not kws:
            new = f'({cur} * {self.scalar(args[0])})'
        elif op == 'add_' and len(args) == 1 and not kws:
            new = f'({cur} + {self.scalar(args[0])})'
        else:
            raise TranslationError(f'{self.cls}: unsupported in-place operation {name}.{op}({ast.unparse(call)})')
        self.env[name] = ('entry', new) if v[0] == 'entry' else ('cw', v[1], new)

    def stmt(self, st):
        u = ast.unparse(st)
        if isinstance(st, ast.Expr) and isinstance(st.value, ast.Constant):
            return None
        if u == 'n, d = z.shape':
            return None
        if u == 'if not self.is_adaptive_bandwidth:\n    self._adapt_bandwidth(kernel_mat)':
            # assigns self.bandwidth only (C19); L is the bandwidth in force afterwards.  What it is handed is recorded: it must be (distance)^q
            v = self.env.get('kernel_mat')
            if v is None or v[0] != 'entry' or getattr(self, 'adapt_arg', None) is not None:
                raise TranslationError(f'{self.cls}: _adapt_bandwidth is not handed a single (n_x, n_z) matrix')
            self.adapt_arg = v[1]
            return None
        if isinstance(st, ast.Assign) and len(st.targets) == 1 and isinstance(st.targets[0], ast.Name):
            self.env[st.targets[0].id] = self.val(st.value)
            return None
        if isinstance(st, ast.Expr) and isinstance(st.value, ast.Call) and isinstance(st.value.func, ast.Attribute) \
                and isinstance(st.value.func.value, ast.Name):
            self.inplace(st.value.func.value.id, st.value.func.attr, st.value)
            return None
        # if self.exponent != 1.0: kernel_mat.pow_(self.exponent)
        if isinstance(st, ast.If) and ast.unparse(st.test) == 'self.exponent != 1.0' and not st.orelse and len(st.body) == 1:
            b = st.body[0]
            if isinstance(b, ast.Expr) and isinstance(b.value, ast.Call) and isinstance(b.value.func, ast.Attribute):
                nm = b.value.func.value.id
                before = self.env[nm]
                self.inplace(nm, b.value.func.attr, b.value)
                after = self.env[nm]
                if before[0] != 'entry':
                    raise TranslationError(f'{self.cls}: conditional operation on a non-entry value')
                self.env[nm] = ('entry', f'(if Req_EM_T q 1 then {before[1]} else {after[1]})')
                return None
        # internal row batching: both branches must compute the same entry
        if isinstance(st, ast.If) and ast.unparse(st.test) == 'x.shape[0] <= kernel_batch_size':
            s1 = Sym(self.cls); s1.env = dict(self.env)
            for b in st.body:
                s1.stmt(b)
            s2 = Sym(self.cls); s2.env = dict(self.env)
            if len(st.orelse) != 2 or not ast.unparse(st.orelse[0]).startswith('kernel_mat = torch.empty((x.shape[0], z.shape[0])'):
                raise TranslationError(f'{self.cls}: batched branch: unexpected form')
            loop = st.orelse[1]
            if not (isinstance(loop, ast.For) and ast.unparse(loop.iter) == 'range(0, x.shape[0], kernel_batch_size)' and len(loop.body) == 1):
                raise TranslationError(f'{self.cls}: batched branch: unexpected loop')
            a = loop.body[0]
            if not (isinstance(a, ast.Assign) and ast.unparse(a.targets[0]) == 'kernel_mat[i:i + kernel_batch_size]'):
                raise TranslationError(f'{self.cls}: batched branch: unexpected assignment {ast.unparse(a)[:80]}')
            s2.env['kernel_mat'] = s2.val(a.value)
            if s1.env.get('kernel_mat') != s2.env.get('kernel_mat'):
                raise TranslationError(f"{self.cls}: the batched branch computes {s2.env.get('kernel_mat')} but the single-shot branch computes {s1.env.get('kernel_mat')}")
            self.env['kernel_mat'] = s1.env['kernel_mat']
            return None
        if isinstance(st, ast.Return):
            v = self.val(st.value)
            if v[0] != 'entry':
                raise TranslationError(f'{self.cls}: returns a non-entry value')
            return v[1]
        raise TranslationError(f'{self.cls}: unrecognised statement {u[:120]}')

    def run(self, fn):
        for st in fn.body:
            r = self.stmt(st)
            if r is not None:
                return r
        raise TranslationError(f'{self.cls}: no return')


def generate():
    tree = ast.parse(open(os.path.join(REPO, 'xrfm', 'rfm_src', 'kernels.py')).read())
    g = {}; ad = {}
    for cls in ('LaplaceKernel', 'LightLaplaceKernel', 'ProductLaplaceKernel', 'LpqLaplaceKernel', 'SumPowerLaplaceKernel'):
        sy = Sym(cls)
        g[cls] = sy.run(_cls_method(tree, cls, '_get_kernel_matrix_impl'))
        ad[cls] = getattr(sy, 'adapt_arg', None)
    for cls in ('LaplaceKernel', 'LightLaplaceKernel', 'ProductLaplaceKernel', 'LpqLaplaceKernel'):
        if ad[cls] is None:
            raise TranslationError(f'{cls}._get_kernel_matrix_impl never re-estimates the bandwidth (`if not self.is_adaptive_bandwidth: self._adapt_bandwidth(kernel_mat)` not found)')
    if ad['SumPowerLaplaceKernel'] is not None:
        raise TranslationError('SumPowerLaplaceKernel adapts its bandwidth (it is documented as constant-bandwidth only)')
    # _transform_m: None -> identity, vector -> elementwise product, matrix -> x @ mat
    tm = _cls_method(tree, 'Kernel', '_transform_m')
    body = [s for s in tm.body if not (isinstance(s, ast.Expr) and isinstance(s.value, ast.Constant))]
    want = ("if mat is not None:\n    if len(mat.shape) == 1:\n        x = x * mat[None, :].to(dtype=x.dtype)\n    elif len(mat.shape) == 2:\n"
            "        x = x @ mat.to(dtype=x.dtype)\n    else:\n        raise ValueError(f'm_matrix should have one or two dimensions, but got shape {mat.shape}')")
    if len(body) != 2 or ast.unparse(body[0]) != want or ast.unparse(body[1]) != 'return x':
        raise TranslationError('_transform_m is not (None -> identity | vector -> x * mat | matrix -> x @ mat)')
    return f'''(* GENERATED on every run by harness/kernelops.py from /repo/xrfm/rfm_src/kernels.py — do not edit *)
From Coq Require Import Reals List Lra.
Require Import XV.Real.Kernels.
Import ListNotations.
Local Open Scope R_scope.

Definition gen_l2 (t : tmat) (L q : R) (x z : list R) : R := {g['LaplaceKernel']}.
Definition gen_light (t : tmat) (L q : R) (x z : list R) : R := {g['LightLaplaceKernel']}.
Definition gen_product (t : tmat) (L q : R) (x z : list R) : R := {g['ProductLaplaceKernel']}.
Definition gen_lpq (t : tmat) (L p q : R) (x z : list R) : R := {g['LpqLaplaceKernel']}.
Definition gen_sum_power (t : tmat) (L q c : R) (power : nat) (x z : list R) : R := {g['SumPowerLaplaceKernel']}.

(* what each kernel hands to _adapt_bandwidth when the bandwidth is re-estimated: the kernel-norm distance to the power q *)
Definition gen_adapt_l2 (t : tmat) (q : R) (x z : list R) : R := {ad['LaplaceKernel']}.
Definition gen_adapt_light (t : tmat) (q : R) (x z : list R) : R := {ad['LightLaplaceKernel']}.
Definition gen_adapt_product (t : tmat) (q : R) (x z : list R) : R := {ad['ProductLaplaceKernel']}.
Definition gen_adapt_lpq (t : tmat) (p q : R) (x z : list R) : R := {ad['LpqLaplaceKernel']}.
Lemma gen_adapt_l2_is_distance_pow : forall t q x z, gen_adapt_l2 t q x z = pw (cdist2 (transform t x) (transform t z)) q.
Proof.
  intros. unfold gen_adapt_l2, cdist2. rewrite Rmax_right by apply sqrt_pos. destruct (Req_EM_T q 1) as [->|_]; [|reflexivity].
  rewrite pw_one by apply sqrt_pos. reflexivity.
Qed.
Lemma gen_adapt_light_is_distance_pow : forall t q x z, gen_adapt_light t q x z = pw (sqrt (Rmax 0 (light_sq t x z))) q.
Proof.
  intros. unfold gen_adapt_light, light_sq. rewrite ?vdotR_scale_l. destruct (Req_EM_T q 1) as [->|_]; [|reflexivity].
  rewrite pw_one by apply sqrt_pos. reflexivity.
Qed.
Lemma gen_adapt_product_is_distance_pow : forall t q x z, gen_adapt_product t q x z = pw (cdistp q (transform t x) (transform t z)) q.
Proof. intros. unfold gen_adapt_product, cdistp. rewrite Rmax_right by (apply pw_nonneg, sum_abs_pow_nonneg). reflexivity. Qed.
Lemma gen_adapt_lpq_is_distance_pow : forall t p q x z, gen_adapt_lpq t p q x z = pw (cdistp p (transform t x) (transform t z)) q.
Proof. intros. unfold gen_adapt_lpq, cdistp. rewrite Rmax_right by (apply pw_nonneg, sum_abs_pow_nonneg). reflexivity. Qed.

Lemma gen_l2_eq_model : forall t L q x z, gen_l2 t L q x z = laplace_l2 t L q x z.
Proof.
  intros. unfold gen_l2, laplace_l2. destruct (Req_EM_T q 1) as [->|_]; [|reflexivity].
  rewrite pw_one by apply Rmax_l. reflexivity.
Qed.
Lemma gen_light_eq_model : forall t L q x z, gen_light t L q x z = laplace_light t L q x z.
Proof.
  intros. unfold gen_light, laplace_light, light_sq. rewrite ?vdotR_scale_l.
  destruct (Req_EM_T q 1) as [->|_]; [|reflexivity]. rewrite pw_one by apply sqrt_pos. reflexivity.
Qed.
Lemma gen_product_eq_model : forall t L q x z, gen_product t L q x z = laplace_product t L q x z.
Proof. intros. reflexivity. Qed.
Lemma gen_lpq_eq_model : forall t L p q x z, gen_lpq t L p q x z = laplace_lpq t L p q x z.
Proof. intros. reflexivity. Qed.
Lemma gen_sum_power_eq_model : forall t L q c power x z, gen_sum_power t L q c power x z = sum_power t L q c power x z.
Proof. intros. reflexivity. Qed.
'''


def check_translation(ck):
    from harness.common import coqc
    try:
        txt = generate()
        p = os.path.join(ck.bdir, 'KernelOps_gen.v')
        open(p, 'w').write(txt)
        rc, out, dt = coqc(p)
        ck.checker_cmds.append(f'coqc build/{ck.pid}/run_<pid>/KernelOps_gen.v')
        ck.obligation('KernelOps_gen.v: the tensor-operation sequences of the five CPU kernels (_get_kernel_matrix_impl, incl. both branches of the internal '
                      'row batching) and _transform_m, re-translated from the source for a generic entry, equal the Coq op-sequence models', 'translation', rc == 0, out)
        return rc == 0
    except TranslationError as e:
        ck.obligation('kernelops translator recognises the source', 'translation', False, str(e))
        return False
