"""Fail-closed translator for the two loops of xRFM.fit that decide WHICH constructed trees a fitted model holds (C06b, Model/TreeIter.v):
  * xRFM._build_tree_with_iterations: first build -> score -> copy; per iteration [clock test -> break]; averaged matrix of the PREVIOUS build; rebuild as a root;
    score; strict improvement in the direction of `maximizing_metric` -> deep copy; return the copy;
  * the loop over n_trees in xRFM.fit: [iter > 0 and clock test -> break]; build (with iterations iff n_tree_iters > 0) as a root; append; cache; a single-leaf tree
    ends the loop; otherwise has_split = True; temperature tuning iff has_split and use_temperature_tuning.
The comparison operators become PrimFloat terms proved equal to the hand model on every run; the statement order is matched structurally.
Anything outside the recognised shape raises TranslationError: the obligation is broken."""
import ast, os
from harness.common import REPO
from harness.splitarith import TranslationError, _method
from harness.selectarith import F, _parse


def _u(x):
    return ast.unparse(x)


def _build_call(call, want_avg):
    """a call self._build_tree(X, y, X_val, y_val, avg_M=..., is_root=True, time_limit_s=..., split_tracker={'count': 0}[, **kwargs])"""
    if not (isinstance(call, ast.Call) and _u(call.func) == 'self._build_tree'):
        raise TranslationError(f'expected a call of self._build_tree, found {_u(call)[:80]}')
    if [_u(a) for a in call.args] != ['X', 'y', 'X_val', 'y_val']:
        raise TranslationError(f'_build_tree called on {[_u(a) for a in call.args]}, not on the data of the fit')
    kw = {k.arg: _u(k.value) for k in call.keywords}
    if kw.get('is_root') != 'True':
        raise TranslationError('a tree of the forest is not built as a root (is_root=True)')
    if kw.get('split_tracker') != "{'count': 0}":
        raise TranslationError(f'split counter of a new tree is {kw.get("split_tracker")}, not a fresh one')
    if want_avg is not None and kw.get('avg_M') != want_avg:
        raise TranslationError(f'avg_M of the build is {kw.get("avg_M")}, expected {want_avg}')
    return kw


def translate_iterations(fn):
    body = [s for s in fn.body if not (isinstance(s, ast.Expr) and isinstance(s.value, ast.Constant))]
    out = {}
    pre, loop, post = [], None, []
    for s in body:
        if isinstance(s, ast.For):
            if loop is not None:
                raise TranslationError('_build_tree_with_iterations: more than one loop')
            loop = s
        elif loop is None:
            pre.append(s)
        else:
            post.append(s)
    if loop is None:
        raise TranslationError('_build_tree_with_iterations: iteration loop not found')
    preu = [_u(s) for s in pre]
    if preu[:2] != ['avg_M = None', 'start_time = time.time()'] or len(pre) != 6:
        raise TranslationError(f'_build_tree_with_iterations: unexpected prologue {preu}')
    if not (isinstance(pre[2], ast.Assign) and _u(pre[2].targets[0]) == 'tree'):
        raise TranslationError('_build_tree_with_iterations: first build not found')
    _build_call(pre[2].value, 'None')
    if preu[3:] != ['best_val_score = self.score_tree(X_val, y_val, tree)', 'best_tree = self.tree_copy(tree)', 'val_scores = [best_val_score + 0]']:
        raise TranslationError(f'_build_tree_with_iterations: first score / copy: {preu[3:]}')
    if _u(loop.target) != 'iter' or 'range(self.n_tree_iters)' not in _u(loop.iter) or loop.orelse:
        raise TranslationError(f'_build_tree_with_iterations: loop header {_u(loop.target)} in {_u(loop.iter)}')
    lb = loop.body
    if len(lb) != 7:
        raise TranslationError(f'_build_tree_with_iterations: loop body has {len(lb)} statements: {[_u(s)[:50] for s in lb]}')
    t = lb[0]
    if not (isinstance(t, ast.If) and [_u(x) for x in t.body] == ['break'] and not t.orelse and isinstance(t.test, ast.BoolOp) and isinstance(t.test.op, ast.And)
            and len(t.test.values) == 2 and _u(t.test.values[0]) == 'time_limit_s is not None' and 'time.time()' in _u(t.test.values[1])):
        raise TranslationError(f'_build_tree_with_iterations: the first statement of an iteration is not the wall-clock test: {_u(t)[:120]}')
    if _u(lb[1]) != 'avg_M = self._average_M_across_leaves(tree)' or _u(lb[2]) != 'del tree':
        raise TranslationError(f'_build_tree_with_iterations: averaged matrix is not taken from the previous build: {_u(lb[1])} ; {_u(lb[2])}')
    if not (isinstance(lb[3], ast.Assign) and _u(lb[3].targets[0]) == 'tree'):
        raise TranslationError('_build_tree_with_iterations: rebuild not found')
    _build_call(lb[3].value, 'avg_M')
    if _u(lb[4]) != 'val_score = self.score_tree(X_val, y_val, tree)' or _u(lb[5]) != 'val_scores.append(val_score)':
        raise TranslationError(f'_build_tree_with_iterations: scoring of the rebuild: {_u(lb[4])} ; {_u(lb[5])}')
    sel = lb[6]
    take = ['best_val_score = val_score', 'best_tree = self.tree_copy(tree)']
    if not (isinstance(sel, ast.If) and [_u(x) for x in sel.body] == take and len(sel.orelse) == 1 and isinstance(sel.orelse[0], ast.If)
            and [_u(x) for x in sel.orelse[0].body] == take and not sel.orelse[0].orelse):
        raise TranslationError(f'_build_tree_with_iterations: selection step: {_u(sel)[:200]}')
    f = F({'self.maximizing_metric': 'maximize', 'val_score': 'new', 'best_val_score': 'best'})
    out['better'] = f'({f.tr(sel.test)} || {f.tr(sel.orelse[0].test)})'
    postu = [_u(s) for s in post]
    if not postu or postu[-1] != 'return best_tree' or any(not (isinstance(s, ast.If) and _u(s.test) == 'self.verbose') for s in post[:-1]):
        raise TranslationError(f'_build_tree_with_iterations: epilogue {postu}')
    return out


def translate_forest(fn):
    """the loop over n_trees inside xRFM.fit"""
    body = fn.body
    loop = None
    idx = None
    for k, s in enumerate(body):
        if isinstance(s, ast.For) and 'range(self.n_trees)' in _u(s.iter):
            if loop is not None:
                raise TranslationError('fit: more than one loop over n_trees')
            loop, idx = s, k
    if loop is None:
        raise TranslationError('fit: loop over n_trees not found')
    before = [_u(s) for s in body[:idx]]
    if before[-3:] != ['self.trees = []', 'start_time = time.time()', 'has_split = False']:
        raise TranslationError(f'fit: initialisation before the tree loop: {before[-3:]}')
    if _u(loop.target) != 'iter' or loop.orelse:
        raise TranslationError('fit: tree loop header')
    lb = loop.body
    if len(lb) != 7:
        raise TranslationError(f'fit: tree loop body has {len(lb)} statements: {[_u(s)[:50] for s in lb]}')
    t = lb[0]
    if not (isinstance(t, ast.If) and [_u(x) for x in t.body] == ['break'] and not t.orelse and isinstance(t.test, ast.BoolOp) and isinstance(t.test.op, ast.And)
            and len(t.test.values) == 3 and _u(t.test.values[0]) == 'iter > 0' and _u(t.test.values[1]) == 'self.time_limit_s is not None'
            and 'time.time()' in _u(t.test.values[2])):
        raise TranslationError(f'fit: the first statement of the tree loop is not the guarded wall-clock test: {_u(t)[:160]}')
    if not (isinstance(lb[1], ast.Assign) and _u(lb[1].targets[0]) == 'time_limit_s'):
        raise TranslationError('fit: per-tree time budget not found')
    b = lb[2]
    if not (isinstance(b, ast.If) and _u(b.test) == 'self.n_tree_iters > 0' and len(b.body) == 1 and len(b.orelse) == 1
            and isinstance(b.body[0], ast.Assign) and _u(b.body[0].targets[0]) == 'tree' and _u(b.body[0].value.func) == 'self._build_tree_with_iterations'
            and [_u(a) for a in b.body[0].value.args] == ['X', 'y', 'X_val', 'y_val']
            and isinstance(b.orelse[0], ast.Assign) and _u(b.orelse[0].targets[0]) == 'tree'):
        raise TranslationError(f'fit: build dispatch: {_u(b)[:200]}')
    _build_call(b.orelse[0].value, None)
    if _u(lb[3]) != 'self.trees.append(tree)' or _u(lb[4]) != 'self._ensure_tree_cache(tree)':
        raise TranslationError(f'fit: append / cache: {_u(lb[3])} ; {_u(lb[4])}')
    lf = lb[5]
    if not (isinstance(lf, ast.If) and _u(lf.test) == "tree['type'] == 'leaf'" and _u(lf.body[-1]) == 'break' and not lf.orelse
            and all(isinstance(s, ast.If) and _u(s.test) == 'self.verbose' for s in lf.body[:-1])):
        raise TranslationError(f'fit: single-leaf stop: {_u(lf)[:160]}')
    if _u(lb[6]) != 'has_split = True':
        raise TranslationError(f'fit: has_split update: {_u(lb[6])}')
    after = body[idx + 1:]
    tune = [s for s in after if isinstance(s, ast.If) and 'fit_temperature' in _u(s)]
    if len(tune) != 1 or _u(tune[0].test) != 'has_split and self.use_temperature_tuning' or tune[0].orelse or \
            [_u(x) for x in tune[0].body] != ['self.fit_temperature(X_val, y_val, self.temp_tuning_space)']:
        raise TranslationError('fit: temperature tuning is not gated by `has_split and self.use_temperature_tuning`')
    for s in after:
        for n in ast.walk(s):
            if isinstance(n, (ast.Assign, ast.AugAssign)) and 'self.trees' in _u(n.targets[0] if isinstance(n, ast.Assign) else n.target):
                raise TranslationError('fit: self.trees is modified after the tree loop')
    return {}


def check_maximizing(ctor):
    """maximizing_metric is the direction flag of the configured tuning metric (False when none is given: mse / brier are minimised)"""
    want = 'False if tuning_metric is None else Metric.from_name(tuning_metric).should_maximize'
    got = [_u(s.value) for s in ast.walk(ctor) if isinstance(s, ast.Assign) and _u(s.targets[0]) == 'self.maximizing_metric']
    if got != [want]:
        raise TranslationError(f'__init__: maximizing_metric = {got}')


def generate():
    xt = _parse('xrfm/xrfm.py')
    it = translate_iterations(_method(xt, 'xRFM', '_build_tree_with_iterations'))
    translate_forest(_method(xt, 'xRFM', 'fit'))
    check_maximizing(_method(xt, 'xRFM', '__init__'))
    for n in ast.walk(xt):
        if isinstance(n, ast.FunctionDef) and n.name == 'tree_copy':
            if _u(n.body[-1]) != 'return copy.deepcopy(tree)':
                raise TranslationError(f'tree_copy: {_u(n.body[-1])}')
    return f'''(* GENERATED on every run by harness/treeiterops.py from /repo/xrfm/xrfm.py — do not edit *)
From Coq Require Import Bool PrimFloat List.
Require Import XV.Model.TreeIter.

(* _build_tree_with_iterations: the rebuilt tree replaces the kept copy iff ... *)
Definition gen_tibetter (maximize : bool) (new best : float) : bool := {it['better']}.
Lemma gen_tibetter_eq_model : forall maximize new best, gen_tibetter maximize new best = f_tibetter maximize new best.
Proof. intros [] new best; unfold gen_tibetter, f_tibetter; cbn [negb andb orb]; rewrite ?orb_false_r; reflexivity. Qed.

(* one iteration assembled from the generated operator (previous build -> rebuild -> score -> strict improvement -> copy) is the model's ti_round *)
Lemma gen_ti_round_eq_model : forall (T : Type) maximize (rebuild : nat -> T -> T) (score : T -> float) i (st : ti_state T float),
  ti_round T float (f_tibetter maximize) rebuild score i st =
  let t := rebuild i (ti_prev _ _ st) in
  let s := score t in
  let take := gen_tibetter maximize s (ti_best_score _ _ st) in
  {{| ti_prev := t; ti_best := if take then t else ti_best _ _ st; ti_best_score := if take then s else ti_best_score _ _ st;
     ti_scores := ti_scores _ _ st ++ (s :: nil); ti_builds := S (ti_builds _ _ st); ti_sources := ti_sources _ _ st ++ (ti_prev _ _ st :: nil) |}}.
Proof. intros. cbv zeta. rewrite gen_tibetter_eq_model. reflexivity. Qed.
'''


def check_translation(ck):
    from harness.common import coqc
    try:
        txt = generate()
        p = os.path.join(ck.bdir, 'TreeIterOps_gen.v')
        open(p, 'w').write(txt)
        rc, out, dt = coqc(p)
        ck.checker_cmds.append(f'coqc build/{ck.pid}/run_<pid>/TreeIterOps_gen.v')
        ck.obligation('TreeIterOps_gen.v: statement order of _build_tree_with_iterations and of the tree loop of fit (roots with a fresh split counter, rebuild from the '
                      'previous build, strict improvement in the declared direction, deep copy, single-leaf stop, has_split gate of temperature tuning) matched on the '
                      'current source; selection operator re-translated and equal to the hand model', 'translation', rc == 0, out)
        return rc == 0
    except TranslationError as e:
        ck.obligation('treeiterops translator recognises the source', 'translation', False, str(e))
        return False
