"""C04 — Function gradients are the true gradients of the kernel predictor."""
import json, math
import numpy as np
import torch
import mpmath as mp
from harness.common import *
from harness import oracle as orc
from harness import kreal
from harness.c05 import make_kernel

GHEADER = kreal.RHEADER.replace('Require Import XV.Real.Kernels.', 'Require Import XV.Real.Kernels XV.Real.Grads XV.Real.GradsP XV.Real.GradOps XV.Real.GradAuto.') + '''
(* the model of what jacrev + the generic wrapper return for the product / Lpq / sum-power kernels (Real/GradAuto.v), on concrete numerals *)
Ltac auto_unfold :=
  cbv [grad_product grad_lpq grad_sum_power gauto dlincomb dprod_m dlpq_m dprod dlpq dsp dsp_m spcoord_m dspcoord_m dspcoord wsum basis seq map transform xmat
       vmulR vsubR vaddR vscaleR vdotR nth length repeat sum_abs_pow normp rsumR fold_right pred].
Ltac sgn_simpl := repeat match goal with |- context [sgn ?a] => first [rewrite (sgn_pos a) by interval | rewrite (sgn_neg a) by interval] end.
Ltac mask_simpl := repeat match goal with |- context [masked ?e ?D ?v] => rewrite (masked_open e D v) by interval end.
Ltac auto_simpl := auto_unfold; pw_abs; pw_rest; mask_simpl; unfold dabs_pow; sgn_simpl;
  rewrite ?Rmult_0_r, ?Rmult_0_l, ?Rplus_0_r, ?Rplus_0_l, ?Rmult_1_r, ?Rmult_1_l.
Ltac grad_simpl :=
  cbv [grad_l2 grad_light gsum gsum_light transform xmat cdist2 light_sq vsubR vaddR vmulR vscaleR vdotR sumsq rsumR map fold_right repeat length nth];
  repeat (rewrite Rmax_right by interval);
  repeat match goal with |- context [gweight ?L ?q ?e ?d] => rewrite (gweight_far L q e d) by interval end.
'''


def mp_grad(kn, xs, cs, z, mat, par, dcoord):
    """high-precision derivative of f(z) = sum_i c_i k(x_i, z) in coordinate dcoord, from the documented closed form"""
    def f(t):
        zz = list(z)
        zz[dcoord] = zz[dcoord] + t
        return mp.fsum(c * orc.kernel_closed_form(kn, x, zz, mat, **par) for x, c in zip(xs, cs))
    return mp.diff(f, 0, h=mp.mpf(10) ** -20)


def coincidence_regime(ck, xr, kinds):
    """"where z coincides with a center, that center's own term contributes zero (up to rounding) and the result stays finite": EVERY kernel x exponents below, at and
    above 1 x (a) the training points themselves as queries, (b) a query that ties with a center in ONE coordinate (integer-valued columns), (c) a diagonal transform with
    an exact zero weight.  Oracle: finite output everywhere; (a) the gradient at x_j with all centers equals the gradient at x_j with center j removed (own term = 0);
    (c) the derivative along the zero-weight coordinate is exactly 0 and the other coordinates equal the gradient of the same configuration without the zero (weight 1e-300
    is indistinguishable from 0 for the others).  Index arithmetic picks the combination; the seed only the numbers.  (Round 14: the sum-power kernel returned nan here for q < 1.)"""
    rng = np.random.default_rng(ck.seed + 40404)
    T = lambda a: torch.tensor(a, dtype=torch.float64)
    qs = [0.5, 0.7, 1.0, 1.4]
    for i in range(ck.n(40, 160)):
        kn = kinds[i % 5]; q = qs[(i // 5) % 4]; mode = ['self', 'tie', 'zero-weight'][(i // 20 + i) % 3]
        p = 2.0
        if kn == 'lpq':
            p = [2.0, 1.5, 1.0][(i // 5) % 3]; q = min(q, p)
        d = int(rng.integers(2, 4)); nx = int(rng.integers(3, 6)); f = 1 + i % 3
        L = float(rng.choice([0.7, 2.0, 10.0])); cmix = [0.0, 0.3][i % 2]; power = 1 + (i // 2) % 3
        X = np.round(rng.standard_normal((nx, d)) * 2) / 2 if mode == 'tie' else rng.standard_normal((nx, d))
        for a_ in range(nx):                    # distinct rows
            X[a_, 0] += 0.01 * a_
        coefs = rng.standard_normal((f, nx))
        mat = None
        if mode == 'self':
            Z = X.copy()
        elif mode == 'tie':
            Z = rng.standard_normal((2, d)); Z[0, 1] = X[1, 1]; Z[1, d - 1] = X[0, d - 1]
        else:
            Z = rng.standard_normal((2, d)); mat = np.abs(rng.standard_normal(d)) + 0.3; zc = i % d; mat[zc] = 0.0
        kobj = make_kernel(xr, kn, L, q, p, cmix, power)
        desc = dict(regime='coincidence', i=i, kernel=kn, q=q, p=p, mode=mode, d=d, nx=nx, f=f, L=L, const_mix=cmix, power=power, seed=ck.seed)
        try:
            with xr.quiet():
                G = kobj.get_function_grads(T(X), T(Z), T(coefs), None if mat is None else T(mat)).double().numpy()
        except Exception as e:
            ck.violation(f'get_function_grads raised {e!r} on {desc}', dict(desc, X=X.tolist(), Z=Z.tolist(), error=repr(e)), key=json.dumps(dict(site='coincidence-raise', kernel=kn)))
            continue
        ck.case(dict(desc, X=X.tolist(), Z=Z.tolist()), nontrivial=True, sample=(i == 14))
        ck.count(f'coincidence regime: {mode}'); ck.count(f'coincidence regime: q={q}')
        if not np.all(np.isfinite(G)):
            bad = np.argwhere(~np.isfinite(G))[0].tolist()
            ck.violation(f'{kn} (q={q}): gradient entry (output {bad[0]}, query {bad[1]}, coordinate {bad[2]}) is not finite ({mode}: '
                         + {'self': 'the query is a training point', 'tie': 'the query ties with a center in one coordinate', 'zero-weight': 'a diagonal weight is exactly 0'}[mode]
                         + f') on {desc}', dict(desc, X=X.tolist(), Z=Z.tolist(), coefs=coefs.tolist(), mat=None if mat is None else mat.tolist()),
                         key=json.dumps(dict(site='coincidence-nonfinite', kernel=kn, mode=mode)))
            continue
        scale = float(np.abs(coefs).sum()) / L + 1.0
        if mode == 'self' and (kn != 'sum_power' or True):
            # own term contributes zero: dropping center j (and its coefficients) leaves the gradient at x_j unchanged.  For the sum-power kernel the own term is the
            # constant ((1-c)*1 + c)^power whose derivative is 0 as well.
            for j in range(nx):
                keep = [a_ for a_ in range(nx) if a_ != j]
                with xr.quiet():
                    Gj = kobj.get_function_grads(T(X[keep]), T(X[j:j + 1]), T(coefs[:, keep]), None).double().numpy()
                dev = float(np.max(np.abs(Gj[:, 0, :] - G[:, j, :])))
                if q >= 1.0 or kn in ('l2', 'l2_light', 'lpq'):
                    tolc = 1e-7 * scale if kn != 'l2_light' else 2e-4 * scale
                    if dev > tolc:
                        ck.violation(f'{kn} (q={q}): at the training point {j} the gradient with all centers differs by {dev:.3g} from the gradient with center {j} removed '
                                     f'(its own term must contribute zero) on {desc}', dict(desc, X=X.tolist(), coefs=coefs.tolist(), j=j, dev=dev),
                                     key=json.dumps(dict(site='coincidence-own-term', kernel=kn)))
                        break
        if mode == 'zero-weight':
            if float(np.max(np.abs(G[:, :, zc]))) != 0.0:
                ck.violation(f'{kn} (q={q}): the derivative along coordinate {zc}, whose diagonal weight is exactly 0, is {float(np.max(np.abs(G[:, :, zc])))} (the predictor does '
                             f'not depend on it) on {desc}', dict(desc, X=X.tolist(), Z=Z.tolist(), mat=mat.tolist()), key=json.dumps(dict(site='coincidence-zero-weight', kernel=kn)))


def run(ck):
    from harness import xr
    ck.rule = ('Kernel.get_function_grads(x, z, coefs, mat) (float64) for all CPU kernels, exponents in range, bandwidths, transforms None / diagonal / '
               'full symmetric PSD, 1-4 outputs, 1-3 query points, effective bandwidth equal to / different from the constructed one, points in general position and coincident with a center: every entry vs the '
               'high-precision derivative of the documented closed form (mpmath) and, for the closed-form L2 kernels, vs the Coq op-sequence model '
               '(interval-certified); model level: RFM.get_grads / xRFM.get_grads vs central finite differences of predict.  '
               'non-trivial = >= 2 outputs or a transform; distinct by hash of inputs')
    ck.trusted += ['Coq 8.16.1 kernel', 'Coquelicot 3.2 (is_derive, auto_derive)', 'Interval 4.6.1', 'real-number axioms', 'mpmath numerical derivative (60 digits)']
    ck.assumptions += ['torch.func.jacrev returns the Jacobian (PyTorch contract) for product / Lpq / sum-power kernels: their values are checked numerically only',
                       'tolerance 1e-7 relative (float64); finite differences 2e-3 relative']
    ck.check_theorems()
    from harness import gradops
    gradops.check_translation(ck)
    mp.mp.dps = 60
    rng = np.random.default_rng(ck.seed + 404)
    kinds = ['l2', 'l2_light', 'l1', 'lpq', 'sum_power']
    lemmas = []; lmeta = {}
    nconf = ck.n(30, 240)
    for i in range(nconf):
        kn = kinds[i % 5]
        d = int(rng.choice([1, 2, 3])); nx = int(rng.integers(2, 5)); nz = int(rng.integers(1, 4)); f = [1, 2, 3, 4][(i // 5) % 4]
        L = float(rng.choice([0.5, 1.0, 3.0, 20.0]))
        p, q = 2.0, [1.0, 1.3, 0.7, 2.0][(i // 5) % 4]
        if kn == 'lpq':
            # includes the boundary norm p = 1 (with q < 1 and q = 1); index 4 meets the coincident-point case (i = 23) in the quick tier
            p, q = [(1.5, 1.0), (2.0, 1.4), (1.5, 1.5), (2.0, 0.8), (1.0, 0.7), (1.0, 1.0)][(i // 5) % 6]
        if kn == 'l1':
            q = [1.4, 2.0, 1.2][(i // 5) % 3]
        cmix = float(rng.choice([0.0, 0.3])); power = int(rng.choice([1, 2, 3]))
        X = rng.standard_normal((nx, d)); Z = rng.standard_normal((nz, d))
        coincide = (i % 6 == 5)
        if coincide:
            Z[0] = X[0]
        coefs = rng.standard_normal((f, nx))
        tk = ['none', 'diag', 'full'][i % 3]
        if tk == 'none':
            mat = None
        elif tk == 'diag':
            mat = np.abs(rng.standard_normal(d)) + 0.2
            if d >= 2 and (i // 3) % 2 == 1:
                mat[(i // 6) % d] = 0.0          # a feature whose learned weight is exactly 0 (a constant column): it still counts in the sum-power kernel's mean
        else:
            A = rng.standard_normal((d, d)); mat = A @ A.T / d + 0.1 * np.eye(d)      # symmetric PSD
        T = lambda a: torch.tensor(a, dtype=torch.float64)
        # every other block of five: the effective bandwidth differs from the constructed one (as after adaptation / load_state_dict)
        rebw = ((i // 5) % 2 == 1)
        kobj = make_kernel(xr, kn, L * (1.7 if rebw else 1.0), q, p, cmix, power)
        kobj.bandwidth = L
        ck.count('effective bandwidth != constructed' if rebw else 'effective bandwidth == constructed')
        with xr.quiet():
            if i % 4 == 1:
                # history: the same kernel object has already differentiated against OTHER centers / another transform held in the very same tensors, which are then
                # updated in place (x.copy_, mat.copy_): the gradient is a function of the current contents
                Xt_ = T(X + rng.standard_normal(X.shape)); mt_ = None if mat is None else T(np.asarray(mat) * 1.7)
                kobj.get_function_grads(Xt_, T(Z), T(coefs), mt_)
                Xt_.copy_(T(X))
                if mt_ is not None:
                    mt_.copy_(T(mat))
                G = kobj.get_function_grads(Xt_, T(Z), T(coefs), mt_).double().numpy()
                ck.count('gradient after an in-place update of the same tensors')
            else:
                G = kobj.get_function_grads(T(X), T(Z), T(coefs), None if mat is None else T(mat)).double().numpy()      # (f, nz, d)
        desc = dict(i=i, kernel=kn, d=d, nx=nx, nz=nz, f=f, L=L, constructed_L=L * (1.7 if rebw else 1.0), p=p, q=q, transform=tk, coincide=coincide, seed=ck.seed)
        ck.case(dict(desc, X=X.tolist(), Z=Z.tolist()), nontrivial=(f >= 2 or tk != 'none'), sample=(i == 7))
        ck.count(f'kernel={kn}'); ck.count(f'outputs={f}'); ck.count(f'transform={tk}'); ck.count('coincident' if coincide else 'general')
        if G.shape != (f, nz, d) or not np.all(np.isfinite(G)):
            ck.violation(f'get_function_grads returned shape {G.shape} / non-finite values (expected {(f, nz, d)}) on {desc}', dict(desc),
                         key=json.dumps(dict(site='shape', kernel=kn))); continue
        par = dict(L=L, q=q)
        if kn == 'lpq':
            par['p'] = p
        if kn == 'sum_power':
            par.update(const_mix=cmix, power=power)
        # the closed form for the light kernel takes M directly; the others take the transform
        mml = None if mat is None else ([[mp.mpf(float(v)) for v in r] for r in mat] if np.ndim(mat) == 2 else [mp.mpf(float(v)) for v in mat])
        xs = [[mp.mpf(float(v)) for v in r] for r in X]
        for l in range(f):
            cs = [mp.mpf(float(v)) for v in coefs[l]]
            for j in range(nz):
                z = [mp.mpf(float(v)) for v in Z[j]]
                skip_self = coincide and j == 0
                for dc in range(d):
                    if skip_self:
                        # z coincides with center 0: that center's own term must contribute zero
                        want = mp_grad(kn, xs[1:], cs[1:], z, mml, par, dc)
                    else:
                        if kn in ('l1', 'lpq', 'sum_power') and any(abs(X[a][k] - Z[j][k]) < 1e-12 for a in range(nx) for k in range(d)):
                            continue
                        want = mp_grad(kn, xs, cs, z, mml, par, dc)
                    got = G[l, j, dc]
                    scale = float(sum(abs(c) for c in cs)) / L + 1e-12
                    if abs(float(want) - got) > 2e-7 * scale * max(1.0, (np.abs(mat).max() if mat is not None else 1.0)):
                        ck.violation(f'{kn}: gradient entry (output {l}, point {j}, coordinate {dc}) = {got!r}, derivative of the documented predictor is {float(want)!r} '
                                     f'{"(own term of the coincident center left out)" if skip_self else ""} on {desc}',
                                     dict(desc, X=X.tolist(), Z=Z.tolist(), coefs=coefs.tolist(), mat=None if mat is None else np.asarray(mat).tolist(),
                                          got=float(got), want=float(want)), key=json.dumps(dict(site='entry', kernel=kn, multi=(f > 1), coincide=skip_self)))
        # interval-certified entries for the closed-form gradients
        zero_diag = (tk == 'diag' and bool(np.any(np.asarray(mat) == 0)))          # `interval` cannot certify |0|^q terms: these entries are checked against mpmath only
        if kn in ('l2', 'l2_light') and not coincide and d <= 2 and not zero_diag:
            l, j, dc = f - 1, nz - 1, d - 1
            fn = 'grad_l2' if kn == 'l2' else 'grad_light'
            term = (f'nth {dc} ({fn} {kreal.tmat(mat)} {coq_R(L)} {coq_R(q)} {coq_R(kobj.eps)} {kreal.rmat(X)} {kreal.rvec(coefs[l])} {kreal.rvec(Z[j])}) 0')
            tol = 1e-8 * (float(np.abs(coefs[l]).sum()) / L + 1)
            lid = len(lemmas)
            lemmas.append((lid, f'Lemma g_{lid} : Rabs ({term} - {coq_R(float(G[l, j, dc]))}) <= {coq_R(tol)}.\nProof. grad_simpl. interval with (i_prec 50). Qed.'))
            lmeta[lid] = dict(desc, l=l, j=j, dc=dc)
        # autodiff kernels: the entry vs the Coq model of what jacrev + the wrapper return (GradAuto.grad_product / grad_lpq / grad_sum_power, proved to be
        # the derivative of the documented predictor); generic position, identity / diagonal transforms (a full matrix makes the unshared term too large for `interval`)
        if kn in ('l1', 'lpq', 'sum_power') and not coincide and d <= 2 and tk != 'full' and nx <= 3 and not zero_diag \
                and not any(abs(X[a][k] - Z[j2][k]) < 1e-6 for a in range(nx) for j2 in range(nz) for k in range(d)):
            l, j, dc = f - 1, nz - 1, d - 1
            tm = kreal.tmat(mat)
            if kn == 'l1':
                term = f'grad_product {tm} {coq_R(L)} {coq_R(q)} {coq_R(kobj.eps)} {kreal.rmat(X)} {kreal.rvec(coefs[l])} {kreal.rvec(Z[j])}'
            elif kn == 'lpq':
                term = f'grad_lpq {tm} {coq_R(L)} {coq_R(p)} {coq_R(q)} {coq_R(kobj.eps)} {kreal.rmat(X)} {kreal.rvec(coefs[l])} {kreal.rvec(Z[j])}'
            else:
                term = f'grad_sum_power {tm} {coq_R(L)} {coq_R(q)} {coq_R(cmix)} {coq_R(kobj.eps)} {int(power)}%nat {kreal.rmat(X)} {kreal.rvec(coefs[l])} {kreal.rvec(Z[j])}'
            tol = 1e-8 * (float(np.abs(coefs[l]).sum()) / L + 1)
            lid = len(lemmas)
            lemmas.append((lid, f'Lemma g_{lid} : Rabs (nth {dc} ({term}) 0 - {coq_R(float(G[l, j, dc]))}) <= {coq_R(tol)}.\nProof. auto_simpl. interval with (i_prec 60). Qed.'))
            lmeta[lid] = dict(desc, l=l, j=j, dc=dc, model='GradAuto')
            ck.count('autodiff entry certified against the Coq model')
    coincidence_regime(ck, xr, kinds)
    res = ck.run_lemma_files('grad', GHEADER, lemmas, shard=3, timeout=900)
    bad = [lmeta[k] for k, v in res.items() if not v]
    ck.obligation(f'correspondence: {len(lemmas)} gradient entries (closed-form L2 kernels: op-sequence model; product / Lpq / sum-power: model of what jacrev returns) within tolerance of the Coq models (interval-certified)',
                  'correspondence', not bad, f'first failures: {bad[:3]}')

    # ---------- model level: Jacobian of the model's own prediction ----------
    for i in range(ck.n(6, 40)):
        kern, extra = [('l2', {}), ('l2_high_dim', {}), ('l1', {}), ('lpq', dict(norm_p=1.5)), ('sum_power_laplace', {})][i % 5]
        n, d = int(rng.integers(25, 60)), int(rng.integers(2, 4)); nout = [1, 2][i % 2]
        X = rng.standard_normal((n, d)); Y = rng.standard_normal((n, nout))
        T = lambda a: torch.tensor(a, dtype=torch.float64)
        xr.seed_all(400 + i)
        bwm = 'adaptive' if (i // 5) % 2 == 0 and kern != 'sum_power_laplace' else 'constant'
        m = xr.RealRFM(kernel=kern, iters=2, bandwidth=2.0, exponent=[1.0, 1.2][i % 2], device='cpu', diag=bool(i % 2), verbose=False, tuning_metric='mse',
                       bandwidth_mode=bwm, **extra)
        with xr.quiet():
            m.fit((T(X), T(Y)), (T(X[:10]), T(Y[:10])), iters=2, reg=1e-2, verbose=False, center_grads=bool(i % 3 == 1))       # centring is an option of the AGOP, not of the gradient API
            Q = T(rng.standard_normal((4, d)))
            J = m.get_grads(Q).double().numpy()           # (n_q, n_out, d)
            h = 1e-6
            worst = 0.0
            for dc in range(d):
                E = torch.zeros(d, dtype=torch.float64); E[dc] = h
                fd = ((m.predict(Q + E) - m.predict(Q - E)) / (2 * h)).double().numpy()     # (n_q, n_out)
                worst = max(worst, float(np.max(np.abs(fd - J[:, :, dc]))))
        scale = float(np.abs(J).max()) + 1e-9
        ck.case(dict(kind='model-jacobian', kernel=kern, nout=nout, bw=bwm, worst=worst), nontrivial=True)
        ck.count(f'model-level {kern} bandwidth {bwm}')
        if J.shape != (4, nout, d) or worst > 2e-4 * scale + 1e-6:
            ck.violation(f'RFM.get_grads differs from the finite-difference Jacobian of RFM.predict by {worst:.3g} (scale {scale:.3g}), kernel {kern}, {nout} outputs',
                         dict(kernel=kern, nout=nout, bandwidth_mode=bwm, i=i, worst=worst), key=json.dumps(dict(site='model-jacobian', kernel=kern, multi=(nout > 1))))
    # xRFM level (float32, hard routing, multi-leaf, 1-2 trees): row r of xRFM.get_grads must be the (tree-averaged) gradient of the leaf
    # reached by row r — finite differences are useless here (float32 noise, kinks of the q = 1 kernels), the leaf gradients
    # themselves are validated above in float64
    for i in range(ck.n(4, 16)):
        n, d = 170, 3; nout = [1, 2][i % 2]
        X = xr.make_X('random', n, d, rng); Y = rng.standard_normal((n, nout)).astype(np.float32)
        kern = ['l2', 'l2_high_dim', 'l1', 'lpq'][i % 4]
        extra = dict(norm_p=1.5) if kern == 'lpq' else {}
        xr.seed_all(440 + i)
        # every fourth model: three trees requested on data that fits one leaf, so only one tree is built (the mean is over BUILT trees)
        one_leaf = (i % 4 == 3)
        model = xr.xRFM(rfm_params=xr.default_rfm_params(kernel=kern, iters=1, reg=1e-2, bandwidth=3.0, **extra), max_leaf_size=(1000 if one_leaf else 40),
                        verbose=False, use_temperature_tuning=False, n_trees=(3 if one_leaf else [1, 2][(i // 2) % 2]), split_method='random_pca')
        with xr.quiet():
            model.fit(torch.tensor(X), torch.tensor(Y), torch.tensor(X[:30]), torch.tensor(Y[:30]))
            Q = torch.tensor(xr.make_X('random', 7, d, rng))
            J = model.get_grads(Q).double().numpy()
            want = np.zeros_like(J)
            skip = np.zeros(len(Q), dtype=bool)
            for t in model.trees:
                lids = orc.assign_leaf_ids(t); leaves = orc.tree_leaves(t)
                for r in range(len(Q)):
                    lid, near = orc.exact_route(t, Q[r].numpy(), lids)
                    skip[r] |= near
                    want[r] += leaves[lid]['model'].get_grads(Q[r:r + 1]).double().numpy()[0] / len(model.trees)
        worst = float(np.max(np.abs(J - want)[~skip])) if (~skip).any() else 0.0
        scale = float(np.abs(want).max()) + 1e-6
        ck.case(dict(kind='xrfm-jacobian', kernel=kern, nout=nout, trees=len(model.trees), worst=worst), nontrivial=True)
        ck.count(f'xrfm-level {kern}'); ck.count(f'xrfm-level trees held {len(model.trees)} of {model.n_trees}')
        if J.shape != (len(Q), nout, d) or worst > 1e-4 * scale:
            ck.violation(f'xRFM.get_grads rows differ from the gradients of the leaves reached by hard routing by {worst:.3g} (scale {scale:.3g}), kernel {kern}, '
                         f'{nout} outputs, {len(model.trees)} trees', dict(kernel=kern, nout=nout, worst=worst),
                         key=json.dumps(dict(site='xrfm-jacobian', kernel=kern, multi=(nout > 1))))
