"""C18 — Fit and predict do not disturb caller data or process-wide settings."""
import ast, json, os, copy
import numpy as np
import torch
from harness.common import *
from harness import attrflow as af

HEADER = '''From Coq Require Import List Bool Arith.
Require Import XV.Model.Protocol.
Import ListNotations.
Definition oenv_eqb (a b : option nat) : bool := match a, b with Some x, Some y => Nat.eqb x y | None, None => true | _, _ => false end.
Fixpoint seen_eqb (a b : list (option nat)) : bool :=
  match a, b with [], [] => true | x :: a', y :: b' => oenv_eqb x y && seen_eqb a' b' | _, _ => false end.
Definition env_case (v : nat) (ops : list eop) (e0 e1 : option nat) (obs : list (option nat)) : bool :=
  let s := erun v ops {| cur := e0; saved_stack := []; seen := [] |} in
  oenv_eqb (cur s) e1 && seen_eqb (seen s) obs && match saved_stack s with [] => true | _ => false end.
'''

# in-place operations on a function PARAMETER that exist at the pinned commit, each on a tensor the library allocated itself
ALLOWED_INPLACE = {
    ('xrfm/rfm_src/utils.py', 'stable_matrix_power', 'M'): 'callers pass freshly normalised AGOP matrices (fit_M: scaled_M; _generate_projection_from_M: avg_M / Xcov computed locally)',
    ('xrfm/xrfm.py', '_build_tree', 'split_tracker'): "split_tracker['count'] += 1: the per-tree counter dict created by fit itself",
    ('xrfm/xrfm.py', '_build_tree_cache', 'tree'): "tree['_cache'] = cache: a tree-node dict owned by the model, not a feature/target array",
    ('xrfm/xrfm.py', 'set_leaf_model_single_tree', 'tree'): "load_state_dict turns the state dict's param trees into the model's trees (dict entries, not feature/target arrays)",
}


def with_env_var_matches():
    src = ast.parse(open(os.path.join(REPO, 'xrfm/rfm_src/gpu_utils.py')).read())
    fn = [n for n in src.body if isinstance(n, ast.FunctionDef) and n.name == 'with_env_var']
    if not fn:
        raise af.TranslationError('with_env_var not found')
    wrapper = [n for n in ast.walk(fn[0]) if isinstance(n, ast.FunctionDef) and n.name == 'wrapper']
    if not wrapper:
        raise af.TranslationError('with_env_var: wrapper not found')
    body = [s for s in wrapper[0].body if not (isinstance(s, ast.Expr) and isinstance(s.value, ast.Constant))]
    u = [ast.unparse(s) for s in body]
    want0 = 'original_value = os.environ.get(var_name)'
    want1 = 'os.environ[var_name] = value'
    if len(body) != 3 or u[0] != want0 or u[1] != want1 or not isinstance(body[2], ast.Try):
        raise af.TranslationError(f'with_env_var wrapper is not save / set / try-finally: {u}')
    tr = body[2]
    if tr.handlers or tr.orelse or [ast.unparse(s) for s in tr.body] != ['return func(*args, **kwargs)']:
        raise af.TranslationError('with_env_var: try body is not `return func(*args, **kwargs)` without handlers')
    fin = [ast.unparse(s) for s in tr.finalbody]
    want = ['if original_value is None:\n    del os.environ[var_name]\nelse:\n    os.environ[var_name] = original_value']
    if fin != want:
        raise af.TranslationError(f'with_env_var: finally block does not restore the original value: {fin}')
    return True


def thread_protocol(method):
    src = ast.parse(open(os.path.join(REPO, 'xrfm/xrfm.py')).read())
    fn = None
    for c in src.body:
        if isinstance(c, ast.ClassDef) and c.name == 'xRFM':
            for it in c.body:
                if isinstance(it, ast.FunctionDef) and it.name == method:
                    fn = it
    save = 'if self.n_threads is not None:\n    old_n_threads = torch.get_num_threads()\n    torch.set_num_threads(self.n_threads)'
    rest = 'if self.n_threads is not None:\n    torch.set_num_threads(old_n_threads)'
    us = [ast.unparse(s) for s in fn.body]
    if us.count(save) != 1 or us.count(rest) != 1:
        raise af.TranslationError(f'{method}: save/set and restore blocks not found exactly once at the top level')
    i, j = us.index(save), us.index(rest)
    if not i < j:
        raise af.TranslationError(f'{method}: restore precedes save')
    for s in fn.body[i + 1:j]:
        for n in ast.walk(s):
            if isinstance(n, ast.Return):
                raise af.TranslationError(f'{method}: `return` between set and restore of the thread count (line {n.lineno})')
            if isinstance(n, ast.Name) and n.id == 'old_n_threads' and isinstance(n.ctx, ast.Store):
                raise af.TranslationError(f'{method}: old_n_threads reassigned')
    for s in fn.body[:i]:
        for n in ast.walk(s):
            if isinstance(n, ast.Call) and 'set_num_threads' in ast.unparse(n.func):
                raise AssertionError
    return ['TSave', 'TSet', 'TBody', 'TRestore', 'TReturn']


def global_setting_sites():
    out = []
    for root, _, files in os.walk(os.path.join(REPO, 'xrfm')):
        for fnm in files:
            if not fnm.endswith('.py'):
                continue
            rel = os.path.relpath(os.path.join(root, fnm), REPO)
            tree = ast.parse(open(os.path.join(root, fnm)).read())
            for n in ast.walk(tree):
                if isinstance(n, ast.Call) and ast.unparse(n.func) in ('torch.set_num_threads', 'torch.set_num_interop_threads', 'os.putenv', 'os.unsetenv',
                                                                        'torch.set_default_dtype', 'torch.set_default_device', 'torch.use_deterministic_algorithms'):
                    out.append((rel, n.lineno, ast.unparse(n.func)))
                if isinstance(n, (ast.Assign, ast.Delete)):
                    for t in (n.targets if isinstance(n, (ast.Assign, ast.Delete)) else []):
                        if isinstance(t, ast.Subscript) and ast.unparse(t.value) == 'os.environ':
                            out.append((rel, n.lineno, 'os.environ[...] write'))
    return out


def inplace_on_parameters():
    out = []
    for root, _, files in os.walk(os.path.join(REPO, 'xrfm')):
        for fnm in files:
            if not fnm.endswith('.py') or fnm in ('eigenpro.py', 'kernel_log_reg.py', 'svd.py'):
                continue
            rel = os.path.relpath(os.path.join(root, fnm), REPO)
            tree = ast.parse(open(os.path.join(root, fnm)).read())
            for fn in ast.walk(tree):
                if not isinstance(fn, ast.FunctionDef):
                    continue
                params = {a.arg for a in fn.args.args + fn.args.kwonlyargs} - {'self'}
                rebound = set()
                for n in ast.walk(fn):          # a parameter name that is re-assigned no longer certainly aliases the argument: stay conservative
                    pass
                for n in ast.walk(fn):
                    base = None
                    if isinstance(n, ast.Call) and isinstance(n.func, ast.Attribute) and n.func.attr.endswith('_') and not n.func.attr.startswith('_'):
                        b = n.func.value
                        while not isinstance(b, ast.Name):      # M.diagonal().add_  /  x[idx].add_  /  a.b.add_
                            if isinstance(b, ast.Call) and isinstance(b.func, ast.Attribute):
                                b = b.func.value
                            elif isinstance(b, (ast.Attribute, ast.Subscript)):
                                b = b.value
                            else:
                                break
                        if isinstance(b, ast.Name):
                            base = b.id
                    if isinstance(n, (ast.Assign, ast.AugAssign)):
                        ts = n.targets if isinstance(n, ast.Assign) else [n.target]
                        for t in ts:
                            if isinstance(t, ast.Subscript) and isinstance(t.value, ast.Name):
                                base = t.value.id
                            if isinstance(n, ast.AugAssign) and isinstance(t, ast.Name):
                                base = t.id       # x += ... on a tensor parameter is in place
                    if base in params:
                        # a conditional re-binding earlier in the function does not rule out aliasing: stay conservative
                        out.append((rel, fn.name, base, n.lineno))
    return out


def _snap(objs):
    out = []
    for o in objs:
        if torch.is_tensor(o):
            out.append((o.detach().clone().numpy().tobytes(), tuple(o.shape), str(o.dtype)))
        else:
            out.append((o.tobytes(), tuple(o.shape), str(o.dtype)))
    return out


def ensemble_regime(ck, xr, nr):
    """Ensembles (n_trees >= 2, optionally with tree iterations) whose trees really split, so that every per-tree loop of the public methods runs more than once.

    Every public call (fit, predict, predict_proba, the gradient API — twice —, state export, the same calls on a model rebuilt from the exported state) is judged on its own:
    just before it the CALLER sets the process-wide torch thread count to a value of its choice (below, equal to and above the model's n_threads, also above the core count),
    and the statement's three clauses are evaluated from values read before the call: bytes of every array / tensor the caller ever handed to the model, torch.get_num_threads(),
    os.environ.get('PYTORCH_CUDA_ALLOC_CONF').  Controls of the same family: data that do not split (fit stops after one tree), n_threads=None, caller count == n_threads."""
    import io, contextlib
    ENV = 'PYTORCH_CUDA_ALLOC_CONF'
    t_process = torch.get_num_threads()
    env_process = os.environ.get(ENV)
    cores = os.cpu_count() or 4
    reached = 0
    for j in range(ck.n(10, 40)):
        n_trees = [2, 3, 4][j % 3]
        n_threads = [2, 3, 1, None, 5][j % 5]
        caller_cycle = [[3, 1, 4], [2, cores + 2, 5], [4, 3, 2], [1, 6, 3]][j % 4]        # what the caller sets before successive calls (rotating)
        task = ['reg', 'class', 'reg2'][(j // 2) % 3]
        as_tensor = bool((j // 3) % 2)
        kern = ['l2', 'l1', 'l2_high_dim', 'lpq'][(j // 2) % 4]
        n_tree_iters = 1 if j % 5 == 3 else 0
        routing = 'soft' if j % 7 == 5 else 'hard'
        growth = ['max_leaf_size', 'max_leaf_size', 'number_of_splits', 'no_split'][(j + j // 4) % 4] if j % 11 != 10 else 'no_split'
        n = int(nr.integers(150, 260)); d = int(nr.integers(3, 7))
        if growth == 'max_leaf_size':
            grow = dict(max_leaf_size=int(nr.integers(n // 4, n // 2)))                     # 2 to 4 leaves per tree
        elif growth == 'number_of_splits':
            grow = dict(max_leaf_size=10_000, number_of_splits=[1, 2, 3][j % 3])
        else:
            grow = dict(max_leaf_size=10_000)                                                # root leaf: fit keeps a single tree whatever n_trees says
        X = xr.make_X('random', n, d, nr); Xv = xr.make_X('random', 60, d, nr)
        if task == 'class':
            y = xr.make_y('class', X, nr); yv = xr.make_y('class', Xv, nr); metric = 'brier'
        else:
            y = xr.make_y(task, X, nr); yv = xr.make_y(task, Xv, nr); metric = None
        conv = (lambda a: torch.tensor(a)) if as_tensor else (lambda a: a.copy())
        args = [conv(X), conv(y), conv(Xv), conv(yv)]
        Q = conv(xr.make_X('random', int(nr.integers(5, 40)), d, nr))
        caller_objs = args + [Q]; names = ['X', 'y', 'X_val', 'y_val', 'query']
        init_env = [None, 'max_split_size_mb:128', '', 'expandable_segments:False'][j % 4]
        desc = dict(regime='ensemble', j=j, n_trees=n_trees, n_tree_iters=n_tree_iters, n_threads=n_threads, kernel=kern, task=task, tensors=as_tensor, routing=routing,
                    growth=growth, n=n, d=d, n_query=int(Q.shape[0]), init_env=init_env, seed=ck.seed, **grow)
        ctor = dict(rfm_params=xr.default_rfm_params(kernel=kern, iters=1, reg=1e-2, bandwidth=4.0, **(dict(norm_p=1.5) if kern == 'lpq' else {})), verbose=False,
                    tuning_metric=metric, n_threads=n_threads, n_trees=n_trees, n_tree_iters=n_tree_iters, use_temperature_tuning=False,
                    split_temperature=(0.3 if routing == 'soft' else None), random_state=ck.seed + j, **grow)
        model = xr.xRFM(**copy.deepcopy(ctor))
        if init_env is None:
            os.environ.pop(ENV, None)
        else:
            os.environ[ENV] = init_env
        state = {'k': 0}

        def judged(call, fn, model_desc=''):
            """Returns (returned normally, value).  The caller picks a thread count, the call runs, the three clauses are compared with what was read before the call."""
            want = caller_cycle[state['k'] % len(caller_cycle)]; state['k'] += 1
            torch.set_num_threads(want)
            th0, e0, before = torch.get_num_threads(), os.environ.get(ENV), _snap(caller_objs)
            try:
                with xr.quiet(), contextlib.redirect_stderr(io.StringIO()):
                    out = fn()
            except NotImplementedError:
                ck.count(f'ensemble: {call} not implemented for this routing mode'); return False, None
            except Exception as e:
                ck.count(f'ensemble: {call} raised'); ck.notes.append(f'{call} raised {e!r} on {desc}'[:300]); return False, None
            th1, e1, after = torch.get_num_threads(), os.environ.get(ENV), _snap(caller_objs)
            built = [t['type'] for t in (model.trees or [])]
            here = dict(desc, call=call + model_desc, caller_threads_before_call=th0, threads_after_call=th1, trees_built=len(built), root_types=built)
            ck.case(here, nontrivial=len(built) >= 2, sample=(j == 0 and call == 'get_grads'))
            ck.count(f'ensemble call={call}')
            if th1 != th0:
                ck.violation(f'{call}{model_desc} on an ensemble of {len(built)} trees (roots {built}) left the torch thread count at {th1}; the caller had set {th0} before the call '
                             f'(n_threads={n_threads} on the model) on {desc}', here, key=json.dumps(dict(site='threads', call=call)))
            if e1 != e0:
                ck.violation(f'{call}{model_desc} on an ensemble of {len(built)} trees left {ENV}={e1!r}, it was {e0!r} on {desc}', here, key=json.dumps(dict(site='env', call=call)))
            for nm, b, a in zip(names, before, after):
                if b != a:
                    ck.violation(f'{call}{model_desc} on an ensemble of {len(built)} trees modified the caller\'s {nm} ({"tensor" if as_tensor else "array"}) on {desc}',
                                 dict(here, which=nm), key=json.dumps(dict(site='caller-data', call=call, which=nm)))
            return True, out

        try:
            ok, _ = judged('fit', lambda: model.fit(*args))
            if not ok:
                continue
            built = [t['type'] for t in model.trees]
            if len(built) >= 2:
                reached += 1; ck.count('ensemble: models with two or more trees that split at the root')
            else:
                ck.count('ensemble: single-tree control (data do not split)')
            judged('predict', lambda: model.predict(Q))
            if task == 'class':
                judged('predict_proba', lambda: model.predict_proba(Q))
            judged('get_grads', lambda: model.get_grads(Q))
            judged('get_grads', lambda: model.get_grads(Q), ' (second call in a row)')
            ok, sd = judged('get_state_dict', lambda: model.get_state_dict())
            judged('predict', lambda: model.predict(Q), ' (after the gradient calls)')
            if ok and j % 2 == 0:
                # the same public calls on a model rebuilt from the exported state (another n_threads than the exporting model had)
                other = {2: 3, 3: 1, 1: 2, None: 2, 5: None}[n_threads]
                m2 = xr.xRFM(**dict(copy.deepcopy(ctor), n_threads=other))
                try:
                    with xr.quiet():
                        m2.load_state_dict(sd, torch.as_tensor(args[0]))
                except Exception as e:
                    ck.count('ensemble: load_state_dict raised'); ck.notes.append(f'load_state_dict raised {e!r} on {desc}'[:300]); m2 = None
                if m2 is not None:
                    tag = f' (model rebuilt from the exported state, n_threads={other})'
                    keep_model, keep_nt = model, n_threads
                    model, n_threads = m2, other
                    judged('predict', lambda: m2.predict(Q), tag)
                    judged('get_grads', lambda: m2.get_grads(Q), tag)
                    judged('get_state_dict', lambda: m2.get_state_dict(), tag)
                    model, n_threads = keep_model, keep_nt
        finally:
            torch.set_num_threads(t_process)
            if env_process is None:
                os.environ.pop(ENV, None)
            else:
                os.environ[ENV] = env_process
    if not reached:
        ck.notes.append('ensemble regime: no model with two or more trees was built in this run')


def run(ck):
    from harness import xr
    from xrfm.rfm_src.gpu_utils import with_env_var
    ck.rule = ('(a) structure of with_env_var and of the thread save/set/restore in fit / predict / predict_proba re-read from the source; no other writer of '
               'process-wide settings; in-place operations on function parameters vs an allow-list; (b) random well-bracketed call trees (normal / raising) '
               'through the REAL decorator compared with the Coq event model; (c) real fit / predict / predict_proba / get_grads / get_state_dict: caller '
               'tensors and arrays bitwise + _version, torch thread count and PYTORCH_CUDA_ALLOC_CONF before/after, probes inside the calls; the same three clauses call by call on ENSEMBLES (n_trees 2-4, tree iterations, trees that split by max_leaf_size / '
               'number_of_splits, single-tree controls, models rebuilt from the exported state) with the caller choosing another thread count before every call.  '
               'non-trivial = config with a split tree or a nested decorated call; distinct by config hash')
    ck.trusted += ['Coq 8.16.1 kernel + vm_compute', 'AST structure checks (fail-closed)', 'byte / _version comparison of caller tensors']
    ck.assumptions += ['aliasing of caller tensors is observed (bytes, _version), not modelled', 'an exception between set and restore of the thread count is outside the property ("when they return")']
    ck.check_theorems()
    # ---------------- (a) ----------------
    try:
        with_env_var_matches()
        ck.obligation('with_env_var is save / set / try: return f() / finally: restore (source structure)', 'translation', True)
        for mth in ('fit', 'predict', 'predict_proba'):
            thread_protocol(mth)
        ck.obligation('fit / predict / predict_proba: thread count saved, set, restored, no return in between (source structure)', 'translation', True)
        t = af.Translator()
        wr = af.writes_of(t.method('xRFM', 'fit', '', [])) | af.writes_of(t.method('xRFM', 'predict', '', []))
        ck.obligation('n_threads is not written by fit / predict (the two `is not None` tests agree)', 'translation', 'n_threads' not in wr)
        sites = global_setting_sites()
        expected = {('xrfm/xrfm.py', 'torch.set_num_threads'): 6, ('xrfm/rfm_src/gpu_utils.py', 'os.environ[...] write'): 3}
        got = {}
        for rel, ln, what in sites:
            got[(rel, what)] = got.get((rel, what), 0) + 1
        ck.obligation(f'writers of process-wide settings are exactly the known ones ({got})', 'translation', got == expected, f'found {sites}')
        ip = inplace_on_parameters()
        unknown = [x for x in ip if (x[0], x[1], x[2]) not in ALLOWED_INPLACE]
        ck.obligation(f'in-place operations on function parameters are only the allow-listed ones ({sorted(set((a, b, c) for a, b, c, _ in ip))})', 'translation',
                      not unknown, f'new in-place operation on a parameter (may alias caller data): {unknown}')
    except af.TranslationError as e:
        ck.obligation('protocol structure recognised in the source', 'translation', False, str(e))

    # ---------------- (b) decorator on random call trees ----------------
    rng = ck.rng
    VAR = 'XRFM_VERIF_PROBE_VAR'
    cases = []

    class Boom(Exception):
        pass

    def gen(depth):
        kids = [gen(depth - 1) for _ in range(rng.randint(0, 2 if depth > 0 else 0))] if depth > 0 else []
        return dict(raises=rng.random() < 0.2, kids=kids, observe=rng.random() < 0.7)

    def execute(node, obs, ops):
        @with_env_var(VAR, '7')
        def body():
            if node['observe']:
                obs.append(os.environ.get(VAR)); ops.append('Observe')
            for k in node['kids']:
                try:
                    execute(k, obs, ops)
                except Boom:
                    if rng.random() < 0.5:
                        raise
                if node['observe']:
                    obs.append(os.environ.get(VAR)); ops.append('Observe')
            if node['raises']:
                raise Boom()
        ops.append('Enter')
        try:
            body()
        finally:
            ops.append('Exit')

    for k in range(ck.n(150, 1500)):
        init = rng.choice([None, '3', '7', '11', ''])          # defined-but-empty is a value like any other (encoded as 0 in the Coq event model)
        if init is None:
            os.environ.pop(VAR, None)
        else:
            os.environ[VAR] = init
        tree = gen(rng.randint(0, 4))
        obs, ops = [], []
        try:
            execute(tree, obs, ops)
        except Boom:
            pass
        final = os.environ.get(VAR)
        os.environ.pop(VAR, None)
        ck.case(dict(kind='env-tree', init=init, ops=''.join(o[0] + o[1] for o in ops), final=final), nontrivial=len(ops) > 2, sample=(k == 3))
        if final != init:
            ck.violation(f'with_env_var left the variable at {final!r}, it was {init!r} before (events {ops})', dict(init=init, ops=ops, final=final), key='env-restore')
        if any(o != '7' for o in obs):
            # what the body sees is not part of the property (only the value after the call is): a mismatch with the event model is left to the Coq correspondence below
            ck.count('decorator body read something else than the override value')
        cq = lambda v: 'None' if v is None else f'(Some {int(v or 0) if (v or "0").isdigit() else 999})'        # anything that is not one of the integers in play is encoded as 999
        cases.append((k, f"env_case 7 {coq_list(ops)} {cq(init)} {cq(final)} {coq_list([cq(o) for o in obs])}"))
    res = ck.run_bool_cases('env', HEADER, cases, shard=500)
    bad = [k for k, v in res.items() if v is not True]
    ck.obligation(f'correspondence: {len(cases)} random call trees through the real decorator == Coq event model', 'correspondence', not bad, f'case ids {bad[:5]}')

    # ---------------- (c) real calls ----------------
    nr = np.random.default_rng(ck.seed + 1818)
    ENV = 'PYTORCH_CUDA_ALLOC_CONF'
    kernels = [('l2', {}), ('l2_high_dim', {}), ('l1', {}), ('lpq', dict(norm_p=1.5)), ('sum_power_laplace', {})]
    nconf = ck.n(14, 80)
    inside_mismatch = []
    for i in range(nconf):
        kern, extra = kernels[i % 5]
        task = ['reg', 'class_int', 'class_onehot', 'reg2'][i % 4]
        as_tensor = bool((i // 2) % 2)
        n_threads = [None, 2, 3][i % 3]
        soft = [None, 0.4][(i // 3) % 2]
        n = int(nr.integers(60, 160)); d = 3; L = 10_000 if i % 7 == 6 else int(nr.integers(12, 40))
        X = xr.make_X('random', n, d, nr); Xv = xr.make_X('random', 30, d, nr)
        if task == 'class_int':
            y = xr.make_y('class', X, nr); yv = xr.make_y('class', Xv, nr); metric = ['brier', 'accuracy'][i % 2]
            if (i // 4) % 2 == 1:
                y = y + 1; yv = yv + 1            # class ids 1..K (the smallest id is not 0)
        elif task == 'class_onehot':
            K = [2, 3][i % 2]
            y = np.eye(K, dtype=np.float32)[xr.make_y('class', X, nr, n_classes=K)]; yv = np.eye(K, dtype=np.float32)[xr.make_y('class', Xv, nr, n_classes=K)]
            metric = 'brier'
        else:
            y = xr.make_y(task, X, nr); yv = xr.make_y(task, Xv, nr); metric = None
        conv = (lambda a: torch.tensor(a)) if as_tensor else (lambda a: a.copy())
        args = [conv(X), conv(y), conv(Xv), conv(yv)]
        Q = conv(xr.make_X('random', 9, d, nr))
        desc = dict(i=i, kernel=kern, task=task, tensors=as_tensor, n_threads=n_threads, caller_threads_before_calls=[None, 1, 4, 3, 2][i % 5], soft=soft, n=n, L=L, split_method=(None if i % 3 == 0 else ['pca', 'random_pca', 'linear', 'rf_criterion', 'random_agop_on_subset', 'top_pc_agop_on_subset'][(i // 3) % 6]), seed=ck.seed)
        # absent / set / defined but empty (`export VAR=` in a job script) / already mentioning the very option the library overrides (alone, or after another option)
        init_env = [None, 'max_split_size_mb:64', '', 'expandable_segments:False', 'max_split_size_mb:128,expandable_segments:True'][i % 5]
        if init_env is None:
            os.environ.pop(ENV, None)
        else:
            os.environ[ENV] = init_env
        t0 = torch.get_num_threads()
        # the caller changes the process-wide thread count between calls (after the library was imported): whatever it is just before a call, it is that after the call
        caller_threads = [t0, 1, 4, 3, 2][i % 5]
        torch.set_num_threads(caller_threads)
        probes = []
        def cb(iteration):
            probes.append((torch.get_num_threads(), os.environ.get(ENV)))
        model = xr.xRFM(rfm_params=xr.default_rfm_params(kernel=kern, iters=(0 if (i // 5) % 2 == 0 and i % 5 in (0, 2) else 1), diag=bool(i % 2), reg=1e-2, bandwidth=3.0,
                                                         bandwidth_mode='adaptive' if (i % 3 == 0 and kern != 'sum_power_laplace') else 'constant', **extra),
                        max_leaf_size=L, verbose=False, tuning_metric=metric, n_threads=n_threads, split_temperature=soft,
                        use_temperature_tuning=(soft is None and i % 2 == 0), callback=cb, refill_size=15, temp_tuning_space=[0.0, 0.5],
                        # every split method that looks at the node's own feature matrix in turn (at the root that matrix is the caller's tensor)
                        **({} if i % 3 == 0 else dict(split_method=['pca', 'random_pca', 'linear', 'rf_criterion', 'random_agop_on_subset', 'top_pc_agop_on_subset'][(i // 3) % 6])))

        if (i // 5) % 2 == 0 and i % 5 in (0, 2):
            # plain kernel ridge leaves: no AGOP is ever computed, the leaf keeps M = None and the transform returns its argument itself
            model.rfm_params['fit'].pop('get_agop_best_model', None)

        def snap(objs):
            out = []
            for o in objs:
                if torch.is_tensor(o):
                    out.append((o.detach().clone().numpy().tobytes(), o._version, tuple(o.shape), str(o.dtype)))
                else:
                    out.append((o.tobytes(), None, o.shape, str(o.dtype)))
            return out

        def check(call, fn, objs):
            before = snap(objs)
            e0, th0 = os.environ.get(ENV), torch.get_num_threads()
            try:
                with xr.quiet():
                    import sys, io, contextlib
                    with contextlib.redirect_stderr(io.StringIO()):
                        fn()
            except NotImplementedError:
                return
            after = snap(objs)
            ck.case(dict(desc, call=call), nontrivial=True, sample=(i == 2 and call == 'fit'))
            ck.count(f'call={call}')
            names = ['X', 'y', 'X_val', 'y_val', 'query'][:len(objs)] if call == 'fit' else ['query']
            for nm, b, a in zip(names, before, after):
                if b != a and b[0] == a[0] and b[2:] == a[2:]:
                    ck.notes.append(f'{call}: version counter of the caller\'s {nm} went {b[1]}->{a[1]} with identical bytes (not a violation of the property) on {desc}'[:300])
                    continue
                if b != a:
                    ck.violation(f'{call} modified the caller\'s {nm} ({"tensor" if b[1] is not None else "array"}; bytes changed: {b[0] != a[0]}, _version {b[1]}->{a[1]}) on {desc}',
                                 dict(desc, call=call, which=nm), key=json.dumps(dict(site='caller-data', call=call, which=nm)))
            if torch.get_num_threads() != th0:
                ck.violation(f'{call} left the torch thread count at {torch.get_num_threads()}, it was {th0} (n_threads={n_threads}) on {desc}',
                             dict(desc, call=call), key=json.dumps(dict(site='threads', call=call)))
            if os.environ.get(ENV) != e0:
                ck.violation(f'{call} left {ENV}={os.environ.get(ENV)!r}, it was {e0!r} on {desc}', dict(desc, call=call), key=json.dumps(dict(site='env', call=call)))
        try:
            check('fit', lambda: model.fit(*args), args)
        except Exception as e:
            ck.count('fit failed'); ck.notes.append(f'{desc}: {e!r}'[:200]); torch.set_num_threads(t0); continue
        if probes:
            bad_p = [p for p in probes if (n_threads is not None and p[0] != n_threads) or p[1] != 'expandable_segments:True']
            if bad_p:
                # what is visible INSIDE the call is part of the protocol model (override in force, requested thread count), not of the property, which speaks of the state
                # after the call returns: a mismatch breaks the correspondence with the model and is reported as such
                inside_mismatch.append((desc, bad_p[:2]))
            ck.count('inside-fit probes', len(probes))
        check('predict', lambda: model.predict(Q), [Q])
        if as_tensor and i % 2 == 0:
            # queries with missing values (NaN entries) held in the caller's own float32 tensor: whatever the library returns for them, the tensor stays as it is
            Qn = Q.clone(); Qn[1, 0] = float('nan'); Qn[4, 2] = float('nan')
            check('predict (query with NaN)', lambda: model.predict(Qn), [Qn])
            if task.startswith('class'):
                check('predict_proba (query with NaN)', lambda: model.predict_proba(Qn), [Qn])
        if task.startswith('class'):
            check('predict_proba', lambda: model.predict_proba(Q), [Q])
        elif soft is None:
            tuned_T = model.split_temperature
            model.split_temperature = None          # gradients are defined for hard routing; the tuned value is put back below
            check('get_grads', lambda: model.get_grads(Q), [Q])
            # the gradient API must leave the training data alone as well (leaf centers may alias the caller's matrix)
            before_tr = snap(args)
            with xr.quiet():
                for t in model.trees:
                    stack = [t]
                    while stack:
                        nd = stack.pop()
                        if nd['type'] == 'leaf':
                            qq = torch.tensor(np.asarray(Q, dtype=np.float32)) if not torch.is_tensor(Q) else Q
                            cen0 = nd['model'].centers.detach().clone()
                            nd['model'].get_grads(qq)
                            if not torch.equal(cen0, nd['model'].centers):
                                ck.violation(f'RFM.get_grads modified the leaf model\'s own centers on {desc}', dict(desc), key=json.dumps(dict(site='caller-data', call='leaf.get_grads', which='centers')))
                        else:
                            stack += [nd['left'], nd['right']]
            if snap(args) != before_tr or snap([Q]) != snap([Q]):
                ck.violation(f'get_grads modified the caller\'s training data on {desc}', dict(desc), key=json.dumps(dict(site='caller-data', call='get_grads', which='training')))
            model.split_temperature = tuned_T
        check('get_state_dict', lambda: model.get_state_dict(), args)
        torch.set_num_threads(t0)
        os.environ.pop(ENV, None)
    # ---- wide data (more features than the width at which the split model's eigenvector routine becomes iterative), a tree that splits, n_threads left at None and a caller
    #      thread count of 3: the library has no business touching the thread count at all
    for j in range(ck.n(2, 4)):
        dW = [300, 420][j % 2]
        XW = xr.make_X('random', 130, dW, nr); yW = xr.make_y('reg', XW[:, :3], nr); XvW = xr.make_X('random', 30, dW, nr); yvW = xr.make_y('reg', XvW[:, :3], nr)
        mW = xr.xRFM(rfm_params=xr.default_rfm_params(iters=0, reg=1e-2, bandwidth=20.0), max_leaf_size=70, verbose=False, use_temperature_tuning=False, n_threads=None,
                     split_method=['top_vector_agop_on_subset', 'top_pc_agop_on_subset'][j % 2])
        t_before = torch.get_num_threads(); torch.set_num_threads(3)
        try:
            with xr.quiet():
                mW.fit(torch.tensor(XW), torch.tensor(yW), torch.tensor(XvW), torch.tensor(yvW))
            after_fit = torch.get_num_threads()
            with xr.quiet():
                mW.predict(torch.tensor(XW[:9]))
            after_pred = torch.get_num_threads()
        finally:
            torch.set_num_threads(t_before)
        ck.case(dict(kind='wide data, n_threads=None', d=dW), nontrivial=True); ck.count('wide data with n_threads=None')
        if after_fit != 3 or after_pred != 3:
            ck.violation(f'fit / predict on {dW}-dimensional data with n_threads=None left the torch thread count at {after_fit} / {after_pred}, it was 3',
                         dict(kind='wide', d=dW, after_fit=after_fit, after_predict=after_pred), key=json.dumps(dict(site='threads', call='fit-wide')))
    # ---- a caller thread count ABOVE the number of cores (oversubscribed on purpose), n_threads set on the model: after every call it is what it was
    for j in range(ck.n(2, 4)):
        XO = xr.make_X('random', 80, 3, nr); yO = xr.make_y('reg', XO, nr)
        mO = xr.xRFM(rfm_params=xr.default_rfm_params(iters=0, reg=1e-2, bandwidth=3.0), max_leaf_size=[10_000, 30][j % 2], verbose=False, use_temperature_tuning=False, n_threads=2)
        t_before = torch.get_num_threads(); want_thr = (os.cpu_count() or 4) + 3; torch.set_num_threads(want_thr)
        seen = {}
        try:
            with xr.quiet():
                mO.fit(torch.tensor(XO), torch.tensor(yO), torch.tensor(XO[:20]), torch.tensor(yO[:20])); seen['fit'] = torch.get_num_threads()
                torch.set_num_threads(want_thr); mO.predict(torch.tensor(XO[:9])); seen['predict'] = torch.get_num_threads()
        finally:
            torch.set_num_threads(t_before)
        ck.case(dict(kind='oversubscribed caller', threads=want_thr), nontrivial=True); ck.count('caller thread count above the core count')
        bad_o = {k: v for k, v in seen.items() if v != want_thr}
        if bad_o:
            ck.violation(f'the torch thread count was {want_thr} before the call (n_threads=2 on the model) and is {bad_o} after it', dict(kind='oversubscribed', before=want_thr, after=bad_o),
                         key=json.dumps(dict(site='threads', call='oversubscribed')))
    ensemble_regime(ck, xr, nr)
    ck.obligation('correspondence: inside every real fit the probes read the override value and the requested thread count (protocol model: the override is in force between Enter and Exit)',
                  'correspondence', not inside_mismatch, f'first mismatches: {inside_mismatch[:2]}')
