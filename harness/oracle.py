"""Independent evaluators of the *property statements* (never of the Coq model): exact Fraction routing and
mpmath kernel formulas written straight from ALGORITHM.md / the property texts.  Used for the violation search."""
from fractions import Fraction
import mpmath as mp
import numpy as np
import torch

mp.mp.dps = 50


def F(x):
    return Fraction(float(x))


def frow(t):
    return [Fraction(float(v)) for v in t.reshape(-1).tolist()]


# ---------------------------------------------------------------- trees
def tree_leaves(node, out=None):
    """left-to-right list of leaf dicts"""
    if out is None:
        out = []
    if node['type'] == 'leaf':
        out.append(node)
    else:
        tree_leaves(node['left'], out)
        tree_leaves(node['right'], out)
    return out


def tree_depth(node):
    if node['type'] == 'leaf':
        return 0
    return 1 + max(tree_depth(node['left']), tree_depth(node['right']))


def exact_route(tree, xrow, leaf_ids, band_rel=2.0 ** -20):
    """follow `projection <= threshold goes left` in exact arithmetic.
    Returns (leaf_id, near) where near=True when some projection on the path is within the rounding band of its threshold."""
    node = tree
    near = False
    x = [Fraction(float(v)) for v in xrow]
    while node['type'] != 'leaf':
        v = frow(node['split_direction'])
        b = F(node['split_point'])
        terms = [a * c for a, c in zip(x, v)]
        p = sum(terms, Fraction(0))
        band = Fraction(band_rel) * (sum((abs(t) for t in terms), Fraction(0)) + abs(b)) * max(1, len(x))
        if abs(p - b) <= band:
            near = True
        node = node['left'] if p <= b else node['right']
    return leaf_ids[id(node)], near


def coq_tree(tree, leaf_ids, leaf_fmt=None):
    from harness.common import coq_Q, coq_Qlist
    if tree['type'] == 'leaf':
        lid = leaf_ids[id(tree)]
        return f'(Leaf {leaf_fmt(tree) if leaf_fmt else str(lid) + "%nat"})'
    v = coq_Qlist(tree['split_direction'].reshape(-1).tolist())
    b = coq_Q(float(tree['split_point']))
    return f'(Node {v} {b} {coq_tree(tree["left"], leaf_ids, leaf_fmt)} {coq_tree(tree["right"], leaf_ids, leaf_fmt)})'


def assign_leaf_ids(tree):
    return {id(l): k for k, l in enumerate(tree_leaves(tree))}


# ---------------------------------------------------------------- kernels (documented closed forms)
def _transform(x, mat):
    """x: list of mpf; mat: None | 1-D list | 2-D list (d_in x d_out): x @ mat"""
    if mat is None:
        return list(x)
    if not isinstance(mat[0], (list, tuple)):
        return [a * m for a, m in zip(x, mat)]
    dout = len(mat[0])
    return [mp.fsum(x[i] * mat[i][j] for i in range(len(x))) for j in range(dout)]


def mpl(t):
    if t is None:
        return None
    a = t.detach().cpu().double().numpy()
    if a.ndim == 1:
        return [mp.mpf(float(v)) for v in a]
    return [[mp.mpf(float(v)) for v in r] for r in a]


def kernel_closed_form(kname, x, z, mat, L, q, p=None, const_mix=0.0, power=2):
    """documented closed form for one entry; x, z lists of mpf; mat as for _transform (for 'l2_light' mat is M itself)"""
    L = mp.mpf(L); q = mp.mpf(q)
    if kname == 'l2':
        d = [a - b for a, b in zip(_transform(x, mat), _transform(z, mat))]
        r = mp.sqrt(mp.fsum(v * v for v in d))
        return mp.e ** (-(r ** q) / L ** q) if r > 0 else mp.mpf(1)
    if kname == 'l2_light':
        # M = T^2 given directly: ||T(x-z)||^2 = (x-z)^T M (x-z)
        d = [a - b for a, b in zip(x, z)]
        Md = _transform(d, mat) if mat is not None else d
        s = mp.fsum(a * b for a, b in zip(d, Md))
        r = mp.sqrt(s) if s > 0 else mp.mpf(0)
        return mp.e ** (-(r ** q) / L ** q) if r > 0 else mp.mpf(1)
    if kname == 'l1':        # product Laplace: exp(-||T(x-z)||_q^q / L^q)
        d = [abs(a - b) for a, b in zip(_transform(x, mat), _transform(z, mat))]
        s = mp.fsum(v ** q for v in d if v > 0)
        return mp.e ** (-s / L ** q)
    if kname == 'lpq':
        pp = mp.mpf(p)
        d = [abs(a - b) for a, b in zip(_transform(x, mat), _transform(z, mat))]
        s = mp.fsum(v ** pp for v in d if v > 0)
        r = s ** (1 / pp) if s > 0 else mp.mpf(0)
        return mp.e ** (-(r ** q) / L ** q) if r > 0 else mp.mpf(1)
    if kname == 'sum_power':
        d = [abs(a - b) for a, b in zip(_transform(x, mat), _transform(z, mat))]
        m = mp.fsum((mp.e ** (-(v ** q) / L ** q) if v > 0 else mp.mpf(1)) for v in d) / len(d)
        return ((1 - mp.mpf(const_mix)) * m + mp.mpf(const_mix)) ** power
    raise ValueError(kname)


def kname_of(kobj):
    n = type(kobj).__name__
    return {'LaplaceKernel': 'l2', 'LightLaplaceKernel': 'l2_light', 'ProductLaplaceKernel': 'l1',
            'LpqLaplaceKernel': 'lpq', 'SumPowerLaplaceKernel': 'sum_power'}[n]


def kernel_params(kobj):
    d = dict(L=float(kobj.bandwidth), q=float(kobj.exponent))
    if hasattr(kobj, 'p'):
        d['p'] = float(kobj.p)
    if hasattr(kobj, 'const_mix'):
        d['const_mix'] = float(kobj.const_mix)
        d['power'] = int(kobj.power)
    return d


def leaf_expansion(rfm, xrow):
    """sum_i alpha_i K(x, c_i) from the leaf's STORED centers, weights, M/sqrtM and bandwidth (mpmath)"""
    kobj = rfm.kernel_obj
    kn = kname_of(kobj)
    mat = mpl(rfm.sqrtM if rfm.use_sqrtM else rfm.M)
    par = kernel_params(kobj)
    x = [mp.mpf(float(v)) for v in xrow]
    C = rfm.centers.detach().cpu().double().numpy()
    W = rfm.weights.detach().cpu().double().numpy()
    out = [mp.mpf(0)] * W.shape[1]
    for i in range(C.shape[0]):
        k = kernel_closed_form(kn, x, [mp.mpf(float(v)) for v in C[i]], mat, **par)
        out = [o + k * mp.mpf(float(w)) for o, w in zip(out, W[i])]
    return out
