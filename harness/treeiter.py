"""C06b — scripted runs of the REAL `_build_tree_with_iterations` and of the REAL tree loop of `xRFM.fit`.
Only the builders (`_build_tree` / `_build_tree_with_iterations`), `score_tree`, `_average_M_across_leaves`, `_ensure_tree_cache`, `fit_temperature` and the
module's clock are replaced on the instance; loop order, comparison, copying, break conditions and the has_split gate are the library's own code.
The same scripts are evaluated by Model/TreeIter.v inside Coq (vm_compute, binary64 scores)."""
import json, math, types, itertools
import torch
from harness.common import coq_float, coq_nat, coq_bool, coq_list

HEADER = '''From Coq Require Import List Bool Arith PrimFloat.
Require Import XV.Model.TreeIter.
Import ListNotations.
Fixpoint lnat_eqb (a b : list nat) : bool :=
  match a, b with [] , [] => true | x :: a', y :: b' => Nat.eqb x y && lnat_eqb a' b' | _, _ => false end.
(* trees are numbered in the order of construction: the first build is 0, iteration i builds tree i+1 *)
Definition ti (maximize : bool) (scores : list float) (clock : option nat) (n : nat) : ti_state nat float :=
  tree_iterations nat float (f_tibetter maximize) (fun i _ => S i) (fun t => nth t scores nan)
                  (fun i => match clock with None => false | Some r => Nat.leb r (S i) end) n 0.
Definition ti_ok (maximize : bool) (scores : list float) (clock : option nat) (n : nat) (best builds : nat) (sources : list nat) : bool :=
  let r := ti maximize scores clock n in
  Nat.eqb (ti_best _ _ r) best && Nat.eqb (ti_builds _ _ r) builds && lnat_eqb (ti_sources _ _ r) sources.
Definition ti_ok2 (maximize : bool) (scores : list float) (n : nat) (best builds : nat) : bool :=
  let r := ti maximize scores None n in Nat.eqb (ti_best _ _ r) best && Nat.eqb (ti_builds _ _ r) builds.
Definition fo_ok (leaf : list bool) (clock : option nat) (n : nat) (held : list nat) (check_split has_split : bool) : bool :=
  let r := forest nat (fun t => nth t leaf false) (fun i => i) (fun i => match clock with None => false | Some c => Nat.leb c i end) n in
  lnat_eqb (fst r) held && (negb check_split || Bool.eqb (snd r) has_split).
'''


class _Clock:
    def __init__(self, mod, st, r):
        self.mod, self.st, self.r = mod, st, r

    def __enter__(self):
        self.real = self.mod.time
        if self.r is not None:
            st, r = self.st, self.r
            self.mod.time = types.SimpleNamespace(time=lambda: (1e9 if st['builds'] >= r else 0.0))

    def __exit__(self, *a):
        self.mod.time = self.real


def run_iterations(xr, n_iters, scores, metric, clock):
    """drives the real _build_tree_with_iterations; returns dict(best=, builds=, sources=, error=)"""
    import xrfm.xrfm as xm
    model = xr.xRFM(rfm_params=xr.default_rfm_params(iters=0, reg=1e-2), max_leaf_size=10, n_tree_iters=n_iters, tuning_metric=metric, verbose=False,
                    use_temperature_tuning=False)
    st = dict(builds=0, sources=[], roots=[], avg=[])

    def build(X, y, Xv, yv, avg_M=None, is_root=False, time_limit_s=None, split_tracker=None, **kw):
        k = st['builds']
        st['builds'] += 1
        st['roots'].append(bool(is_root) and split_tracker == {'count': 0})
        st['avg'].append(avg_M)
        return {'type': 'node', 'tag': k, 'payload': torch.tensor([float(k)])}

    model._build_tree = build
    model._average_M_across_leaves = lambda tree: ('avg', tree['tag'])
    model.score_tree = lambda Xv, yv, tree: scores[tree['tag']]
    X = torch.zeros(4, 2); y = torch.zeros(4, 1)
    out = dict(error=None)
    try:
        with _Clock(xm, st, clock), xr.quiet():
            t = model._build_tree_with_iterations(X, y, X, y, time_limit_s=(None if clock is None else 1.0))
    except Exception as e:
        out['error'] = repr(e)
        return out
    out.update(best=int(t['tag']), builds=st['builds'], roots=st['roots'],
               sources=[a[1] for a in st['avg'][1:] if isinstance(a, tuple)], avg_first=st['avg'][0], n_avg=len(st['avg']) - 1,
               same_object=False, payload_ok=bool(t['payload'].item() == float(t['tag'])))
    return out


def run_forest(xr, n_trees, leaf, with_iters, tune, clock):
    """drives the real fit loop over n_trees with scripted builders; returns dict(held=, builds=, tuned=, error=)"""
    import xrfm.xrfm as xm
    model = xr.xRFM(rfm_params=xr.default_rfm_params(iters=0, reg=1e-2), max_leaf_size=10, n_trees=n_trees, n_tree_iters=(1 if with_iters else 0), verbose=False,
                    use_temperature_tuning=tune, **({} if clock is None else dict(time_limit_s=1.0)))
    st = dict(builds=0, tuned=0)

    def build(X, y, Xv, yv, **kw):
        k = st['builds']
        st['builds'] += 1
        return {'type': 'leaf' if leaf[k] else 'node', 'tag': k}

    if with_iters:
        model._build_tree_with_iterations = build
        model._build_tree = None
    else:
        model._build_tree = build
        model._build_tree_with_iterations = None
    model._ensure_tree_cache = lambda tree: None

    def tuner(Xv, yv, space):
        st['tuned'] += 1
    model.fit_temperature = tuner
    X = torch.zeros(6, 2); y = torch.zeros(6)
    out = dict(error=None)
    try:
        with _Clock(xm, st, clock), xr.quiet():
            model.fit(X, y, X, y)
    except Exception as e:
        out['error'] = repr(e)
        return out
    out.update(held=[int(t['tag']) for t in model.trees], builds=st['builds'], tuned=st['tuned'])
    return out


def _fl(s):
    return coq_float(s)


def run(ck, xr):
    from harness import treeiterops
    treeiterops.check_translation(ck)
    import numpy as np
    rng = np.random.default_rng(ck.seed + 60606)
    cases, meta = [], {}
    # ---- (a) tree iterations: exhaustive short histories over a small alphabet + random histories with ties, infinities and NaN, with and without a scripted clock ----
    hist = []
    alphabet = [0.0, 1.0, 2.0]
    for n_it in range(0, 4):
        for sc in itertools.product(alphabet, repeat=n_it + 1):
            hist.append((n_it, list(sc)))
    special = [0.0, 1.0, 1.0 + 2 ** -52, -1.0, float('inf'), float('-inf'), float('nan'), 1e-300, 0.5]
    for _ in range(ck.n(120, 600)):
        n_it = int(rng.integers(0, 7))
        hist.append((n_it, [float(special[int(rng.integers(0, len(special)))]) if rng.random() < 0.6 else float(rng.standard_normal()) for _ in range(n_it + 1)]))
    for k, (n_it, sc) in enumerate(hist):
        metric = [None, 'mse', 'accuracy', 'auc', 'mae'][k % 5]
        maximize = metric in ('accuracy', 'auc')
        clock = None if k % 3 else int(rng.integers(1, n_it + 3))
        o = run_iterations(xr, n_it, sc, metric, clock)
        desc = dict(kind='tree-iterations', n_tree_iters=n_it, scores=[repr(s) for s in sc], metric=metric, clock=clock)
        ck.case(desc, nontrivial=n_it >= 1, sample=(k % 97 == 5))
        ck.count(f'tree-iterations n_tree_iters={n_it}'); ck.count('tree-iterations clock=' + ('none' if clock is None else 'scripted'))
        if o['error'] is not None:
            ck.violation(f'_build_tree_with_iterations raised {o["error"]} on {desc}', dict(desc, error=o['error']), key=json.dumps(dict(site='ti-raise')))
            continue
        # statement level (C06): termination within 1 + n_tree_iters constructions; the kept tree is one of the constructed trees (so the leaf bound carries over);
        # every tree is built as a root with its own split counter (the quota is per tree)
        if o['builds'] > 1 + n_it:
            ck.violation(f'{o["builds"]} constructions for n_tree_iters={n_it} on {desc}', dict(desc, observed=o), key=json.dumps(dict(site='ti-builds')))
        if not (0 <= o['best'] < o['builds']) or not o['payload_ok']:
            ck.violation(f'the tree kept by the iterations (tag {o["best"]}) is not one of the {o["builds"]} constructed trees on {desc}', dict(desc, observed=o),
                         key=json.dumps(dict(site='ti-kept')))
        if not all(o['roots']):
            ck.violation(f'a rebuilt tree is not built as a root with a fresh split counter: {o["roots"]} on {desc}', dict(desc, observed=o), key=json.dumps(dict(site='ti-root')))
        cid = f'ti{k}'
        cl = 'None' if clock is None else f'(Some {coq_nat(clock)})'
        cases.append((cid, f'ti_ok {coq_bool(maximize)} {coq_list([_fl(s) for s in sc])} {cl} {coq_nat(n_it)} {coq_nat(o["best"])} {coq_nat(o["builds"])} '
                           f'{coq_list([coq_nat(s) for s in o["sources"]])} && Nat.eqb {coq_nat(o["n_avg"])} {coq_nat(len(o["sources"]))}'))
        meta[cid] = dict(desc, observed=dict(best=o['best'], builds=o['builds'], sources=o['sources']))
    # ---- (b) the loop over n_trees ----
    fk = 0
    for n_trees in range(1, 5):
        for leaf in itertools.product([False, True], repeat=n_trees):
            for with_iters in (False, True):
                for tune in (True, False):
                    clocks = [None] + ([int(rng.integers(1, n_trees + 2))] if (fk % 2 == 0) else [])
                    for clock in clocks:
                        fk += 1
                        o = run_forest(xr, n_trees, list(leaf), with_iters, tune, clock)
                        desc = dict(kind='forest', n_trees=n_trees, leaf=list(leaf), with_iters=with_iters, tune=tune, clock=clock)
                        ck.case(desc, nontrivial=n_trees >= 2, sample=(fk % 61 == 7))
                        ck.count(f'forest n_trees={n_trees}')
                        if o['error'] is not None:
                            ck.violation(f'fit raised {o["error"]} on {desc}', dict(desc, error=o['error']), key=json.dumps(dict(site='forest-raise')))
                            continue
                        if len(o['held']) > n_trees or o['builds'] > n_trees or any(not (0 <= t < o['builds']) for t in o['held']):
                            ck.violation(f'the model holds trees {o["held"]} after {o["builds"]} constructions, n_trees={n_trees}, on {desc}', dict(desc, observed=o),
                                         key=json.dumps(dict(site='forest-held')))
                        cid = f'fo{fk}'
                        cl = 'None' if clock is None else f'(Some {coq_nat(clock)})'
                        cases.append((cid, f'fo_ok {coq_list([coq_bool(b) for b in leaf])} {cl} {coq_nat(n_trees)} {coq_list([coq_nat(t) for t in o["held"]])} '
                                           f'{coq_bool(tune)} {coq_bool(o["tuned"] > 0)} && Nat.leb {coq_nat(o["tuned"])} 1'))
                        meta[cid] = dict(desc, observed=o)
    # ---- (c) REAL fits with tree iterations (random_global_agop): every constructed tree and its score are recorded by a wrapper around score_tree; the score is
    #      recomputed independently (float64, textbook definition) from that tree's own hard predictions; the tree the model holds must be the first best ----
    real_iteration_fits(ck, xr, cases, meta)
    res = ck.run_bool_cases('treeiter', HEADER, cases, shard=400)
    bad = [meta[k] for k, v in res.items() if v is not True]
    ck.obligation(f'correspondence: {len(cases)} scripted runs of the real _build_tree_with_iterations / tree loop of fit == Model/TreeIter.v (kept tree, constructions, '
                  f'source of every rebuild, held trees, tuning gate)', 'correspondence', not bad, f'first mismatches: {bad[:4]}')


def _same_tree(a, b):
    if a['type'] != b['type']:
        return False
    if a['type'] == 'leaf':
        return bool(torch.equal(torch.as_tensor(a['train_indices']), torch.as_tensor(b['train_indices'])))
    return bool(torch.equal(a['split_direction'], b['split_direction'])) and bool(torch.equal(torch.as_tensor(a['split_point']), torch.as_tensor(b['split_point']))) \
        and _same_tree(a['left'], b['left']) and _same_tree(a['right'], b['right'])


def real_iteration_fits(ck, xr, cases, meta):
    import numpy as np
    rng = np.random.default_rng(ck.seed + 61616)
    for k in range(ck.n(6, 16)):
        task = ['reg', 'class', 'reg2'][k % 3]
        metric = {'reg': ['mse', 'mae'][(k // 3) % 2], 'reg2': 'mse', 'class': ['accuracy', 'brier'][(k // 3) % 2]}[task]
        maximize = metric == 'accuracy'
        n, d, L = int(rng.integers(60, 110)), int(rng.integers(2, 5)), int(rng.integers(18, 30))
        n_it = int(rng.integers(1, 4))
        X = xr.make_X('random', n, d, rng); y = xr.make_y(task, X, rng)
        Xv = xr.make_X('random', 40, d, rng); yv = xr.make_y(task, Xv, rng)
        xr.seed_all(int(rng.integers(0, 2 ** 31)))
        model = xr.xRFM(rfm_params=xr.default_rfm_params(iters=1, reg=1e-2), max_leaf_size=L, split_method='random_global_agop', n_trees=1, n_tree_iters=n_it,
                        tuning_metric=metric, verbose=False, use_temperature_tuning=False, refill_size=5)
        rec = []
        orig = model.score_tree

        def wrapped(Xv_, yv_, tree, _orig=orig, _rec=rec):
            s_ = _orig(Xv_, yv_, tree)
            with torch.no_grad():
                pred = model._predict_tree(Xv_, tree, proba=(task == 'class'))
            _rec.append(dict(tree=tree, score=float(s_), pred=pred.detach().double().cpu().numpy(), y=yv_.detach().double().cpu().numpy()))
            return s_
        model.score_tree = wrapped
        desc = dict(kind='real-tree-iterations', n=n, d=d, L=L, n_tree_iters=n_it, task=task, metric=metric, seed=ck.seed, k=k)
        try:
            with xr.quiet():
                model.fit(torch.tensor(X), torch.tensor(y), torch.tensor(Xv), torch.tensor(yv))
        except Exception as e:
            ck.violation(f'fit with tree iterations raised {e!r} on {desc}', dict(desc, error=repr(e)), key=json.dumps(dict(site='ti-real-raise', task=task)))
            continue
        ck.case(desc, nontrivial=True, sample=(k == 1))
        ck.count(f'real tree-iteration fits: {metric}')
        if len(rec) > 1 + n_it or len(rec) == 0:
            ck.violation(f'{len(rec)} constructions scored for n_tree_iters={n_it} on {desc}', dict(desc, n_scored=len(rec)), key=json.dumps(dict(site='ti-real-builds')))
            continue
        held = model.trees[0]
        idx = [i for i, r in enumerate(rec) if _same_tree(r['tree'], held)]
        if not idx:
            ck.violation(f'the tree held after the iterations equals none of the {len(rec)} constructed trees on {desc}', dict(desc), key=json.dumps(dict(site='ti-real-kept')))
            continue
        # independent scores (float64, textbook definitions on the recorded hard predictions of each tree)
        ind = []
        for r in rec:
            P, Y = r['pred'], r['y']
            if task == 'class':
                lab = model.class_converter_.numerical_to_labels(torch.tensor(Y, dtype=torch.float32)).numpy()
                ind.append(float((P.argmax(1) == lab).mean()) if metric == 'accuracy' else float(((P - np.eye(P.shape[1])[lab]) ** 2).mean()))
            else:
                ind.append(float(((P - Y) ** 2).mean()) if metric == 'mse' else float(np.abs(P - Y).mean()))
        for i, (r, v) in enumerate(zip(rec, ind)):
            if abs(r['score'] - v) > 1e-4 * (1 + abs(v)):
                ck.violation(f'score_tree returned {r["score"]} for constructed tree {i}, the {metric} of its own validation predictions is {v}, on {desc}',
                             dict(desc, tree=i, got=r['score'], want=v), key=json.dumps(dict(site='ti-real-score', metric=metric)))
        sc = [r['score'] for r in rec]
        # statement level: the held tree is one of the constructed trees (checked above); correspondence: it is the model's first best for these scores
        cid = f'tr{k}'
        cases.append((cid, f'ti_ok2 {coq_bool(maximize)} {coq_list([_fl(s_) for s_ in sc])} {coq_nat(len(rec) - 1)} {coq_nat(idx[0])} {coq_nat(len(rec))}'))
        meta[cid] = dict(desc, scores=sc, kept=idx)
