"""C15 — Categorical fast path equals dense evaluation on one-hot inputs."""
import json, itertools, math
import numpy as np
import torch
import mpmath as mp
from harness.common import *
from harness import oracle as orc
from harness import kreal


AC_HEADER = '''From Coq Require Import QArith List Bool Arith.
Require Import XV.Model.Agop XV.Proofs.AgopProofs XV.Model.AgopCat.
Import ListNotations. Open Scope Q_scope.
Definition qclose (tol a b : Q) : bool := Qle_bool (a - b) tol && Qle_bool (b - a) tol.
Fixpoint row_close (tol : Q) (x y : list Q) : bool :=
  match x, y with [], [] => true | u :: x', v :: y' => qclose tol u v && row_close tol x' y' | _, _ => false end.
Fixpoint rows_close (tol : Q) (A B : list (list Q)) : bool :=
  match A, B with [], [] => true | a :: A', b :: B' => row_close tol a b && rows_close tol A' B' | _, _ => false end.
'''


def run(ck):
    ac_cases, ac_meta = [], {}
    from harness import xr
    from xrfm.rfm_src import kernels as K
    ck.rule = ('mixes of 0-4 numerical columns and 1-4 categorical groups of 2-6 levels (interleaved column layouts), one-hot rows (all combinations for '
               'small cases), kernels with a categorical path (L2, Lpq, product), every boundary (p,q), transforms None / diagonal / block-diagonal: '
               'get_kernel_matrix and get_agop with vs without set_categorical_indices, the dense value vs the documented closed form (mpmath), and '
               'selected fast-path entries certified against the Coq dense op-sequence model by `interval`.  non-trivial = >= 2 groups or a transform; '
               'distinct by configuration hash')
    ck.trusted += ['Coq 8.16.1 kernel', 'Interval 4.6.1', 'real-number axioms', 'mpmath closed forms']
    ck.assumptions += ['the product kernel\'s categorical path queries CUDA for a batch size and raises on CPU: the harness substitutes a constant batch size in its own process only (observation, see DESIGN.md)',
                       'tolerance 1e-9 (float64)']
    ck.check_theorems()
    from harness import catops
    catops.check_translation(ck)
    rng = np.random.default_rng(ck.seed + 1515)
    T = lambda a: torch.tensor(a, dtype=torch.float64)
    lemmas = []; lmeta = {}
    grid = [('l2', 2.0, 1.0), ('l2', 2.0, 1.4), ('l2', 2.0, 0.7), ('lpq', 1.5, 1.0), ('lpq', 2.0, 1.0), ('lpq', 1.0, 1.0), ('lpq', 1.5, 1.5), ('lpq', 2.0, 0.8),
            ('lpq', 1.0, 0.6), ('l1', 1.0, 1.0), ('l1', 1.4, 1.4), ('l1', 2.0, 2.0)]
    nconf = ck.n(24, 144)
    for i in range(nconf):
        kn, p, q = grid[i % len(grid)]
        nnum = int(rng.integers(0, 5)); ng = int(rng.integers(1, 5))
        if kn == 'l2' and i % 3 != 2:       # small layouts, so that an entry can be certified by `interval`
            nnum = min(nnum, 2); ng = min(ng, 2)
        levels = [int(rng.integers(2, 7 if not (kn == 'l2' and i % 3 != 2) else 4)) for _ in range(ng)]
        if nnum == 0 and i % 2:
            nnum = 1
        d = nnum + sum(levels)
        perm = rng.permutation(d) if i % 3 == 0 else np.arange(d)          # interleaved layouts
        num_idx = perm[:nnum]
        cat_idx = []
        o = nnum
        for lv in levels:
            cat_idx.append(perm[o:o + lv]); o += lv
        nrows = int(rng.integers(3, 7))
        def rows(k):
            R = np.zeros((k, d))
            R[:, num_idx] = rng.standard_normal((k, nnum))
            for g, idx in enumerate(cat_idx):
                lab = rng.integers(0, levels[g], size=k)
                R[np.arange(k)[:, None], idx[None, :]] = np.eye(levels[g])[lab]
            return R
        X, Z = rows(nrows), rows(int(rng.integers(2, 5)))
        tk = ['none', 'diag', 'block'][i % 3]
        if tk == 'none':
            mat = None
        elif tk == 'diag':
            mat = np.abs(rng.standard_normal(d)) + 0.2
            if (i // 3) % 2 == 1:
                g_z = (i // 6) % ng; mat[cat_idx[g_z][1 + (i // 12) % (levels[g_z] - 1)]] = 0.0          # a level whose weight was learned to be exactly 0 (absent from the training rows)
        else:
            mat = np.zeros((d, d))
            for idx in [num_idx] + cat_idx:
                if len(idx):
                    A = rng.standard_normal((len(idx), len(idx)))
                    # symmetric PSD blocks (what a fitted model produces) and, every other time, general non-symmetric blocks (any transform that does not mix groups)
                    mat[np.ix_(idx, idx)] = (A @ A.T / len(idx) + 0.2 * np.eye(len(idx))) if (i // 12) % 2 == 1 else (A / math.sqrt(len(idx)) + 0.3 * np.eye(len(idx)))
        L = float(rng.choice([0.7, 2.0, 10.0]))
        def mk():
            if kn == 'l2':
                return K.LaplaceKernel(bandwidth=L, exponent=q)
            if kn == 'lpq':
                return K.LpqLaplaceKernel(bandwidth=L, p=p, q=q)
            k = K.ProductLaplaceKernel(bandwidth=L, exponent=q)
            k.get_sample_batch_size = lambda n, d, **kw: 1000          # harness-side stub: the library queries CUDA here unconditionally
            return k
        dense, fast = mk(), mk()
        fast.set_categorical_indices(torch.tensor(num_idx, dtype=torch.long), [torch.tensor(ix, dtype=torch.long) for ix in cat_idx],
                                     [torch.eye(lv, dtype=torch.float64) for lv in levels], device='cpu')
        mt = None if mat is None else T(mat)
        desc = dict(i=i, kernel=kn, p=p, q=q, nnum=nnum, levels=levels, transform=tk, interleaved=bool(i % 3 == 0), L=L, seed=ck.seed)
        try:
            with xr.quiet():
                Kd = dense.get_kernel_matrix(T(X), T(Z), mt).double().numpy()
                Kf = fast.get_kernel_matrix(T(X), T(Z), mt).double().numpy()
        except Exception as e:
            ck.violation(f'categorical path raised {e!r} on {desc}', dict(desc, error=repr(e)), key=json.dumps(dict(site='raise', kernel=kn))); continue
        ck.case(dict(desc, X=X.tolist()[:2]), nontrivial=(ng >= 2 or tk != 'none'), sample=(i == 3))
        ck.count(f'kernel={kn}'); ck.count(f'transform={tk}'); ck.count(f'groups={ng}'); ck.count(f'(p,q)=({p},{q})')
        dev = float(np.max(np.abs(Kd - Kf)))
        if dev > 1e-9:
            a, b = np.unravel_index(np.argmax(np.abs(Kd - Kf)), Kd.shape)
            ck.violation(f'{kn} (p={p}, q={q}): categorical fast path gives {Kf[a, b]!r}, dense evaluation on the one-hot rows gives {Kd[a, b]!r} (max dev {dev:.3g}) on {desc}',
                         dict(desc, x=X[a].tolist(), z=Z[b].tolist(), mat=None if mat is None else np.asarray(mat).tolist(), fast=float(Kf[a, b]), dense=float(Kd[a, b])),
                         key=json.dumps(dict(site='fast-vs-dense', kernel=kn, p=p, q=q)))
        # one query row (or a few that agree on a group) against centres that all share ANOTHER level of that group — the rows of a leaf below a split on
        # that feature: the group is constant on either side of the call, and the two constants differ
        g0 = i % ng
        la = int(rng.integers(0, levels[g0])); lb = (la + 1 + int(rng.integers(0, levels[g0] - 1))) % levels[g0]
        Xc, Zc = rows([1, 2, 3][i % 3]), rows(4)
        for R_, lev in ((Xc, la), (Zc, lb)):
            R_[:, cat_idx[g0]] = np.eye(levels[g0])[lev]
        try:
            with xr.quiet():
                Kdc = dense.get_kernel_matrix(T(Xc), T(Zc), mt).double().numpy()
                Kfc = fast.get_kernel_matrix(T(Xc), T(Zc), mt).double().numpy()
            ck.count('group constant on both sides at different levels')
            dvc = float(np.max(np.abs(Kdc - Kfc)))
            if dvc > 1e-9:
                a, b = np.unravel_index(np.argmax(np.abs(Kdc - Kfc)), Kdc.shape)
                ck.violation(f'{kn} (p={p}, q={q}): {len(Xc)} query row(s) at level {la} of group {g0} against centres that all sit at level {lb}: fast path gives {Kfc[a, b]!r}, '
                             f'dense evaluation gives {Kdc[a, b]!r} (max dev {dvc:.3g}) on {desc}',
                             dict(desc, x=Xc[a].tolist(), z=Zc[b].tolist(), mat=None if mat is None else np.asarray(mat).tolist(), fast=float(Kfc[a, b]), dense=float(Kdc[a, b])),
                             key=json.dumps(dict(site='fast-vs-dense-constant-group', kernel=kn)))
        except Exception as e:
            ck.violation(f'categorical path raised {e!r} on rows with a constant group on {desc}', dict(desc, error=repr(e)), key=json.dumps(dict(site='raise', kernel=kn)))
        # the SAME configured kernel object evaluated again on other rows that live at the same address: a numpy staging buffer refilled in
        # place and wrapped again (same data pointer, same version counter, same shape), then a torch in-place update — the fast path must
        # follow the contents, not the storage
        bufX, bufZ = X.copy(), Z.copy()
        try:
            with xr.quiet():
                fast.get_kernel_matrix(torch.from_numpy(bufX), torch.from_numpy(bufZ), mt)
                X2, Z2 = rows(nrows), rows(len(Z))
                bufX[:] = X2; bufZ[:] = Z2
                Kf2 = fast.get_kernel_matrix(torch.from_numpy(bufX), torch.from_numpy(bufZ), mt).double().numpy()
                Kd2 = dense.get_kernel_matrix(T(X2), T(Z2), mt).double().numpy()
                tX = torch.from_numpy(bufX); X3 = rows(nrows); tX.copy_(T(X3))
                Kf3 = fast.get_kernel_matrix(tX, torch.from_numpy(bufZ), mt).double().numpy()
                Kd3 = dense.get_kernel_matrix(T(X3), T(Z2), mt).double().numpy()
            ck.count('same kernel object, refilled buffers')
            for nm, A, B in (('a numpy buffer refilled in place', Kf2, Kd2), ('a tensor updated in place', Kf3, Kd3)):
                dv = float(np.max(np.abs(A - B)))
                if dv > 1e-9:
                    ck.violation(f'{kn} (p={p}, q={q}): second evaluation of the same kernel object on {nm}: fast path differs from dense evaluation by {dv:.3g} on {desc}',
                                 dict(desc, dev=dv, how=nm), key=json.dumps(dict(site='fast-vs-dense-reuse', kernel=kn)))
        except Exception as e:
            ck.violation(f'categorical path raised {e!r} on a second evaluation on {desc}', dict(desc, error=repr(e)), key=json.dumps(dict(site='raise', kernel=kn)))
        # dense vs documented closed form (independent)
        par = dict(L=L, q=q)
        if kn == 'lpq':
            par['p'] = p
        mml = None if mat is None else ([[mp.mpf(float(v)) for v in r] for r in mat] if np.ndim(mat) == 2 else [mp.mpf(float(v)) for v in mat])
        a, b = 0, 0
        want = float(orc.kernel_closed_form(kn, [mp.mpf(float(v)) for v in X[a]], [mp.mpf(float(v)) for v in Z[b]], mml, **par))
        if abs(want - Kf[a, b]) > 1e-9:
            ck.violation(f'{kn}: fast-path entry {Kf[a, b]!r} differs from the documented closed form {want!r} on {desc}', dict(desc, want=want, got=float(Kf[a, b])),
                         key=json.dumps(dict(site='fast-vs-closed', kernel=kn, p=p, q=q)))
        # interval-certified fast-path entry vs the Coq dense op-sequence model (small dimension; avoid exactly equal coordinates for |.|^p terms)
        if d <= 10 and tk != 'block' and kn in ('l2',):
            term = kreal.model_term(kn, mat, L, q, X[a], Z[b], p=p)
            if not np.allclose(X[a], Z[b]):
                lid = len(lemmas)
                lemmas.append((lid, f'Lemma c_{lid} : Rabs ({term} - {coq_R(float(Kf[a, b]))}) <= {coq_R(2e-9)}.\nProof. kern_closed. kern_simpl. interval with (i_prec 50). Qed.'))
                lmeta[lid] = desc
        # adaptive bandwidth: after a reset, the first Gram matrix of either path re-estimates the bandwidth from its own distances
        if kn in ('l2', 'lpq') and i % 2 == 0:
            da, fa = mk(), mk()
            fa.set_categorical_indices(torch.tensor(num_idx, dtype=torch.long), [torch.tensor(ix, dtype=torch.long) for ix in cat_idx],
                                       [torch.eye(lv, dtype=torch.float64) for lv in levels], device='cpu')
            for kk in (da, fa):
                kk.bandwidth_mode = 'adaptive'; kk._reset_adaptive_bandwidth()
            try:
                with xr.quiet():
                    Ka = da.get_kernel_matrix(T(X), T(X), mt).double().numpy(); Kb = fa.get_kernel_matrix(T(X), T(X), mt).double().numpy()
                ck.count('kernel-level adaptive reset')
                if abs(float(da.bandwidth) - float(fa.bandwidth)) > 1e-9 * float(da.bandwidth) or np.max(np.abs(Ka - Kb)) > 1e-8:
                    ck.violation(f'{kn}: after a bandwidth reset the categorical fast path adapts to {float(fa.bandwidth)!r} / differs by {np.max(np.abs(Ka - Kb)):.3g} '
                                 f'from the dense path (bandwidth {float(da.bandwidth)!r}) on {desc}', dict(desc, dense_bw=float(da.bandwidth), fast_bw=float(fa.bandwidth)),
                                 key=json.dumps(dict(site='adaptive-fast', kernel=kn)))
            except Exception as e:
                ck.notes.append(f'adaptive fast-path matrix raised on {desc}: {e!r}'[:200])
        # AGOP: block restricted
        mask = np.zeros((d, d), dtype=bool)
        for idx in [num_idx] + cat_idx:
            mask[np.ix_(idx, idx)] = True
        # 1-3 outputs, gradient centring off and on (the same option is passed to both paths)
        for nout, centring in ((int(rng.integers(1, 3)), False), (3, True), (1, True)):
            coefs = rng.standard_normal((nout, nrows))
            try:
                with xr.quiet():
                    Ad = dense.get_agop(T(X), T(Z), T(coefs), mt, center_grads=centring).double().numpy()
                    Af = fast.get_agop(T(X), T(Z), T(coefs), mt, center_grads=centring).double().numpy()
            except Exception as e:
                ck.notes.append(f'get_agop raised on {desc}: {e!r}'[:200]); continue
            ck.count(f'agop outputs={nout} centring={centring}')
            # the fast path's gradients come from the fast kernel only through get_function_grads (dense formula on the expanded inputs)
            # correspondence with Model/AgopCat.v: the executable model of get_agop_categorical is run inside Coq on the implementation's OWN gradient rows
            if not centring and len(ac_cases) < ck.n(6, 24):
                try:
                    with xr.quiet():
                        G = fast.get_function_grads(T(X), T(Z), T(coefs), mt).reshape(-1, d).double().numpy()
                    tolA = 1e-9 * (1 + float(np.abs(Af).max()))
                    ac_cases.append((f'ac{len(ac_cases)}', f'rows_close {coq_Q(tolA)} (get_agop_categorical {coq_nat(d)} {coq_Qmat(G.tolist())} '
                                     f'{coq_list([coq_nat(v) for v in num_idx])} {coq_list([coq_list([coq_nat(v) for v in ix]) for ix in cat_idx])}) {coq_Qmat(Af.tolist())}'))
                    ac_meta[f'ac{len(ac_cases) - 1}'] = dict(desc, nout=nout)
                except Exception as e:
                    ck.notes.append(f'get_function_grads raised on {desc}: {e!r}'[:200])
            devA = float(np.max(np.abs(Af - np.where(mask, Ad, 0.0))))
            if devA > 1e-8 * (1 + float(np.abs(Ad).max())):
                ck.violation(f'{kn}: categorical AGOP differs from the dense AGOP restricted to the blocks by {devA:.3g} ({nout} outputs, centring={centring}) on {desc}',
                             dict(desc, dev=devA, nout=nout, centring=centring, coefs=coefs.tolist()),
                             key=json.dumps(dict(site='agop-blocks', kernel=kn, centring=centring)))
    # ---------- model level: xRFM fitted with categorical_info (fast path inside every leaf) vs the same fit without it ----------
    for i in range(ck.n(4, 16)):
        kern, extra = [('l2', {}), ('lpq', dict(norm_p=1.5)), ('l2', {}), ('lpq', dict(norm_p=2.0))][i % 4]
        nnum = [2, 0, 1, 3][i % 4]; levels = [[3, 2], [4], [2, 2, 3], [5]][i % 4]
        d = nnum + sum(levels); n = 70
        num_idx = np.arange(nnum); cat_idx = []; o = nnum
        for lv in levels:
            cat_idx.append(np.arange(o, o + lv)); o += lv
        def mrows(k):
            R = np.zeros((k, d), dtype=np.float32)
            R[:, :nnum] = rng.standard_normal((k, nnum))
            for g, idx in enumerate(cat_idx):
                R[np.arange(k)[:, None], idx[None, :]] = np.eye(levels[g], dtype=np.float32)[rng.integers(0, levels[g], size=k)]
            return R
        X, Xv, Qm = mrows(n), mrows(25), mrows(9)
        nout = [1, 2][i % 2]
        Y = rng.standard_normal((n, nout)).astype(np.float32); Yv = rng.standard_normal((25, nout)).astype(np.float32)
        cinfo = dict(numerical_indices=torch.tensor(num_idx, dtype=torch.long), categorical_indices=[torch.tensor(ix, dtype=torch.long) for ix in cat_idx],
                     categorical_vectors=[torch.eye(lv) for lv in levels])
        outs = {}
        bwm = ['constant', 'adaptive'][(i // 2) % 2]           # adaptive: the bandwidth is re-estimated from the distance matrix the path itself computes
        for tag, ci in (('dense', None), ('fast', cinfo)):
            xr.seed_all(1500 + i)
            mm = xr.xRFM(rfm_params=xr.default_rfm_params(kernel=kern, iters=0, reg=1.0, bandwidth=3.0, exponent=[1.0, 1.2][i % 2], fast_categorical=(ci is not None),
                                                          bandwidth_mode=bwm, **extra),
                         max_leaf_size=1000, verbose=False, use_temperature_tuning=False, categorical_info=ci)
            try:
                with xr.quiet():
                    mm.fit(torch.tensor(X), torch.tensor(Y), torch.tensor(Xv), torch.tensor(Yv))
                    outs[tag] = (np.asarray(mm.predict(torch.tensor(Qm)), dtype=np.float64), mm)
            except Exception as e:
                ck.notes.append(f'model-level categorical fit ({tag}, {kern}) raised {e!r}'[:200])
        if len(outs) < 2:
            ck.count('model-level categorical fit raised'); continue
        ck.case(dict(kind='model-categorical', kernel=kern, levels=levels, nnum=nnum, nout=nout), nontrivial=True); ck.count(f'model-level categorical {kern} bandwidth {bwm}')
        dev = float(np.max(np.abs(outs['dense'][0] - outs['fast'][0])))
        scale = 1.0 + float(np.abs(outs['dense'][0]).max())
        if not outs['fast'][1].trees[0]['model'].kernel_obj.handle_categorical:
            ck.violation(f'categorical_info and fast_categorical=True were given but the leaf kernel does not use the categorical path ({kern})', dict(kernel=kern), key='model-cat-ignored')
        # float32 fits: the two paths' Gram matrices differ by ~1e-6 (different operation order); with ridge 1 the solve amplifies that by
        # at most ~n, so 5e-4 relative separates rounding from a wrong kernel (seeded defects move predictions by 0.1-1)
        if dev > 5e-4 * scale:
            ck.violation(f'xRFM fitted with categorical_info predicts differently from the same fit on the dense one-hot columns: max dev {dev:.3g} '
                         f'(kernel {kern}, levels {levels}, {nnum} numerical, {nout} outputs)', dict(kernel=kern, levels=levels, nnum=nnum, nout=nout, bandwidth_mode=bwm, dev=dev),
                         key=json.dumps(dict(site='model-categorical', kernel=kern, bw=bwm)))
    # ---- many rows in one call (more than any internal row batch: 10,050 x-rows), numerical and categorical columns: every row must still equal the dense evaluation
    for kn_b, p_b, q_b in (('l2', 2.0, 1.0), ('lpq', 1.5, 1.0)):
        nnum, levels = 2, [3, 2]
        d = nnum + sum(levels)
        nbig = 10_050
        def rows_b(k):
            R = np.zeros((k, d)); R[:, :nnum] = rng.standard_normal((k, nnum)); o = nnum
            for lv in levels:
                lab = rng.integers(0, lv, size=k); R[np.arange(k)[:, None], (o + np.arange(lv))[None, :]] = np.eye(lv)[lab]; o += lv
            return R
        Xb, Zb = rows_b(nbig), rows_b(3)
        matb = np.abs(rng.standard_normal(d)) + 0.3
        mkb = (lambda: K.LaplaceKernel(bandwidth=2.0, exponent=q_b)) if kn_b == 'l2' else (lambda: K.LpqLaplaceKernel(bandwidth=2.0, p=p_b, q=q_b))
        dense_b, fast_b = mkb(), mkb()
        o = nnum; cidx = []
        for lv in levels:
            cidx.append(torch.arange(o, o + lv)); o += lv
        fast_b.set_categorical_indices(torch.arange(nnum), cidx, [torch.eye(lv, dtype=torch.float64) for lv in levels], device='cpu')
        with xr.quiet():
            Kd_b = dense_b.get_kernel_matrix(T(Xb), T(Zb), T(matb)).numpy(); Kf_b = fast_b.get_kernel_matrix(T(Xb), T(Zb), T(matb)).numpy()
        dv = np.abs(Kd_b - Kf_b).max(axis=1)
        ck.case(dict(kind='big-x', kernel=kn_b, rows=nbig), nontrivial=True); ck.count('categorical fast path on 10,050 rows')
        if dv.max() > 1e-9:
            r = int(dv.argmax())
            ck.violation(f'{kn_b}: categorical fast path differs from dense evaluation by {dv.max():.3g} at row {r} of a {nbig}-row call (rows 0..{nbig - 1}; first bad row {int((dv > 1e-9).argmax())}): '
                         f'fast {Kf_b[r].tolist()} vs dense {Kd_b[r].tolist()}', dict(kernel=kn_b, row=r, rows=nbig, x=Xb[r].tolist()), key=json.dumps(dict(site='fast-vs-dense-big', kernel=kn_b)))
    resac = ck.run_bool_cases('agopcat', AC_HEADER, ac_cases, shard=6)
    badac = [ac_meta[k] for k, v in resac.items() if v is not True]
    ck.obligation(f'correspondence: get_agop_categorical of {len(ac_cases)} layouts == Model/AgopCat.v evaluated in Coq on the implementation\'s own gradient rows '
                  f'(zero matrix + scatter of the numerical and every categorical block)', 'correspondence', not badac, f'first mismatches: {badac[:3]}')
    res = ck.run_lemma_files('cat', kreal.RHEADER, lemmas, shard=3, timeout=900)
    bad = [lmeta[k] for k, v in res.items() if not v]
    ck.obligation(f'correspondence: {len(lemmas)} fast-path kernel entries within tolerance of the Coq dense op-sequence model on the one-hot rows (interval-certified)',
                  'correspondence', not bad, f'first failures: {bad[:3]}')
