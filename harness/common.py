"""Shared machinery for the /verif checks.

Every per-property module (harness/cNN.py) exposes ``run(ck)`` where ``ck`` is a ``Check``.
The module
  * records *obligations* (theorem files, regenerated translation lemmas, correspondence shards),
  * records *cases* (what the real code was run on),
  * reports *violations* (concrete failing inputs against the property's own oracle) or
    *broken obligations* (model/proof no longer checks but no failing input was found).
``Check.finish()`` writes the evidence file, replay files, prints KNOWN-FINDING / VIOLATION lines and
returns the exit status.
"""
import glob, os, sys, json, time, random, hashlib, subprocess, re, shutil, math, traceback
from fractions import Fraction
from concurrent.futures import ThreadPoolExecutor

VERIF = os.path.dirname(os.path.dirname(os.path.abspath(__file__)))
REPO = os.environ.get('XRFM_REPO', '/repo')
COQDIR = os.path.join(VERIF, 'coq')
BUILD = os.path.join(VERIF, 'build')
NJOBS = int(os.environ.get('VERIF_JOBS', '16'))

ALLOWED_AXIOMS = {
    # Coq standard library axioms only (never declared by us)
    'ClassicalDedekindReals.sig_forall_dec', 'ClassicalDedekindReals.sig_not_dec',
    'FunctionalExtensionality.functional_extensionality_dep',
    'Classical_Prop.classic', 'Eqdep.Eq_rect_eq.eq_rect_eq',
    'ProofIrrelevance.proof_irrelevance', 'JMeq.JMeq_eq',
    'PropExtensionality.propositional_extensionality',
    'ClassicalEpsilon.constructive_indefinite_description',
}
# primitive float / int operations show up in Print Assumptions as well; they are part of the kernel
PRIMITIVE_PREFIXES = ('PrimFloat.', 'Uint63.', 'PrimInt63.', 'FloatAxioms.', 'FloatOps.', 'Sint63.', 'PArray.',
                      'Uint63Axioms.', 'CarryType.', 'FloatClass.', 'PrimString.')

FORBIDDEN = re.compile(r'\b(Admitted|admit|Axiom|Axioms|Parameter|Parameters|Conjecture|Conjectures|'
                       r'Admit Obligations|bypass_check)\b|Unset Guard|Unset Positivity|Unset Universe|type-in-type|impredicative-set')


# ----------------------------------------------------------------------------------------------
# exact number printing
# ----------------------------------------------------------------------------------------------
def frac(x):
    """exact rational of a python float / numpy scalar / int / Fraction"""
    if isinstance(x, Fraction):
        return x
    if isinstance(x, int):
        return Fraction(x)
    return Fraction(float(x))


def coq_Z(n):
    n = int(n)
    return f'({n})%Z' if n < 0 else f'{n}%Z'


def coq_Q(x):
    f = frac(x)
    return f'({f.numerator}#{f.denominator})'


def coq_R(x):
    """exact real literal for a float (dyadic rational)"""
    f = frac(x)
    if f.denominator == 1:
        return f'({f.numerator})%R' if f.numerator < 0 else f'{f.numerator}%R'
    return f'({f.numerator}/{f.denominator})%R'


def coq_list(items):
    return '[' + '; '.join(items) + ']'


def coq_Qlist(xs):
    return coq_list([coq_Q(x) for x in xs])


def coq_Qmat(rows):
    return coq_list([coq_Qlist(r) for r in rows])


def coq_nat(n):
    return f'{int(n)}%nat'


def coq_bool(b):
    return 'true' if b else 'false'


def coq_float(x):
    """binary64 literal, bit exact"""
    x = float(x)
    if x != x:
        return 'PrimFloat.nan'
    if x == math.inf:
        return 'PrimFloat.infinity'
    if x == -math.inf:
        return 'PrimFloat.neg_infinity'
    h = x.hex()
    return f'({h})%float'


# ----------------------------------------------------------------------------------------------
# Coq runner
# ----------------------------------------------------------------------------------------------
def sh(cmd, timeout=600, cwd=None, env=None):
    t0 = time.time()
    try:
        p = subprocess.run(cmd, shell=isinstance(cmd, str), cwd=cwd, env=env, timeout=timeout,
                           stdout=subprocess.PIPE, stderr=subprocess.STDOUT, text=True)
        return p.returncode, p.stdout, time.time() - t0
    except subprocess.TimeoutExpired as e:
        out = e.stdout if isinstance(e.stdout, str) else (e.stdout or b'').decode('utf8', 'replace')
        return 124, (out or '') + '\n<<timeout>>', time.time() - t0


def ensure_coq_build():
    """(Re)build the Coq development; a no-op when up to date.  Returns (ok, log).
    Serialised with a file lock: several checks may be started at the same time."""
    import fcntl
    os.makedirs(BUILD, exist_ok=True)
    with open(os.path.join(BUILD, '.make.lock'), 'w') as lk:
        fcntl.flock(lk, fcntl.LOCK_EX)
        try:
            return _ensure_coq_build()
        finally:
            fcntl.flock(lk, fcntl.LOCK_UN)


def _ensure_coq_build():
    mk = os.path.join(COQDIR, 'Makefile')
    if not os.path.exists(mk) or os.path.getmtime(mk) < os.path.getmtime(os.path.join(COQDIR, '_CoqProject')):
        rc, out, _ = sh('coq_makefile -f _CoqProject -o Makefile', cwd=COQDIR)
        if rc != 0:
            return False, out
    rc, out, _ = sh(f'timeout 3000 make -j{NJOBS}', cwd=COQDIR, timeout=3100)
    return rc == 0, out


def coqc(path, timeout=600, extra=''):
    """compile one .v (outside the project build) against the built library"""
    d = os.path.dirname(path)
    cmd = f'timeout {timeout} coqc -Q {COQDIR} XV -Q {d} Gen {extra} {path}'
    return sh(cmd, timeout=timeout + 20, cwd=d)


def coqc_many(paths, timeout=600, jobs=None):
    jobs = jobs or NJOBS
    with ThreadPoolExecutor(max_workers=jobs) as ex:
        return list(ex.map(lambda p: coqc(p, timeout=timeout), paths))


def parse_assumptions(out):
    """return dict theorem-ish -> list of axioms from `Print Assumptions` output (in order of appearance)"""
    res = []
    lines = out.splitlines()
    i = 0
    while i < len(lines):
        ln = lines[i]
        if ln.startswith('Closed under the global context'):
            res.append([])
        elif ln.startswith('Axioms:'):
            ax = []
            i += 1
            while i < len(lines) and lines[i].strip() != '' and not lines[i].startswith('Closed under') \
                    and not lines[i].startswith('Axioms:'):
                m = re.match(r'^([A-Za-z_][\w\.\']*)\s*(:|$)', lines[i])
                if m and not lines[i].startswith(' '):
                    ax.append(m.group(1))
                i += 1
            res.append(ax)
            continue
        i += 1
    return res


def grep_forbidden():
    bad = []
    for root, _, files in os.walk(COQDIR):
        for fn in files:
            if fn.endswith('.v'):
                p = os.path.join(root, fn)
                txt = open(p).read()
                # strip comments (non-nested is enough for our files)
                txt2 = re.sub(r'\(\*.*?\*\)', '', txt, flags=re.S)
                for m in FORBIDDEN.finditer(txt2):
                    bad.append(f'{os.path.relpath(p, VERIF)}: {m.group(0)}')
    return bad


def extract_bools(out):
    return [t == 'true' for t in re.findall(r'\b(true|false)\b', out)]


def canon_hash(obj):
    return hashlib.sha1(json.dumps(obj, sort_keys=True, default=str).encode()).hexdigest()


# ----------------------------------------------------------------------------------------------
# the Check object
# ----------------------------------------------------------------------------------------------
class Check:
    def __init__(self, pid, tier, seed, replay=None):
        self.pid = pid
        self.tier = tier
        self.seed = seed
        self.replay = replay
        self.rng = random.Random(seed * 1000003 + int(pid[1:]))
        self.t0 = time.time()
        self.obligations = []      # dict(name, kind, ok, detail)
        self.violations = []       # dict(what, replay(dict), key)
        self.case_hashes = set()
        self.nontrivial = set()
        self.evaluations = 0
        self.samples = []
        self.dist = {}
        self.skipped = {}
        self.notes = []
        self.trusted = []
        self.assumptions = []
        self.rule = ''
        self.checker_cmds = []
        # generated .v files of THIS run (concurrent runs of the same property must not share a directory)
        self.bdir = os.path.join(BUILD, pid, f'run_{os.getpid()}')
        shutil.rmtree(self.bdir, ignore_errors=True)
        os.makedirs(self.bdir, exist_ok=True)
        for old in glob.glob(os.path.join(BUILD, pid, 'run_*')):        # runs that ended more than 6 h ago
            try:
                if old != self.bdir and time.time() - os.path.getmtime(old) > 6 * 3600:
                    shutil.rmtree(old, ignore_errors=True)
            except OSError:
                pass
        self.rdir = os.path.join(BUILD, 'replays', pid)
        os.makedirs(self.rdir, exist_ok=True)
        self.known = load_known_findings().get(pid, [])

    # -- scale helpers
    def n(self, quick, thorough):
        # thorough tier: the listed count times VERIF_THOROUGH_SCALE (default 3; the counts were tuned for ~1-3 min per property at scale 1)
        if self.tier == 'thorough':
            return int(thorough * float(os.environ.get('VERIF_THOROUGH_SCALE', '3')))
        return quick

    # -- bookkeeping
    def count(self, key, k=1, table=None):
        t = self.dist if table is None else table
        t[key] = t.get(key, 0) + k

    def skip(self, key, k=1):
        self.skipped[key] = self.skipped.get(key, 0) + k

    def case(self, obj, nontrivial=True, sample=False):
        """register one explored case (for evidence counts)"""
        self.evaluations += 1
        h = canon_hash(obj)
        self.case_hashes.add(h)
        if nontrivial:
            self.nontrivial.add(h)
        if sample or len(self.samples) < 3:
            if len(self.samples) < 6:
                s = json.dumps(obj, default=str)
                self.samples.append(json.loads(s) if len(s) < 4000 else s[:4000] + '...')

    def obligation(self, name, kind, ok, detail=''):
        self.obligations.append(dict(name=name, kind=kind, ok=bool(ok), detail=detail[-3000:] if detail else ''))
        return ok

    def violation(self, what, replay, key=None):
        """a concrete failing input against the property's own oracle (genuine violation)"""
        self.violations.append(dict(what=what, replay=replay, key=key or what, concrete=True))

    # -- theorem files
    def check_theorems(self, files=None, timeout=900):
        """re-compile coq/Properties/<pid>*.v, check Print Assumptions against the allowed list."""
        ok, log = ensure_coq_build()
        self.obligation('coq-build(make)', 'build', ok, '' if ok else log)
        bad = grep_forbidden()
        self.obligation('no Admitted/Axiom/Parameter/unset-checks in coq/', 'gate', not bad, '; '.join(bad))
        if files is None:
            files = sorted(f for f in os.listdir(os.path.join(COQDIR, 'Properties'))
                           if f.startswith(self.pid) and f.endswith('.v'))
        for fn in files:
            src = os.path.join(COQDIR, 'Properties', fn)
            dst = os.path.join(self.bdir, 'Thm_' + fn)
            shutil.copy(src, dst)
            rc, out, dt = coqc(dst, timeout=timeout)
            self.checker_cmds.append(f'coqc -Q coq XV coq/Properties/{fn}')
            thms = re.findall(r'^\s*(?:Theorem|Example)\s+([\w\']+)', open(src).read(), flags=re.M)
            if rc != 0:
                self.obligation(f'Properties/{fn}', 'theorem-file', False, out)
                continue
            axs = parse_assumptions(out)
            used = sorted({a for l in axs for a in l})
            illegal = [a for a in used if a not in ALLOWED_AXIOMS and not a.startswith(PRIMITIVE_PREFIXES)]
            n_pa = len(re.findall(r'Print Assumptions', open(src).read()))
            self.obligation(f'Properties/{fn}: {len(thms)} theorems/examples compile ({dt:.1f}s)', 'theorem-file', True)
            self.obligation(f'Properties/{fn}: Print Assumptions x{n_pa} within allowed axioms', 'axioms',
                            not illegal and len(axs) == n_pa and n_pa > 0,
                            f'illegal={illegal} parsed={len(axs)} expected={n_pa}')
            for t in thms:
                self.obligation(f'{fn}:{t}', 'theorem', True)
            self.trusted.append(f'{fn}: axioms used = {used if used else "none (closed under the global context)"}')

    # -- exact correspondence through vm_compute
    def run_bool_cases(self, name, header, cases, shard=250, timeout=600, defs=''):
        """cases: list of (case_id, coq_bool_expr[, local_defs]).  Evaluates every expr with vm_compute in Coq.
        Returns dict case_id -> True/False/None(None = shard did not compile)."""
        results = {}
        shards = [cases[i:i + shard] for i in range(0, len(cases), shard)]
        paths = []
        for si, sh_cases in enumerate(shards):
            p = os.path.join(self.bdir, f'{name}_{si}.v')
            with open(p, 'w') as f:
                f.write(header + '\n' + defs + '\n')
                for k, c in enumerate(sh_cases):
                    if len(c) > 2 and c[2]:
                        f.write(c[2] + '\n')
                    f.write(f'Definition r_{k} : bool := {c[1]}.\n')
                f.write('Definition all_results : list bool := ' +
                        coq_list([f'r_{k}' for k in range(len(sh_cases))]) + '.\n')
                f.write('Eval vm_compute in all_results.\n')
            paths.append(p)
        outs = coqc_many(paths, timeout=timeout)
        nbad = 0
        for sh_cases, p, (rc, out, dt) in zip(shards, paths, outs):
            if rc != 0:
                for c in sh_cases:
                    results[c[0]] = None
                self.obligation(f'correspondence shard {os.path.basename(p)} compiles', 'correspondence', False, out)
                nbad += 1
                continue
            tail = out[out.rfind('= ['):] if '= [' in out else out
            bools = extract_bools(tail)
            if len(bools) != len(sh_cases):
                for c in sh_cases:
                    results[c[0]] = None
                self.obligation(f'correspondence shard {os.path.basename(p)} output parse', 'correspondence', False,
                                out[-2000:])
                continue
            for c, b in zip(sh_cases, bools):
                results[c[0]] = b
        self.checker_cmds.append(f'coqc build/{self.pid}/{name}_*.v  (vm_compute of model vs implementation, {len(cases)} cases)')
        return results

    def run_lemma_files(self, name, header, lemmas, shard=8, timeout=600):
        """lemmas: list of (case_id, full Coq text of lemma+proof).  A shard that fails is re-run lemma by lemma.
        Returns dict case_id -> bool"""
        results = {}
        shards = [lemmas[i:i + shard] for i in range(0, len(lemmas), shard)]
        paths = []
        for si, sl in enumerate(shards):
            p = os.path.join(self.bdir, f'{name}_{si}.v')
            with open(p, 'w') as f:
                f.write(header + '\n')
                for cid, txt in sl:
                    f.write(txt + '\n')
            paths.append(p)
        outs = coqc_many(paths, timeout=timeout)
        retry = []
        for sl, p, (rc, out, dt) in zip(shards, paths, outs):
            if rc == 0:
                for cid, _ in sl:
                    results[cid] = True
            else:
                retry.extend(sl)
        if retry:
            paths = []
            for k, (cid, txt) in enumerate(retry):
                p = os.path.join(self.bdir, f'{name}_retry_{k}.v')
                with open(p, 'w') as f:
                    f.write(header + '\n' + txt + '\n')
                paths.append(p)
            outs = coqc_many(paths, timeout=timeout)
            for (cid, _), (rc, out, dt) in zip(retry, outs):
                results[cid] = (rc == 0)
                if rc != 0:
                    self.notes.append(f'lemma {cid} failed: {out[-600:]}')
        self.checker_cmds.append(f'coqc build/{self.pid}/{name}_*.v  ({len(lemmas)} generated lemmas)')
        return results

    # -- finishing
    def write_replay(self, obj):
        k = len(os.listdir(self.rdir))
        p = os.path.join(self.rdir, f'{k:03d}.json')
        with open(p, 'w') as f:
            json.dump(obj, f, indent=1, default=str)
        return p

    def finish(self):
        lines = []
        rc = 0
        broken = [o for o in self.obligations if not o['ok']]
        reported = 0
        known_hit = []
        # concrete violations, de-duplicated by key
        seen = set()
        for v in self.violations:
            if v['key'] in seen:
                continue
            seen.add(v['key'])
            kf = match_known(self.known, v)
            if kf is not None:
                known_hit.append((kf, v))
                continue
            path = self.write_replay(dict(property=self.pid, kind='concrete', what=v['what'], replay=v['replay'], key=v['key'],
                                          seed=self.seed, tier=self.tier,
                                          how_to_replay=f'./check {self.pid} --replay <this file>'))
            lines.append(f'VIOLATION property={self.pid} replay={path}')
            lines.append('  what: ' + str(v['what'])[:400].replace('\n', ' '))
            reported += 1
            rc = 1
        for kf, v in known_hit:
            pass
        for kf in {k['id']: k for k, _ in known_hit}.values():
            lines.append(f"KNOWN-FINDING: property={self.pid} {kf['what']}")
        if broken and reported == 0:
            # a proof obligation / correspondence no longer checks but no failing input was found
            # (if all broken obligations are explained by known findings they were marked ok by the module)
            path = self.write_replay(dict(property=self.pid, kind='broken-obligation',
                                          broken=[dict(name=o['name'], kind=o['kind'], detail=o['detail']) for o in broken],
                                          note='no concrete failing input was found by the search; the property is no longer shown to hold',
                                          seed=self.seed, tier=self.tier))
            lines.append(f'VIOLATION property={self.pid} replay={path} no-failing-input-found')
            for o in broken[:3]:
                lines.append('  broken: ' + o['name'][:200] + ' :: ' + str(o['detail'])[-300:].replace('\n', ' '))
            rc = 1
        ev = dict(
            property_id=self.pid, tier=self.tier, seed=self.seed, level='proof',
            coverage=dict(
                obligations=len(self.obligations),
                discharged=len([o for o in self.obligations if o['ok']]),
                checker_cmd=' ; '.join(dict.fromkeys(self.checker_cmds)) or 'coqc',
                trusted_base=self.trusted,
                evaluations=self.evaluations,
                distinct_nontrivial=len(self.nontrivial),
                rule=self.rule,
                samples=self.samples,
                input_distribution=self.dist,
                skipped=self.skipped,
                obligations_list=[dict(name=o['name'], kind=o['kind'], ok=o['ok']) for o in self.obligations],
                broken=[o for o in self.obligations if not o['ok']],
                known_findings_hit=[k['id'] for k in {k['id']: k for k, _ in known_hit}.values()],
                notes=self.notes[:40],
            ),
            assumptions=self.assumptions,
            wall_s=round(time.time() - self.t0, 2),
            violations=reported + (1 if (broken and reported == 0) else 0),
        )
        evdir = os.environ.get('VERIF_EVIDENCE_DIR') or os.path.join(VERIF, 'evidence')     # (seed runs against a scratch worktree write elsewhere)
        os.makedirs(evdir, exist_ok=True)
        evp = os.path.join(evdir, f'{self.pid}.json')
        with open(evp + f'.tmp{os.getpid()}', 'w') as f:
            json.dump(ev, f, indent=1, default=str)
        os.replace(evp + f'.tmp{os.getpid()}', evp)        # atomic: concurrent runs never leave a half-written file
        for ln in lines:
            print(ln)
        nob = len(self.obligations)
        print(f'[{self.pid}] tier={self.tier} seed={self.seed} obligations={nob} discharged={nob - len(broken)} '
              f'cases={self.evaluations} distinct_nontrivial={len(self.nontrivial)} '
              f'violations={ev["violations"]} wall={ev["wall_s"]}s')
        sys.stdout.flush()
        return rc


def load_known_findings():
    p = os.path.join(VERIF, 'known_findings.json')
    if not os.path.exists(p):
        return {}
    d = json.load(open(p))
    out = {}
    for k in d.get('findings', []):
        if k.get('status') == 'open':
            out.setdefault(k['property'], []).append(k)
    return out


def match_known(known, v):
    """a violation matches a known finding when the finding's `match` dict is a sub-dict of the violation's key dict"""
    key = v.get('key')
    for k in known:
        m = k.get('match')
        if isinstance(m, dict) and isinstance(key, str):
            try:
                kd = json.loads(key)
            except Exception:
                continue
            if all(kd.get(a) == b for a, b in m.items()):
                return k
        elif isinstance(m, str) and isinstance(key, str) and m == key:
            return k
    return None


def import_xrfm():
    """import the library from /repo's working tree (never from site-packages copies)"""
    if REPO not in sys.path:
        sys.path.insert(0, REPO)
    import warnings
    warnings.filterwarnings('ignore')
    import xrfm
    assert os.path.realpath(xrfm.__file__).startswith(os.path.realpath(REPO)), xrfm.__file__
    return xrfm
