"""Driving the REAL RFM.fit loop with scripted validation scores and tagged stubs (shared by C02 and C03).
fit_predictor / fit_M / _compute_validation_metrics are replaced on the instance; everything else
(loop order, update_best_params, _should_early_stop, restore) is the library's own code."""
import math
import torch
from harness.common import coq_float, coq_nat, coq_bool, coq_list

FIT_HEADER = '''From Coq Require Import List Bool Arith PrimFloat.
Require Import XV.Model.Select XV.Model.SelectT.
Import ListNotations.
Definition wtag_eqb (a b : wtag) : bool :=
  Nat.eqb (w_iter a) (w_iter b) && Nat.eqb (w_m a) (w_m b) && Nat.eqb (w_bw a) (w_bw b).
Definition onat_eqb (a b : option nat) : bool :=
  match a, b with Some x, Some y => Nat.eqb x y | None, None => true | _, _ => false end.
Definition oonat_eqb (a b : option (option nat)) : bool :=
  (* the model distinguishes `never assigned` (None) from `label None` (Some None); Python shows None for both *)
  match a, b with Some x, Some y => onat_eqb x y | None, None => true | Some None, None => true | _, _ => false end.
Definition outcome_eqb (a b : outcome) : bool :=
  match a, b with
  | Out w m bw bi e s, Out w' m' bw' bi' e' s' =>
      wtag_eqb w w' && Nat.eqb m m' && Nat.eqb bw bw' && oonat_eqb bi bi' && Nat.eqb e e' && Bool.eqb s s'
  | Crash, Crash => true
  | _, _ => false
  end.
Definition frun (minimize : bool) (mult : float) (iters : nat) (lbl : option nat) (rb es : bool) (sc : list float) : outcome :=
  run float (f_init minimize) (f_better minimize) (f_stop minimize mult) iters lbl rb es sc.
(* the wall-clock test fires at the top of every round i >= r (scripted clock) *)
Definition frun_t (minimize : bool) (mult : float) (r : nat) (iters : nat) (lbl : option nat) (rb es : bool) (sc : list float) : outcome :=
  run_t float (f_init minimize) (f_better minimize) (f_stop minimize mult) (fun i => Nat.leb r i) iters lbl rb es sc.
'''


def run_real_fit(xr, iters_loop, iters_arg, scores, metric, early_stop, mult, return_best, ctor_iters=None, ctor_metric=None, timeout_round=None, return_Ms=False):
    """returns dict(w=(i,m,bw), m=, sqrtm=, bw=, best_iter=, evals=, solves=, crashed=).
    `metric` is the metric in force during the fit; when ctor_metric is given the object is CONSTRUCTED with ctor_metric and
    `metric` is passed to fit(tuning_metric=...) (the documented override), otherwise it is given to the constructor only."""
    torch.manual_seed(0)
    ctor = iters_loop if ctor_iters is None else ctor_iters
    m = xr.RealRFM(kernel='l2', bandwidth=1.0, exponent=1.0, device='cpu', iters=ctor, tuning_metric=(metric if ctor_metric is None else ctor_metric), verbose=False,
                   **({} if timeout_round is None else dict(time_limit_s=1.0)))
    # scripted clock: the module-level `time` the loop reads is replaced for the duration of the fit; it shows 0 until `timeout_round` rounds have STARTED
    # (the loop calls callback(iteration=i) right after its wall-clock test), then a huge value: the test fires at the top of round `timeout_round`
    started = dict(n=0)
    import types
    import xrfm.rfm_src.recursive_feature_machine as _rfm_mod
    fake_time = types.SimpleNamespace(time=lambda: (1e9 if started['n'] >= timeout_round else 0.0))
    def _cb(iteration):
        started['n'] = iteration + 1
    st = dict(solves=0, mver=0, evals=0)
    script = list(scores)

    def ver():
        return 0 if m.M is None else int(m.M[0].item())

    def fit_predictor(centers, targets, **kw):
        i = st['solves']
        st['solves'] += 1
        m.centers = centers
        m.kernel_obj.bandwidth = 100.0 + i          # the bandwidth "adapted" at this solve
        m.weights = torch.tensor([[float(i), float(ver()), float(i)]])

    def fit_M(samples, num_classes, M_batch_size=None, inplace=True, **kw):
        if not inplace:
            return torch.tensor([-1.0])
        st['mver'] += 1
        m.M = torch.tensor([float(st['mver'])])
        m.sqrtM = torch.tensor([1000.0 + st['mver']])

    def cvm(X_train, y_train, X_val, y_val, **kw):
        k = st['evals']
        st['evals'] += 1
        if k >= len(script):
            raise RuntimeError('script exhausted')
        return {m.tuning_metric: script[k]}

    m.fit_predictor = fit_predictor
    m.fit_M = fit_M
    m._compute_validation_metrics = cvm
    X = torch.zeros(3, 2); y = torch.zeros(3, 1)
    out = dict(crashed=None)
    real_time = _rfm_mod.time
    try:
        if timeout_round is not None:
            _rfm_mod.time = fake_time
        m.fit((X, y), (X, y), iters=iters_arg, reg=1e-3, return_best_params=return_best, early_stop_rfm=early_stop,
              early_stop_multiplier=mult, verbose=False, **({} if ctor_metric is None else dict(tuning_metric=metric)),
              **({} if timeout_round is None else dict(callback=_cb)), **(dict(return_Ms=True) if return_Ms else {}))
    except Exception as e:      # restore with best_alphas None etc.
        out['crashed'] = repr(e)
        out['evals'] = st['evals']
        return out
    finally:
        _rfm_mod.time = real_time
    w = [int(v) for v in m.weights.reshape(-1).tolist()]
    out.update(w=tuple(w), m=ver(), sqrtm=(0 if m.sqrtM is None else int(m.sqrtM[0].item()) - 1000),
               bw=int(round(float(m.kernel_obj.bandwidth) - 100.0)) if float(m.kernel_obj.bandwidth) >= 100 else -1,
               best_iter=m.best_iter, evals=st['evals'], solves=st['solves'])
    return out


def coq_outcome(o, stopped):
    if o['crashed'] is not None:
        return 'Crash'
    bw = o['bw'] if o['bw'] >= 0 else 0
    bi = 'None' if o['best_iter'] is None else f'(Some (Some {coq_nat(o["best_iter"])}))'
    # best_iter None is ambiguous in Python (never assigned vs label None): the caller passes which one the model should say
    return (f'(Out {{| w_iter := {coq_nat(o["w"][0])}; w_m := {coq_nat(o["w"][1])}; w_bw := {coq_nat(o["w"][2])} |}} '
            f'{coq_nat(o["m"])} {coq_nat(bw)} {bi} {coq_nat(o["evals"])} {coq_bool(stopped)})')


def coq_frun(minimize, mult, iters_loop, iters_arg, return_best, early_stop, scores, timeout_round=None):
    lbl = 'None' if iters_arg is None else f'(Some {coq_nat(iters_arg)})'
    head = f'frun {coq_bool(minimize)} {coq_float(mult)}' if timeout_round is None else f'frun_t {coq_bool(minimize)} {coq_float(mult)} {coq_nat(timeout_round)}'
    return (f'{head} {coq_nat(iters_loop)} {lbl} {coq_bool(return_best)} '
            f'{coq_bool(early_stop)} {coq_list([coq_float(s) for s in scores])}')
