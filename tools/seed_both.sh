#!/bin/bash
# tools/seed_both.sh <Cxx> <letter>: confirm the sub-agent's change, keep it as seeded/<Cxx>_<letter>, run the quick check against it in a scratch worktree
P=$1; L=$2; mkdir -p /tmp/seedlogs
( bash /verif/tools/seed_confirm.sh $P ${P}_$L; bash /verif/tools/seed_run_wt.sh ${P}_$L quick ) > /tmp/seedlogs/${P}_$L.log 2>&1
tail -4 /tmp/seedlogs/${P}_$L.log
