#!/bin/bash
# tools/seed_preview.sh <Cxx> <worktree> [tier] — run a check against a scratch worktree (XRFM_REPO) without touching /repo; evidence restored afterwards
P=$1; WT=$2; TIER=${3:-quick}
cd /verif; cp evidence/$P.json /tmp/evidence_backup_prev_$P.json 2>/dev/null
XRFM_REPO=$WT ./check $P --tier $TIER > /tmp/seedprev_$P.log 2>&1; RC=$?
cp /tmp/evidence_backup_prev_$P.json evidence/$P.json 2>/dev/null; rm -f /tmp/evidence_backup_prev_$P.json
grep -E "^VIOLATION|^KNOWN|^\[$P\]|what:" /tmp/seedprev_$P.log | head -6
echo "preview $P on $WT: exit=$RC"
