#!/bin/bash
# tools/seed_run.sh <seed-name> [tier]  — apply a kept seeded defect to /repo, run the check of its property, undo it
NAME=$1; TIER=${2:-quick}; D=/verif/seeded/$NAME
P=$(python3 -c "import json;print(json.load(open('$D/meta.json'))['property'])")
cd /verif
cp evidence/$P.json /tmp/evidence_backup_$P.json 2>/dev/null
git -C /repo apply $D/patch.diff || exit 2
./check $P --tier $TIER > /tmp/seedrun_$NAME.log 2>&1; RC=$?
git -C /repo checkout -- .
cp /tmp/evidence_backup_$P.json evidence/$P.json 2>/dev/null; rm -f /tmp/evidence_backup_$P.json
grep -E "^VIOLATION|^KNOWN|^\[$P\]" /tmp/seedrun_$NAME.log | head -5
echo "seed $NAME property $P tier $TIER: check exit=$RC ($( [ $RC -ne 0 ] && echo DETECTED || echo MISSED ))"
python3 - <<PY
import json
p='$D/meta.json'; m=json.load(open(p)); m.setdefault("detection",{})["$TIER" + ("" if "${VERIF_SEED:-0}"=="0" else "_seed${VERIF_SEED}")]=dict(exit=$RC, detected=($RC!=0)); json.dump(m,open(p,'w'),indent=1)
PY
