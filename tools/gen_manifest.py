#!/usr/bin/env python3
"""Regenerates /verif/MANIFEST.json from the table below (run after adding a check)."""
import json, os
HERE = os.path.dirname(os.path.dirname(os.path.abspath(__file__)))
ALL = [f'C{i:02d}' for i in range(1, 21)]

# id -> (design_ref, technique, level text, level note)
CHECKS = {
 'C06': ('DESIGN.md §4 C06',
         'Coq proof (induction on fuel, lia) over an executable model of the split recursion + AST translator lemma + vm_compute correspondence with real fits',
         'Theorems for every n, L, overlap rule: termination within n steps, leaf bound, ceil/floor halves plus band, depth bound ceil(log2(n/L)), split quota; '
         'the integer arithmetic of _get_balanced_split/_refill_val_set/_build_tree is re-translated from the source on every run and proved equal to the model; '
         'tree shapes of real fits and the real split routine on every (f,n) are compared with the model inside Coq.',
         'Trusted: Coq kernel + vm_compute, the AST translator, the recording wrapper, PrimFloat as a model of CPython float arithmetic; torch.sort returns a permutation. '
         'Leaf fitting itself is not part of this property (a leaf with an empty validation set is scored on its own rows by the harness).'),
}

NOT_YET = 'check not built yet in this session (planned, see DESIGN.md §4)'

def main():
    checks = []
    for pid in ALL:
        if pid not in CHECKS:
            continue
        ref, tech, text, note = CHECKS[pid]
        checks.append(dict(
            property_id=pid,
            quick_cmd=f'./check {pid} --tier quick',
            thorough_cmd=f'./check {pid} --tier thorough',
            evidence_file=f'/verif/evidence/{pid}.json',
            replay_cmd_template=f'./check {pid} --replay {{path}}',
            engine='coq-xv',
            level_claimed=dict(category='proof', text=text, design_ref=ref),
            level_note=note,
            technique=tech,
        ))
    man = dict(
        version=1,
        setup_cmd='cd /verif/coq && coq_makefile -f _CoqProject -o Makefile && timeout 3000 make -j16',
        hooks=dict(guard='XRFM_VERIF', enable='no source hooks are needed: observation is by harness-side subclasses and instance wrappers; checks import xrfm from /repo (PYTHONPATH=/repo)',
                   baseline_off_cmd='cd /repo && /venv/bin/python -m pytest -ra -q -p no:cacheprovider --timeout=900 --continue-on-collection-errors tests',
                   source_commits=[], add_only=True),
        engines=[dict(name='coq-xv', path='/verif/coq', serves_properties=sorted(CHECKS),
                      kind_free_text='Coq 8.16.1 development (models, proofs, property theorems) + Python harness that ties the models to /repo by translation and vm_compute/interval correspondence')],
        checks=checks,
        notes='See DESIGN.md. Each check: theorem re-check with Print Assumptions gate, regenerated translation lemmas, correspondence of the Coq model with the real code, independent property oracle for the violation search.',
        not_applicable=[dict(property_id=p, reason=NOT_YET) for p in ALL if p not in CHECKS],
    )
    json.dump(man, open(os.path.join(HERE, 'MANIFEST.json'), 'w'), indent=1)
    print('MANIFEST.json:', len(checks), 'checks;', len(man['not_applicable']), 'not claimed')

main()
