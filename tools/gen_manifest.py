#!/usr/bin/env python3
"""Regenerates /verif/MANIFEST.json from the table below (run after adding a check)."""
import json, os
HERE = os.path.dirname(os.path.dirname(os.path.abspath(__file__)))
ALL = [f'C{i:02d}' for i in range(1, 21)]

# id -> (design_ref, technique, level text, level note)
CHECKS = {
 'C06': ('DESIGN.md §4 C06',
         'Coq proof (induction on fuel, lia) over an executable model of the split recursion + AST translator lemma + vm_compute correspondence with real fits + axiom-free Coq theorems about an executable model of the tree-iteration loop and of the loop over n_trees (TreeIter: the kept tree is the first best of the constructed trees, a time limit is a cut iteration budget, at most 1 + n_tree_iters constructions, single-leaf stop, has_split gate), its statement order and selection operator re-translated from the source each run (treeiterops) and scripted runs of the REAL loops compared with the model by vm_compute (binary64 scores)',
         'Theorems for every n, L, overlap rule: termination within n steps, leaf bound, ceil/floor halves plus band, depth bound ceil(log2(n/L)), split quota; '
         'the integer arithmetic of _get_balanced_split/_refill_val_set/_build_tree is re-translated from the source on every run and proved equal to the model; '
         'tree shapes of real fits and the real split routine on every (f,n) are compared with the model inside Coq. C06b: for every builder, score history and clock the tree a fitted model holds is one of the constructed trees (so every bound proved of a construction is inherited), constructions are bounded (termination), and the model holds at most n_trees trees of which only the last may be a single leaf; exhaustive short score histories over a small alphabet and random ones (ties, infinities, NaN, scripted clocks) are driven through the real _build_tree_with_iterations and the real fit loop.',
         'Trusted: Coq kernel + vm_compute, the AST translator, the recording wrapper, PrimFloat as a model of CPython float arithmetic; torch.sort returns a permutation. '
         'Leaf fitting itself is not part of this property (a leaf with an empty validation set is scored on its own rows by the harness).'),

 'C01': ('DESIGN.md §4 C01',
         'Coq proof (Permutation + sorted-uniqueness, induction over trees) of an executable model of routing/grouping/chunking/argsort-reorder + routing operators (splitarith) and the control skeleton of the prediction pipeline (predops) re-translated from the source each run + vm_compute correspondence through exact probe leaves + mpmath formula oracle + class-probability formula (decode per tree, then average) on confident ensembles',
         'Theorem for every tree, batch, batch size and row-wise leaf predictor: the traversal/reorder pipeline returns f(leaf reached by <=, x) per row; corollaries: batch-size, concatenation, permutation, row independence, ensemble mean. '
         'The real _predict_tree_hard/predict are run on probe leaves (real RFM.predict loop, stubbed kernel) and compared bit-for-bit with the model in Coq; real leaves are compared with the mpmath kernel expansion of the leaf reached by exact routing.',
         'Trusted: Coq kernel + vm_compute, probe leaf, Fraction/mpmath oracle. Kernel values themselves are C05. Rows within rounding distance of a threshold are excluded (as the property states).'),
 'C07': ('DESIGN.md §4 C07',
         'Coq proof (Permutation reasoning over a recorded-run tree, local checker soundness) + vm_compute of the checker on recorded real fits + set-level oracle',
         'Theorem: any recorded run whose nodes pass the local checker (children partition the node with ceil/floor sizes; centers ++ moved = received; moved count = refill rule) uses every sample exactly once globally; refill bounds; for ANY randperm result kept/moved partition the node. '
         'Recorded real fits (recording RFM subclass) are checked by the Coq checker and by a direct oracle (row identity, target alignment, validation composition).',
         'Trusted: Coq kernel + vm_compute, recorders, byte-exact row lookup; torch.randperm returns a permutation. Proviso of the property (non-empty leaf validation) assumed.'),
 'C08': ('DESIGN.md §4 C08',
         'Coq proof (counting argument over filter lengths, lra/lia; induction over the tree) of a relational model of rank split vs lower-median threshold + vm_compute of the relation on recorded real trees',
         'Theorem for every node size (odd/even), overlap, tie order: rank halves + lower-median threshold imply left-only samples are not above and right-only not below the threshold (slack 2e); lifted to whole trees: an untied training sample is routed to a leaf that received it. '
         'Recorded real trees are checked in Coq (tokb), real routing is compared with exact routing and training membership, validation assignment with the <= rule; the comparison operators are re-translated from source each run (C06 translator).',
         'Trusted: Coq kernel + vm_compute, recorders, slack e bounding float32 projection rounding; torch.sort sorts, torch.median is the lower median (both checked through tokb on every recorded node).'),

 'C02': ('DESIGN.md §4 C02',
         'Coq proof (invariant over the fit loop) of state coherence for every history/switch setting; ridge-system theorems (equivalent forms, uniqueness for PSD K, residual bound) + decision operators / snapshot table / loop skeleton (selectarith) and the least-squares solve path (solveops) re-translated from the source each run and proved equal to / instantiated on the models + vm_compute correspondence of the real RFM.fit with tagged stubs + residual check of real fits incl. mpmath closed-form Gram matrix + the same for timed-out fits (SelectT)',
         'Theorem: for every score history, iteration budget, early-stop and best-restore setting the stored coefficients were solved with exactly the stored feature-matrix version and bandwidth (hypothesis: nothing is worse than the infinite sentinel; refuted-without-hypothesis example). '
         'The real loop is driven with scripted scores and tagged solve/AGOP stubs and compared with the model in Coq on binary64; real leaf fits (all CPU kernels, solvers, dtypes, adaptive bandwidth) are checked for (K+lambda I) alpha = Y with K of the stored state and, for n<=10, with the Gram matrix of the documented closed form.',
         'Trusted: Coq kernel + vm_compute (PrimFloat), stubs, LAPACK solve contract (residual of a returned solution is small), mpmath. The ridge identity itself is numeric (tolerance 200 n u scale).'),
 'C03': ('DESIGN.md §4 C03',
         'Coq proof (loop invariant, strict-weak-order reasoning; generic score type with Q and binary64 instances) + improvement / early-stop operators, sentinels and direction-after-override re-translated from the source each run and proved equal to the model (selectarith) + exhaustive/random scripted histories through the real RFM.fit compared by vm_compute + Coq theorem that the loop\'s wall-clock test is equivalent to cutting the iteration budget (SelectT; scripted clock in the correspondence)',
         'Theorem for every finite score history, budget, direction, stop predicate: the returned coefficients/M/sqrtM/bandwidth all carry the index of the FIRST evaluated iterate that no evaluated iterate beats; with early stopping the evaluations end at the first iterate worse than the best so far by more than the multiplier; never crashes. '
         'All histories over a small alphabet (budgets 0-5) and random binary64 histories with ties are run through the real loop (tagged stubs) and compared bit-exactly with the model.',
         'Trusted: Coq kernel + vm_compute (PrimFloat primitives as the model of Python float comparison/multiplication), scripted stubs. NaN scores excluded as the property states.'),
 'C09': ('DESIGN.md §4 C09',
         'Coq proofs: stack-machine = structural path table (induction with a stack measure); softmax of log-sigmoid sums = gate products summing to 1, end-to-end theorem (weights as coded, any top-weighted active set, renormalisation, aggregation: distribution, convex hull, convergence to hard routing for every keep fraction and cap); the weight computation exactly as coded (left fold, clamp at -50, stable shift, tiny-clamped normaliser) equals the gate products whenever no leaf is below e^-50 and is within an explicit bound otherwise, T->0 bound (Reals); rational truncation lemmas + the soft-routing op sequence re-translated from the source each run and proved equal to the models (softops) + interval-certified weight correspondence + vm_compute relation on observed truncations',
         'Theorems for every tree: cache builder = preorder/left-to-right table; weights = product of gate sigmoids, positive, sum to one; renormalised masked weights lie on the simplex so outputs are in the convex hull; active set is a top-weighted prefix, smallest reaching keep, within the cap; hard leaf weight >= 1 - D exp(-margin/T). '
         'One-hot probe leaves expose the weight matrix of the real code; weights are certified against the real-valued model by `interval`, truncations by a rational relation in Coq, leaf invocation sets and T->0 by oracle.',
         'Trusted: Coq kernel, vm_compute, Interval tactic, real-number axioms of the standard library, probe leaves. float32 tolerance 5e-6+2e-5 w; cut-off ties within 4e-6 accepted either way.'),
 'C10': ('DESIGN.md §4 C10',
         'Coq proof (fold invariant, generic score/temperature types with Q and binary64 instances) + acceptance rule / encoding of fit_temperature re-translated from the source each run and proved to be the model\'s step (selectarith) + exhaustive/random scripted tunings through the real fit_temperature compared by vm_compute + recomputation of recorded scores on real fits',
         'Theorem for every candidate list, score function, direction and initial temperature: stored temperature is a candidate with optimal score, recorded best = its score, recorded results = true scores, never worse than hard routing when a candidate <= 0 is present. '
         'The real fit_temperature runs on a manual tree with a scripted metric and is compared bit-exactly with the model; on real fits every recorded score is recomputed from predict/predict_proba.',
         'Trusted: Coq kernel + vm_compute (PrimFloat), scripted metric object patched into the harness process only, numpy metric re-implementations.'),

 'C12': ('DESIGN.md §4 C12',
         'Coq proofs over Q lists (clamp/normalise gives a distribution with explicit lower bound, mixtures of distributions, argmax range, label = argmax via the C01 routing theorem) + decoder op sequences re-translated from the source each run and proved equal to the model (convops), prediction skeleton (predops) + vm_compute of the Q model on the implementation\'s raw leaf outputs + witness theorem that decoding does not commute with the mean over trees',
         'Theorems for every finite raw vector, K, eps in (0,1/2): the decoded row has K strictly positive entries summing to one; convex mixtures (tree mean, soft routing) of such rows sum to one; the label is a class id; for a single hard tree the label vector is the row-wise argmax of the probability matrix. '
         'Real classification fits (2-6 classes, 95:5 imbalance, both encodings, all metrics, 1-3 trees incl. fewer trees built than requested, hard/soft, rows at 1e6) are checked row by row and decoded again by the Q model in Coq.',
         'Trusted: Coq kernel + vm_compute, float32->Q printing (tolerance 3e-5). Kernel values are C05; the prior/zero decoding algebra is C13.'),
 'C13': ('DESIGN.md §4 C13',
         'MathComp proof (matrix algebra over any ordered field) of the prevalence-code construction + Coq proofs over Q lists of decode validity / round trips + decoder op sequences / encoder / construction re-translated from the source each run (convops) + vm_compute checker on the converter\'s actual float32 matrices',
         'Theorems for every K, every prior (zeros allowed), every Q meeting the QR contract: code matrix invertible, codes decode to unit vectors, zero decodes to the prior, codes equidistant (squared distance 2), decoding affine; explicit rational K=4 instance. Executable model: any finite vector decodes to a valid row; zero_one round trip; prevalence round trip for any matrices passing the checker. '
         'The real converter (K 2..12, count grids incl. zeros and 1000:1) is compared with the model and its _C/_invA/_prior are checked in Coq.',
         'Trusted: Coq kernel + vm_compute, MathComp 1.15, float32->Q printing; torch.linalg.qr / inv accuracy is checked per instance (converter_okb, delta 1e-4), not assumed.'),
 'C16': ('DESIGN.md §4 C16',
         'Coq proofs over Q (and R for sqrt/ln) that every metric is bounded by its perfect-prediction value in the declared direction + metric classes re-translated from the source each run (directions, torch op sequences, scikit-learn calls) and proved equal to the model (metricops) + vm_compute / interval correspondence of Metric.compute with the textbook definitions + axiom-free Coq theorem that the declared direction is truthful for every class metric AS DISPATCHED (binary / macro F1, one-vs-rest AUC, Brier, accuracy; MetricsWhole: perfect predictions score at least as well as any predictions, for every K, labels and prediction matrix; side conditions proved necessary by counterexamples; scikit-learn\'s present-labels macro average modelled and proved to coincide when all classes occur)',
         'Theorems: mse/mae/brier/log-loss >= 0 with 0 at perfect predictions, rmse monotone in mse; accuracy/F1/AUC <= 1 with 1 at perfect predictions (AUC with ties counted one half); direction table. '
         'All 8 metrics are run on perfect, constant, adversarial, tied and random arrays and compared with the Q model in Coq (log-loss by interval lemmas) and with exact Fraction re-statements; flags compared exhaustively.',
         'Trusted: Coq kernel + vm_compute, Interval tactic, real-number axioms; float32 tolerance 3e-6 relative; sklearn clipping below 1e-6 is outside the quantifier.'),

 'C11': ('DESIGN.md §4 C11',
         'Coq soundness proof of an attribute-flow (taint) analysis over traces regenerated from the source by an AST translator + vm_compute of the analysis on the regenerated traces + axiom-free Coq round-trip theorem for the tree part of the state dict (export / load / prediction-read tables regenerated from the source by the stateops translator, table condition decided by vm_compute, theorem instantiated at the regenerated tables on every run; the model\'s export / load evaluated in Coq on real fitted trees) + bitwise differential of source / loaded / twice-loaded models',
         'Theorem: if the analysis accepts the prediction trace from the restored attribute set, any two objects agreeing on constructor-only and restored attributes read identical values in identical order (so a fresh model that loaded the state predicts like the source); a trace without writes leaves the object unchanged. '
         'Tree round trip (StateDict): for every fitted tree shape, payload and training matrix, loading the exported tree succeeds and prediction reads on it what it read on the source (node entries with the same defaults, children, restored leaf attributes, centres gathered from the index lists), the loaded tree is again a fitted tree, a second export does not raise, a load of a load reads the same. '
         'Per run the traces of predict/predict_proba/get_grads/get_state_dict/load_state_dict/fit (model and leaf level) are re-translated and the obligations re-evaluated in Coq; the export/import key tables are cross-checked; predictions are compared bitwise across kernels, task types, encodings, depths, overlap, tuned/fixed temperature, load of a load.',
         'partial: numerical equality is observed (bitwise) not proved. Trusted: Coq kernel + vm_compute, the translator (fail-closed) and its justified exemption list (leaf: is_adaptive_bandwidth, solver, class_converter*).'),
 'C17': ('DESIGN.md §4 C17',
         'Coq soundness proof of the attribute-flow analysis (history independence) and of a seeded-generator model + vm_compute of the analysis on traces regenerated from the source (both values of use_temperature_tuning) + differential refits / reseeding',
         'Theorem: if the analysis accepts fit;predict from the empty clean set, a fresh object and an arbitrarily used one that agree on constructor-only attributes read and write identical values; seeding erases all earlier RNG history. '
         'Per run the trace of xRFM.fit is re-translated (2315 events) and analysed in Coq, RNG call sites are listed (private generators fail closed; every call into scipy / sklearn must be a known deterministic function); predictions are compared bitwise for same-seed fits after 0..10^4 prior draws and for refits after 1-2 earlier fits incl. a tie-forcing accuracy scenario.',
         'partial: bit-identity and the RNG library behaviour are observed. Trusted: Coq kernel + vm_compute, translator, exemptions (tuning_metric, class_converter_*), the case split on the constructor-only flag use_temperature_tuning.'),

 'C18': ('DESIGN.md §4 C18',
         'Coq proofs of the save/set/restore protocols (induction over well-bracketed event sequences; thread protocol) + AST structure checks regenerated from the source + vm_compute correspondence of the real decorator on random call trees + bitwise observation of caller data',
         'Theorems: for every well-bracketed nesting of wrapped calls (returning or raising) and every initial value (present/absent) the environment variable is restored and the override is visible inside; for every initial thread count and n_threads the count is restored on normal return. '
         'Per run: with_env_var and the thread blocks are matched structurally in the source, other writers of process-wide settings and in-place operations on parameters are enumerated against allow-lists; random call trees run through the real decorator and are compared with the event model in Coq; every public call is run on tensors/arrays whose bytes and _version are compared, with probes inside fit.',
         'partial: aliasing of caller tensors is observed only. Trusted: Coq kernel + vm_compute, AST matchers, byte/_version comparison.'),
 'C20': ('DESIGN.md §4 C20',
         'Coq proof over a coercion model (finite case analysis) + the coercion block of fit executed abstractly on every representation and proved equal to the model on the whole finite domain by vm_compute (coerceops) + prediction skeleton (predops) + vm_compute correspondence of the observed canonical leaf inputs + bitwise differential across representations',
         'Theorems: all accepted feature representations share one canonical form; the task type depends only on metric and float-ness of the target dtype; the canonical target format is independent of container, width and (n,)/(n,1). '
         'Per run: identical data in every representation (tensor/array, float32/64, int8..int64/uint8, flat/column, float-coded class targets) is fitted with identical seeds; canonical leaf inputs (recording subclass) and predictions (fresh rows and the training rows) must be bitwise equal, output shapes/dtypes as stated.',
         'partial: equality of results is observed. Trusted: Coq kernel + vm_compute, the abstract interpreter of harness/coerceops.py, recording subclass.'),

 'C05': ('DESIGN.md §4 C05',
         'Coq proofs (Reals, lists of any dimension) that each kernel\'s tensor-operation sequence equals the documented closed form; positive semi-definiteness PROVED for all inputs by explicit feature maps for the product / Lpq(p=q=1) / sum-power kernels with exponent 1 and for the Gaussian case of the L2 kernel, and certified per Gram matrix otherwise by an exact LDL^T certificate checker with a soundness theorem + the op sequences re-translated from the source each run by symbolic execution of a generic entry and proved equal to the model (kernelops) + interval-certified correspondence of real kernel-matrix entries + mpmath closed-form oracle',
         'Theorems for every dimension, transform (none/diagonal/full), exponent, bandwidth: op sequence = exp(-||T(x-z)||_p^q / L^q) (L2, Lpq, product) and ((1-c) mean exp(..)+c)^power (sum-power); the memory-light expansion is the quadratic form of the difference exactly for symmetric M (counterexample without symmetry); symmetry, unit diagonal, range (0,1]; for ANY number of points and coefficients the quadratic form of the product kernel with exponent 1 (also Lpq p=q=1, sum-power q=1, L2 q=2) is non-negative (telescoping 1-D feature map on sorted coordinates, tensor products, Schur product, limit of Taylor partial sums); an accepted integer certificate D*K = sum n_i W_i W_i^T implies v^T K v >= -tol |v|^2 for every real v. '
         'Entries of Kernel.get_kernel_matrix (float64/float32, all CPU kernels, every boundary (p,q) combination, bandwidths 1e-2..1e3, coincident/far/high-dimensional points) are certified against the op-sequence model by `interval` and compared with mpmath closed forms; aliases exhaustively; Gram matrices of 5-8 points (random/clustered/duplicated, all kernels with 0<q<=p<=2) get an exact LDL^T certificate that is re-checked by vm_compute inside Coq.',
         'partial: the general Schoenberg statement (0 < q <= p <= 2, e.g. the L2 kernel with exponent 1) is not proved — those Gram matrices are certified per instance (tolerance 1e-6 + grid 2^-41 n). Trusted: Coq kernel, vm_compute, Interval tactic, real-number axioms, mpmath, the exact-rational LDL^T in the harness (its output is re-checked, so only completeness depends on it); tolerances 1e-9 (float64), 2e-5 (float32), (sqrt u)^q scale for the light kernel.'),

 'C04': ('DESIGN.md §4 C04',
         'Coq/Coquelicot proofs (is_derive) that (i) the closed-form L2 gradient formula and (ii) the model of what jacrev + the transform wrapper return for the product / Lpq / sum-power kernels are the derivative of the documented predictor, for any number of centers and any dimension + the gradient op sequences and the closures handed to jacrev re-translated from the source each run and proved equal to the models (gradops) + interval-certified correspondence of returned entries with the Coq models + high-precision (mpmath) derivative oracle for all kernels',
         'Theorems: radial profile derivative; the predictor along a coordinate line is a sum of profiles along a line in transformed space (any transform, all five kernels); the masked closed-form L2 gradient followed by the transform is that derivative wherever the query is at distance >= eps from all centers and the transform is used symmetrically (proved for identity/diagonal; = symmetry of the matrix for full); the same for the product / Lpq / sum-power kernels at points in general position (for exponent > 1 everywhere; at exponent 1 non-differentiability at a vanishing coordinate is proved); a coincident / masked center contributes exactly zero; the closures differentiated by jacrev equal the documented kernels wherever the eps-mask is open. '
         'Every entry of Kernel.get_function_grads (all CPU kernels, 1-4 outputs, 1-3 query points, all transforms, coincident points) is compared with the 60-digit derivative of the documented closed form; entries of all five kernels are certified against the Coq models by `interval`; RFM.get_grads vs finite differences; xRFM.get_grads vs the leaf reached.',
         'partial: that torch.func.jacrev returns the partial derivatives of the closure it is given is PyTorch\'s contract (checked numerically per instance — this is how the multi-output cdist/vmap defect was found). Trusted: Coq kernel, Coquelicot, Interval, real-number axioms, mpmath, the gradops translator.'),

 'C14': ('DESIGN.md §4 C14',
         'Coq proofs over Q (entrywise matrix algebra on lists) of the AGOP accumulation model + real-valued composition theorem with the gradient theorems of C04 (L2 kernel: accumulated matrix = sum over outputs and points of outer products of the true derivative of the leave-own-terms-out predictor) + refutation witness for centred accumulation + update_M / fit_M and the per-batch reductions re-translated from the source each run (agopops, gradops) + vm_compute of the model on the gradients the implementation itself returns + axiom-free MathComp theorem that the coded root formula U diag(sqrt(clip s)) U^T squares back / is symmetric PSD for orthogonal U (MatRoot; the SVD itself stays a per-instance contract) + fit_M vs the AGOP from automatic derivatives of the documented kernel + the same composition theorem for the product and Lpq kernels (AgopOfPredictorPQ: accumulated matrix = sum over outputs and points of outer products of the true partial derivatives of the predictor with the point\'s own centre removed)',
         'Theorems for every number of points/outputs/dimension and every batch size: the accumulated matrix is the sum of gradient outer products, independent of the batch size (no centring), symmetric, positive semi-definite (x^T M x = sum (g.x)^2), diagonal mode = its diagonal, normalised entries <= 1. With centring ON the statement is refuted in the model (witness) and on the implementation (known finding). '
         'fit_M(inplace=False) of small fitted leaves (all CPU kernels, diag/full, 1-3 outputs, batch sizes 1..n+5) is compared with the Q model evaluated in Coq on the implementation\'s own get_function_grads output; root squares back; agop_best_model is the AGOP of the returned predictor.',
         'partial: matrix root (SVD) is a contract (checked numerically), gradient values are C04; the 1e-8 diagonal ridge that the matrix-power routine adds in place is accepted with or without (the property does not ask for it); get_agop / get_agop_diag reductions are re-translated from the source each run (gradops). KNOWN FINDING: center_grads=True is batch-size dependent.'),

 'C19': ('DESIGN.md §4 C19',
         'Coq proofs (Reals) of scale invariance of the Laplace-family closed forms, homogeneity of the lower median and of the closed-form L2 gradient, the bandwidth update as coded (= base x median of distances, homogeneous), and the composition theorem (a whole fit commutes with rescaling when its components are homogeneous; solver arbitrary) + _adapt_bandwidth and its call sites re-translated from the source each run (bwops, kernelops) + vm_compute order-statistic check of the stored bandwidth + rescaling differential + the composition instantiated for the product and Lpq kernels (ScaleInvPQ) and for the memory-light L2 kernel (ScaleInvLight: kernel, light distance, masked gradient and whole fit commute with rescaling; mask side condition proved necessary by a counterexample)',
         'Theorems for every dimension, transform, exponent, c > 0: K_{cL}(cx, cz) = K_L(x, z) for the L2, product and Lpq kernels; lower_median(c * l) = c * lower_median(l). '
         'After real adaptive fits (l2, l2_high_dim, l1, lpq; iters 0-4; early stop / best-restore) the stored bandwidth is compared with base x lower median of the pairwise kernel-norm distances of the transformed training points under the stored feature matrix (order-statistic claim checked in Coq), and predictions on inputs rescaled by 1e-3..1e3 are compared with the unscaled fit.',
         'partial: that a whole fit commutes with scaling uses the solver/median contracts; float effects (eps mask, 1e-30) are bounded by tolerances. Trusted: Coq kernel, vm_compute, real-number axioms, float64 distance recomputation.'),

 'C15': ('DESIGN.md §4 C15',
         'Coq proofs (Reals, lists) of the block decomposition of distances, the one-hot table lookup, and the theorem that the fast path as coded equals the dense kernel with the block-diagonal transform on the one-hot rows (any number of columns/groups/levels) + the three categorical paths re-translated from the source each run by symbolic execution and proved equal to those models (catops) + block-AGOP entry theorem (Q) + differential fast vs dense vs mpmath closed form + interval-certified fast-path entries',
         'Theorems for any number of blocks / levels / transform rows: the squared L2 distance (resp. sum of |.|^p) of block-structured rows is the sum over blocks; a one-hot row times a full block matrix is the corresponding row of the transformed identity codes, so a group contributes the table entry D_g[a,b]; an AGOP entry of the column-restricted gradients is the dense entry. '
         'get_kernel_matrix / get_agop with and without set_categorical_indices are compared on one-hot rows for L2, Lpq (every boundary (p,q)) and product kernels, interleaved layouts, transforms none/diagonal/block-diagonal, and with the documented closed form; L2 fast-path entries are certified against the Coq dense model by `interval`.',
         'Trusted: Coq kernel, Interval, real-number axioms, mpmath. The product kernel\'s categorical path needs a harness-side batch-size stub on CPU (it queries CUDA unconditionally): observation recorded in DESIGN.md.'),
}

NOT_YET = 'check not built yet in this session (planned, see DESIGN.md §4)'

def main():
    checks = []
    for pid in ALL:
        if pid not in CHECKS:
            continue
        ref, tech, text, note = CHECKS[pid]
        checks.append(dict(
            property_id=pid,
            quick_cmd=f'./check {pid} --tier quick',
            thorough_cmd=f'./check {pid} --tier thorough',
            evidence_file=f'/verif/evidence/{pid}.json',
            replay_cmd_template=f'./check {pid} --replay {{path}}',
            engine='coq-xv',
            level_claimed=dict(category='proof', text=text, design_ref=ref),
            level_note=note,
            technique=tech,
        ))
    man = dict(
        version=1,
        setup_cmd='cd /verif/coq && coq_makefile -f _CoqProject -o Makefile && timeout 3000 make -j16',
        hooks=dict(guard='XRFM_VERIF', enable='no source hooks are needed: observation is by harness-side subclasses and instance wrappers; checks import xrfm from /repo (PYTHONPATH=/repo)',
                   baseline_off_cmd='cd /repo && /venv/bin/python -m pytest -ra -q -p no:cacheprovider --timeout=900 --continue-on-collection-errors tests',
                   source_commits=[], add_only=True),
        engines=[dict(name='coq-xv', path='/verif/coq', serves_properties=sorted(CHECKS),
                      kind_free_text='Coq 8.16.1 development (models, proofs, property theorems) + Python harness that ties the models to /repo by translation and vm_compute/interval correspondence')],
        checks=checks,
        notes='See DESIGN.md. Each check: theorem re-check with Print Assumptions gate, regenerated translation lemmas, correspondence of the Coq model with the real code, independent property oracle for the violation search.',
        not_applicable=[dict(property_id=p, reason=NOT_YET) for p in ALL if p not in CHECKS],
    )
    json.dump(man, open(os.path.join(HERE, 'MANIFEST.json'), 'w'), indent=1)
    print('MANIFEST.json:', len(checks), 'checks;', len(man['not_applicable']), 'not claimed')

main()
