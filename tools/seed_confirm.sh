#!/bin/bash
# tools/seed_confirm.sh <Cxx> <seed-name>   — confirm a sub-agent's seeded defect in its scratch worktree and keep it under /verif/seeded/
set -u
P=$1; NAME=$2; W=${SEEDWORK:-/tmp/seedwork}/$P; WT=$W/wt; OUT=$W/out
D=/verif/seeded/$NAME; mkdir -p $D
cd $WT || exit 2
git checkout -q -- . ; git apply --check $OUT/patch.diff; AP=$?; git apply $OUT/patch.diff   # (no git stash: the stash is shared between worktrees)
echo "patch applies to pristine: rc=$AP"
T0=$(date +%s)
OMP_NUM_THREADS=4 MKL_NUM_THREADS=4 PYTHONPATH=$WT /venv/bin/python -m pytest -q -p no:cacheprovider --timeout=900 tests 2>&1 | tail -1 > $D/suite_with_patch.txt
cat $D/suite_with_patch.txt
OMP_NUM_THREADS=4 PYTHONPATH=$WT timeout 300 /venv/bin/python $OUT/demo.py > $D/demo_with_patch.txt 2>&1; RC1=$?
OMP_NUM_THREADS=4 PYTHONPATH=/repo timeout 300 /venv/bin/python $OUT/demo.py > $D/demo_without_patch.txt 2>&1; RC0=$?
echo "demo with patch rc=$RC1 (want 1); without rc=$RC0 (want 0); $(( $(date +%s)-T0 ))s"
cp $OUT/patch.diff $OUT/demo.py $D/
python3 - <<PY
import json
m=json.load(open('$OUT/meta.json'))
m.update(property='$P', confirmed=dict(patch_applies=($AP==0), suite_with_patch=open('$D/suite_with_patch.txt').read().strip(),
   demo_rc_with_patch=$RC1, demo_rc_without_patch=$RC0,
   ran=['git apply --check patch.diff (pristine worktree)','pytest tests (worktree with patch)','demo.py with PYTHONPATH=worktree','demo.py with PYTHONPATH=/repo']))
json.dump(m, open('$D/meta.json','w'), indent=1)
PY
